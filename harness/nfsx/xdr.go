// Package nfsx is an independent XDR / ONC RPC / NFSv3 / MOUNTv3 / portmap
// codec written from RFC 1831, RFC 1813 and RFC 1833 (not from absnfs' own
// encoders). It is the client side of every check and the strict reply
// decoder is the oracle of property C14.
package nfsx

import (
	"encoding/binary"
	"errors"
	"fmt"
	"io"
)

// ------------------------------------------------------------------ writer

// W is an XDR writer.
type W struct{ B []byte }

func (w *W) U32(v uint32) *W {
	w.B = binary.BigEndian.AppendUint32(w.B, v)
	return w
}
func (w *W) U64(v uint64) *W {
	w.B = binary.BigEndian.AppendUint64(w.B, v)
	return w
}
func (w *W) Bool(b bool) *W {
	if b {
		return w.U32(1)
	}
	return w.U32(0)
}

// Fixed writes fixed-length opaque data padded to 4 bytes.
func (w *W) Fixed(b []byte) *W {
	w.B = append(w.B, b...)
	for len(w.B)%4 != 0 {
		w.B = append(w.B, 0)
	}
	return w
}

// Opaque writes variable-length opaque data.
func (w *W) Opaque(b []byte) *W { w.U32(uint32(len(b))); return w.Fixed(b) }
func (w *W) Str(s string) *W    { return w.Opaque([]byte(s)) }
func (w *W) Raw(b []byte) *W    { w.B = append(w.B, b...); return w }

// ------------------------------------------------------------------ reader (strict)

// R is a strict XDR reader: truncated input, non-zero padding, out-of-range
// booleans all set Err; Done() reports trailing bytes.
type R struct {
	B   []byte
	Off int
	Err error
}

func (r *R) fail(format string, a ...interface{}) {
	if r.Err == nil {
		r.Err = fmt.Errorf("xdr@%d: "+format, append([]interface{}{r.Off}, a...)...)
	}
}

func (r *R) U32() uint32 {
	if r.Err != nil {
		return 0
	}
	if r.Off+4 > len(r.B) {
		r.fail("truncated uint32 (have %d bytes)", len(r.B)-r.Off)
		return 0
	}
	v := binary.BigEndian.Uint32(r.B[r.Off:])
	r.Off += 4
	return v
}

func (r *R) U64() uint64 {
	hi := r.U32()
	lo := r.U32()
	return uint64(hi)<<32 | uint64(lo)
}

func (r *R) Bool() bool {
	v := r.U32()
	if v > 1 {
		r.fail("boolean value %d", v)
	}
	return v == 1
}

func (r *R) Fixed(n int) []byte {
	if r.Err != nil {
		return nil
	}
	pad := (4 - n%4) % 4
	if n < 0 || r.Off+n+pad > len(r.B) {
		r.fail("truncated opaque of %d(+%d) bytes (have %d)", n, pad, len(r.B)-r.Off)
		return nil
	}
	out := append([]byte(nil), r.B[r.Off:r.Off+n]...)
	for i := 0; i < pad; i++ {
		if r.B[r.Off+n+i] != 0 {
			r.fail("non-zero padding byte")
			break
		}
	}
	r.Off += n + pad
	return out
}

func (r *R) Opaque(max uint32) []byte {
	n := r.U32()
	if r.Err != nil {
		return nil
	}
	if n > max {
		r.fail("opaque length %d exceeds protocol maximum %d", n, max)
		return nil
	}
	return r.Fixed(int(n))
}

func (r *R) Str(max uint32) string { return string(r.Opaque(max)) }

// Done returns the first error, or an error if bytes remain.
func (r *R) Done() error {
	if r.Err != nil {
		return r.Err
	}
	if r.Off != len(r.B) {
		return fmt.Errorf("xdr: %d trailing byte(s) after a complete value at offset %d", len(r.B)-r.Off, r.Off)
	}
	return nil
}

// ------------------------------------------------------------------ RPC (RFC 1831)

const (
	ProgNFS   = 100003
	ProgMount = 100005
	ProgPmap  = 100000

	MsgAccepted = 0
	MsgDenied   = 1

	AcceptSuccess      = 0
	AcceptProgUnavail  = 1
	AcceptProgMismatch = 2
	AcceptProcUnavail  = 3
	AcceptGarbageArgs  = 4
	AcceptSystemErr    = 5

	RejectRPCMismatch = 0
	RejectAuthError   = 1

	AuthFlavorNone  = 0
	AuthFlavorSys   = 1
	AuthFlavorShort = 2
	AuthFlavorDH    = 3
)

// Auth is an opaque_auth.
type Auth struct {
	Flavor uint32
	Body   []byte
}

func AuthNone() Auth { return Auth{} }

// AuthSys encodes an authsys_parms body (RFC 1831 appendix A).
func AuthSys(stamp uint32, machine string, uid, gid uint32, gids []uint32) Auth {
	w := &W{}
	w.U32(stamp).Str(machine).U32(uid).U32(gid).U32(uint32(len(gids)))
	for _, g := range gids {
		w.U32(g)
	}
	return Auth{Flavor: AuthFlavorSys, Body: w.B}
}

// Call encodes a complete call message.
func Call(xid, prog, vers, proc uint32, cred, verf Auth, args []byte) []byte {
	w := &W{}
	w.U32(xid).U32(0).U32(2).U32(prog).U32(vers).U32(proc)
	w.U32(cred.Flavor).Opaque(cred.Body)
	w.U32(verf.Flavor).Opaque(verf.Body)
	w.Raw(args)
	return w.B
}

// CallHeader is a decoded call header (used to decide which stream records a
// conformant server must be able to decode).
type CallHeader struct {
	Xid, RPCVers, Prog, Vers, Proc uint32
	Cred, Verf                     Auth
	ArgsOff                        int
}

// ParseCall decodes a call message header per RFC 1831 (auth bodies <= 400).
func ParseCall(b []byte) (*CallHeader, error) {
	r := &R{B: b}
	h := &CallHeader{}
	h.Xid = r.U32()
	mt := r.U32()
	if r.Err == nil && mt != 0 {
		return nil, fmt.Errorf("msg_type %d is not CALL", mt)
	}
	h.RPCVers = r.U32()
	h.Prog = r.U32()
	h.Vers = r.U32()
	h.Proc = r.U32()
	h.Cred.Flavor = r.U32()
	h.Cred.Body = lenientOpaque(r, 400)
	h.Verf.Flavor = r.U32()
	h.Verf.Body = lenientOpaque(r, 400)
	if r.Err != nil {
		return nil, r.Err
	}
	h.ArgsOff = r.Off
	return h, nil
}

// lenientOpaque accepts non-zero padding (a server need not check it).
func lenientOpaque(r *R, max uint32) []byte {
	n := r.U32()
	if r.Err != nil {
		return nil
	}
	if n > max {
		r.fail("opaque length %d exceeds %d", n, max)
		return nil
	}
	pad := (4 - int(n)%4) % 4
	if r.Off+int(n)+pad > len(r.B) {
		r.fail("truncated opaque")
		return nil
	}
	out := append([]byte(nil), r.B[r.Off:r.Off+int(n)]...)
	r.Off += int(n) + pad
	return out
}

// Reply is a decoded reply header.
type Reply struct {
	Xid        uint32
	Stat       uint32 // MsgAccepted / MsgDenied
	Verf       Auth
	AcceptStat uint32
	Low, High  uint32 // mismatch_info
	RejectStat uint32
	AuthStat   uint32
	Body       []byte // results (only for MsgAccepted+SUCCESS)
}

// ParseReply strictly decodes an RFC 1831 reply message.
func ParseReply(b []byte) (*Reply, error) {
	r := &R{B: b}
	rp := &Reply{}
	rp.Xid = r.U32()
	if mt := r.U32(); r.Err == nil && mt != 1 {
		return nil, fmt.Errorf("msg_type %d is not REPLY", mt)
	}
	rp.Stat = r.U32()
	if r.Err != nil {
		return nil, r.Err
	}
	switch rp.Stat {
	case MsgAccepted:
		rp.Verf.Flavor = r.U32()
		rp.Verf.Body = r.Opaque(400)
		rp.AcceptStat = r.U32()
		if r.Err != nil {
			return nil, r.Err
		}
		switch rp.AcceptStat {
		case AcceptSuccess:
			rp.Body = append([]byte(nil), r.B[r.Off:]...)
			return rp, nil
		case AcceptProgMismatch:
			rp.Low = r.U32()
			rp.High = r.U32()
		case AcceptProgUnavail, AcceptProcUnavail, AcceptGarbageArgs, AcceptSystemErr:
		default:
			return nil, fmt.Errorf("accept_stat %d not in RFC 1831", rp.AcceptStat)
		}
	case MsgDenied:
		rp.RejectStat = r.U32()
		switch rp.RejectStat {
		case RejectRPCMismatch:
			rp.Low = r.U32()
			rp.High = r.U32()
		case RejectAuthError:
			rp.AuthStat = r.U32()
			if r.Err == nil && rp.AuthStat > 14 {
				return nil, fmt.Errorf("auth_stat %d out of range", rp.AuthStat)
			}
		default:
			if r.Err == nil {
				return nil, fmt.Errorf("reject_stat %d not in RFC 1831", rp.RejectStat)
			}
		}
	default:
		return nil, fmt.Errorf("reply_stat %d not in RFC 1831", rp.Stat)
	}
	if err := r.Done(); err != nil {
		return nil, err
	}
	return rp, nil
}

// ------------------------------------------------------------------ record marking (RFC 1831 §10)

// Frame wraps data into fragments of the given sizes (the remainder goes into a
// final fragment). With no sizes a single last fragment is produced.
func Frame(data []byte, fragSizes ...int) []byte {
	var out []byte
	rest := data
	for _, s := range fragSizes {
		if s > len(rest) {
			s = len(rest)
		}
		if s == len(rest) {
			break
		}
		out = binary.BigEndian.AppendUint32(out, uint32(s))
		out = append(out, rest[:s]...)
		rest = rest[s:]
	}
	out = binary.BigEndian.AppendUint32(out, uint32(len(rest))|0x80000000)
	out = append(out, rest...)
	return out
}

// ReadRecord reads one record (any fragmentation) from r.
func ReadRecord(r io.Reader, max int) ([]byte, error) {
	var rec []byte
	for {
		var hdr [4]byte
		if _, err := io.ReadFull(r, hdr[:]); err != nil {
			return nil, err
		}
		h := binary.BigEndian.Uint32(hdr[:])
		n := int(h & 0x7fffffff)
		if len(rec)+n > max {
			return nil, errors.New("record too large")
		}
		frag := make([]byte, n)
		if _, err := io.ReadFull(r, frag); err != nil {
			return nil, err
		}
		rec = append(rec, frag...)
		if h&0x80000000 != 0 {
			return rec, nil
		}
	}
}
