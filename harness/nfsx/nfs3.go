package nfsx

import (
	"fmt"
)

// NFSv3 procedure numbers (RFC 1813 §3).
const (
	ProcNull        = 0
	ProcGetattr     = 1
	ProcSetattr     = 2
	ProcLookup      = 3
	ProcAccess      = 4
	ProcReadlink    = 5
	ProcRead        = 6
	ProcWrite       = 7
	ProcCreate      = 8
	ProcMkdir       = 9
	ProcSymlink     = 10
	ProcMknod       = 11
	ProcRemove      = 12
	ProcRmdir       = 13
	ProcRename      = 14
	ProcLink        = 15
	ProcReaddir     = 16
	ProcReaddirplus = 17
	ProcFsstat      = 18
	ProcFsinfo      = 19
	ProcPathconf    = 20
	ProcCommit      = 21
)

var ProcNames = map[uint32]string{0: "NULL", 1: "GETATTR", 2: "SETATTR", 3: "LOOKUP", 4: "ACCESS", 5: "READLINK", 6: "READ", 7: "WRITE",
	8: "CREATE", 9: "MKDIR", 10: "SYMLINK", 11: "MKNOD", 12: "REMOVE", 13: "RMDIR", 14: "RENAME", 15: "LINK", 16: "READDIR",
	17: "READDIRPLUS", 18: "FSSTAT", 19: "FSINFO", 20: "PATHCONF", 21: "COMMIT"}

// nfsstat3 (RFC 1813 §2.6).
const (
	OK             = 0
	ErrPerm        = 1
	ErrNoEnt       = 2
	ErrIO          = 5
	ErrNXIO        = 6
	ErrAcces       = 13
	ErrExist       = 17
	ErrXDev        = 18
	ErrNoDev       = 19
	ErrNotDir      = 20
	ErrIsDir       = 21
	ErrInval       = 22
	ErrFBig        = 27
	ErrNoSpc       = 28
	ErrROFS        = 30
	ErrMLink       = 31
	ErrNameTooLong = 63
	ErrNotEmpty    = 66
	ErrDQuot       = 69
	ErrStale       = 70
	ErrRemote      = 71
	ErrBadHandle   = 10001
	ErrNotSync     = 10002
	ErrBadCookie   = 10003
	ErrNotSupp     = 10004
	ErrTooSmall    = 10005
	ErrServerFault = 10006
	ErrBadType     = 10007
	ErrJukebox     = 10008
)

var nfsstat3 = map[uint32]bool{0: true, 1: true, 2: true, 5: true, 6: true, 13: true, 17: true, 18: true, 19: true, 20: true, 21: true, 22: true,
	27: true, 28: true, 30: true, 31: true, 63: true, 66: true, 69: true, 70: true, 71: true,
	10001: true, 10002: true, 10003: true, 10004: true, 10005: true, 10006: true, 10007: true, 10008: true}

// IsNfsstat3 reports membership in the RFC 1813 enumeration.
func IsNfsstat3(s uint32) bool { return nfsstat3[s] }

var mountstat3 = map[uint32]bool{0: true, 1: true, 2: true, 5: true, 13: true, 20: true, 22: true, 63: true, 10004: true, 10006: true}

// IsMountstat3 reports membership in the RFC 1813 appendix I enumeration.
func IsMountstat3(s uint32) bool { return mountstat3[s] }

const (
	Unchecked = 0
	Guarded   = 1
	Exclusive = 2

	Unstable = 0
	DataSync = 1
	FileSync = 2

	TypeReg  = 1
	TypeDir  = 2
	TypeBlk  = 3
	TypeChr  = 4
	TypeLnk  = 5
	TypeSock = 6
	TypeFifo = 7

	AccessRead    = 0x01
	AccessLookup  = 0x02
	AccessModify  = 0x04
	AccessExtend  = 0x08
	AccessDelete  = 0x10
	AccessExecute = 0x20
)

// Time is nfstime3.
type Time struct{ Sec, Nsec uint32 }

// Fattr is fattr3.
type Fattr struct {
	Type, Mode, Nlink, Uid, Gid uint32
	Size, Used                  uint64
	Rdev1, Rdev2                uint32
	Fsid, Fileid                uint64
	Atime, Mtime, Ctime         Time
}

// WccAttr is wcc_attr.
type WccAttr struct {
	Size         uint64
	Mtime, Ctime Time
}

// Wcc is wcc_data.
type Wcc struct {
	Before *WccAttr
	After  *Fattr
}

// Entry is entry3 / entryplus3.
type Entry struct {
	Fileid uint64
	Name   string
	Cookie uint64
	Attr   *Fattr // READDIRPLUS only, may be nil
	Fh     []byte // READDIRPLUS only, may be nil
}

// Res is a decoded NFSv3 result of any procedure.
type Res struct {
	Proc   uint32
	Status uint32

	Attr    *Fattr // object attributes (GETATTR attrs / post_op_attr of the object)
	DirAttr *Fattr // LOOKUP dir_attributes
	Wcc     *Wcc   // first wcc_data
	Wcc2    *Wcc   // second wcc_data (RENAME todir)
	Fh      []byte // LOOKUP object / post_op_fh3 of CREATE-like procedures (nil if absent)

	Access     uint32
	Link       string
	Count      uint32
	EOF        bool
	Data       []byte
	Committed  uint32
	Verf       [8]byte
	CookieVerf [8]byte
	Entries    []Entry

	Fsstat struct {
		Tbytes, Fbytes, Abytes, Tfiles, Ffiles, Afiles uint64
		Invarsec                                       uint32
	}
	Fsinfo struct {
		Rtmax, Rtpref, Rtmult, Wtmax, Wtpref, Wtmult, Dtpref uint32
		MaxFileSize                                          uint64
		TimeDelta                                            Time
		Properties                                           uint32
	}
	Pathconf struct {
		Linkmax, NameMax                                          uint32
		NoTrunc, ChownRestricted, CaseInsensitive, CasePreserving bool
	}

	// BodyLen is the length of the encoded result (status word included).
	BodyLen int
}

func readTime(r *R) Time {
	t := Time{r.U32(), r.U32()}
	if r.Err == nil && t.Nsec >= 1_000_000_000 {
		r.fail("nfstime3 nseconds %d out of range", t.Nsec)
	}
	return t
}

func readFattr(r *R) *Fattr {
	a := &Fattr{}
	a.Type = r.U32()
	if r.Err == nil && (a.Type < 1 || a.Type > 7) {
		r.fail("ftype3 %d out of range", a.Type)
	}
	a.Mode = r.U32()
	if r.Err == nil && a.Mode&^07777 != 0 {
		r.fail("mode3 %#o has bits outside 07777", a.Mode)
	}
	a.Nlink = r.U32()
	a.Uid = r.U32()
	a.Gid = r.U32()
	a.Size = r.U64()
	a.Used = r.U64()
	a.Rdev1 = r.U32()
	a.Rdev2 = r.U32()
	a.Fsid = r.U64()
	a.Fileid = r.U64()
	a.Atime = readTime(r)
	a.Mtime = readTime(r)
	a.Ctime = readTime(r)
	return a
}

func readPostOp(r *R) *Fattr {
	if r.Bool() {
		return readFattr(r)
	}
	return nil
}

func readWcc(r *R) *Wcc {
	w := &Wcc{}
	if r.Bool() {
		w.Before = &WccAttr{Size: r.U64(), Mtime: readTime(r), Ctime: readTime(r)}
	}
	w.After = readPostOp(r)
	return w
}

func readFh(r *R) []byte { return r.Opaque(64) }

func read8(r *R) (out [8]byte) {
	b := r.Fixed(8)
	copy(out[:], b)
	return
}

// DecodeNFS3 strictly decodes the result of procedure proc from body (the bytes
// after accept_stat). Every byte must be consumed.
func DecodeNFS3(proc uint32, body []byte) (*Res, error) {
	res := &Res{Proc: proc, BodyLen: len(body)}
	r := &R{B: body}
	if proc == ProcNull {
		return res, r.Done()
	}
	if proc > ProcCommit {
		return nil, fmt.Errorf("no such NFSv3 procedure %d", proc)
	}
	res.Status = r.U32()
	if r.Err != nil {
		return nil, r.Err
	}
	if !nfsstat3[res.Status] {
		return res, fmt.Errorf("status %d is not a member of nfsstat3", res.Status)
	}
	ok := res.Status == OK
	switch proc {
	case ProcGetattr:
		if ok {
			res.Attr = readFattr(r)
		}
	case ProcSetattr:
		res.Wcc = readWcc(r)
	case ProcLookup:
		if ok {
			res.Fh = readFh(r)
			res.Attr = readPostOp(r)
		}
		res.DirAttr = readPostOp(r)
	case ProcAccess:
		res.Attr = readPostOp(r)
		if ok {
			res.Access = r.U32()
		}
	case ProcReadlink:
		res.Attr = readPostOp(r)
		if ok {
			res.Link = r.Str(1 << 20)
		}
	case ProcRead:
		res.Attr = readPostOp(r)
		if ok {
			res.Count = r.U32()
			res.EOF = r.Bool()
			res.Data = r.Opaque(1 << 30)
		}
	case ProcWrite:
		res.Wcc = readWcc(r)
		if ok {
			res.Count = r.U32()
			res.Committed = r.U32()
			if r.Err == nil && res.Committed > 2 {
				r.fail("stable_how %d out of range", res.Committed)
			}
			res.Verf = read8(r)
		}
	case ProcCreate, ProcMkdir, ProcSymlink, ProcMknod:
		if ok {
			if r.Bool() {
				res.Fh = readFh(r)
			}
			res.Attr = readPostOp(r)
		}
		res.Wcc = readWcc(r)
	case ProcRemove, ProcRmdir:
		res.Wcc = readWcc(r)
	case ProcRename:
		res.Wcc = readWcc(r)
		res.Wcc2 = readWcc(r)
	case ProcLink:
		res.Attr = readPostOp(r)
		res.Wcc = readWcc(r)
	case ProcReaddir, ProcReaddirplus:
		res.DirAttr = readPostOp(r)
		if ok {
			res.CookieVerf = read8(r)
			for r.Bool() {
				e := Entry{}
				e.Fileid = r.U64()
				e.Name = r.Str(1 << 16)
				e.Cookie = r.U64()
				if proc == ProcReaddirplus {
					e.Attr = readPostOp(r)
					if r.Bool() {
						e.Fh = readFh(r)
					}
				}
				if r.Err != nil {
					break
				}
				res.Entries = append(res.Entries, e)
			}
			res.EOF = r.Bool()
		}
	case ProcFsstat:
		res.Attr = readPostOp(r)
		if ok {
			f := &res.Fsstat
			f.Tbytes, f.Fbytes, f.Abytes = r.U64(), r.U64(), r.U64()
			f.Tfiles, f.Ffiles, f.Afiles = r.U64(), r.U64(), r.U64()
			f.Invarsec = r.U32()
		}
	case ProcFsinfo:
		res.Attr = readPostOp(r)
		if ok {
			f := &res.Fsinfo
			f.Rtmax, f.Rtpref, f.Rtmult = r.U32(), r.U32(), r.U32()
			f.Wtmax, f.Wtpref, f.Wtmult = r.U32(), r.U32(), r.U32()
			f.Dtpref = r.U32()
			f.MaxFileSize = r.U64()
			f.TimeDelta = readTime(r)
			f.Properties = r.U32()
		}
	case ProcPathconf:
		res.Attr = readPostOp(r)
		if ok {
			p := &res.Pathconf
			p.Linkmax, p.NameMax = r.U32(), r.U32()
			p.NoTrunc, p.ChownRestricted, p.CaseInsensitive, p.CasePreserving = r.Bool(), r.Bool(), r.Bool(), r.Bool()
		}
	case ProcCommit:
		res.Wcc = readWcc(r)
		if ok {
			res.Verf = read8(r)
		}
	}
	if err := r.Done(); err != nil {
		return res, err
	}
	if proc == ProcRead && ok && int(res.Count) != len(res.Data) {
		return res, fmt.Errorf("READ3resok count %d != data length %d", res.Count, len(res.Data))
	}
	return res, nil
}

// ------------------------------------------------------------------ arguments

// SetTime is the set_atime / set_mtime union.
type SetTime struct {
	How uint32 // 0 DONT_CHANGE, 1 SET_TO_SERVER_TIME, 2 SET_TO_CLIENT_TIME
	T   Time
}

// Sattr is sattr3.
type Sattr struct {
	Mode, Uid, Gid *uint32
	Size           *uint64
	Atime, Mtime   SetTime
}

func U32p(v uint32) *uint32 { return &v }
func U64p(v uint64) *uint64 { return &v }

func (w *W) Sattr(s Sattr) *W {
	for _, p := range []*uint32{s.Mode, s.Uid, s.Gid} {
		if p != nil {
			w.U32(1).U32(*p)
		} else {
			w.U32(0)
		}
	}
	if s.Size != nil {
		w.U32(1).U64(*s.Size)
	} else {
		w.U32(0)
	}
	for _, t := range []SetTime{s.Atime, s.Mtime} {
		w.U32(t.How)
		if t.How == 2 {
			w.U32(t.T.Sec).U32(t.T.Nsec)
		}
	}
	return w
}

// Fh8 builds the 8-byte big-endian handle absnfs issues.
func Fh8(v uint64) []byte { return (&W{}).U64(v).B }

// FhVal interprets an 8-byte handle.
func FhVal(fh []byte) (uint64, bool) {
	if len(fh) != 8 {
		return 0, false
	}
	r := &R{B: fh}
	return r.U64(), true
}

func ArgsFh(fh []byte) []byte                  { return (&W{}).Opaque(fh).B }
func ArgsDirop(fh []byte, name string) []byte  { return (&W{}).Opaque(fh).Str(name).B }
func ArgsAccess(fh []byte, mask uint32) []byte { return (&W{}).Opaque(fh).U32(mask).B }
func ArgsRead(fh []byte, off uint64, count uint32) []byte {
	return (&W{}).Opaque(fh).U64(off).U32(count).B
}
func ArgsWrite(fh []byte, off uint64, count uint32, stable uint32, data []byte) []byte {
	return (&W{}).Opaque(fh).U64(off).U32(count).U32(stable).Opaque(data).B
}
func ArgsSetattr(fh []byte, s Sattr, guard *Time) []byte {
	w := (&W{}).Opaque(fh).Sattr(s)
	if guard != nil {
		w.U32(1).U32(guard.Sec).U32(guard.Nsec)
	} else {
		w.U32(0)
	}
	return w.B
}
func ArgsCreate(dir []byte, name string, mode uint32, s Sattr, verf [8]byte) []byte {
	w := (&W{}).Opaque(dir).Str(name).U32(mode)
	if mode == Exclusive {
		w.Fixed(verf[:])
	} else {
		w.Sattr(s)
	}
	return w.B
}
func ArgsMkdir(dir []byte, name string, s Sattr) []byte {
	return (&W{}).Opaque(dir).Str(name).Sattr(s).B
}
func ArgsSymlink(dir []byte, name string, s Sattr, target string) []byte {
	return (&W{}).Opaque(dir).Str(name).Sattr(s).Str(target).B
}

// ArgsMknod encodes MKNOD3args for a FIFO/socket (sattr only) or device.
func ArgsMknod(dir []byte, name string, ftype uint32, s Sattr) []byte {
	w := (&W{}).Opaque(dir).Str(name).U32(ftype)
	switch ftype {
	case TypeChr, TypeBlk:
		w.Sattr(s).U32(1).U32(2)
	case TypeSock, TypeFifo:
		w.Sattr(s)
	}
	return w.B
}
func ArgsRename(fd []byte, fn string, td []byte, tn string) []byte {
	return (&W{}).Opaque(fd).Str(fn).Opaque(td).Str(tn).B
}
func ArgsLink(fh, dir []byte, name string) []byte { return (&W{}).Opaque(fh).Opaque(dir).Str(name).B }
func ArgsReaddir(fh []byte, cookie uint64, verf [8]byte, count uint32) []byte {
	return (&W{}).Opaque(fh).U64(cookie).Fixed(verf[:]).U32(count).B
}
func ArgsReaddirplus(fh []byte, cookie uint64, verf [8]byte, dircount, maxcount uint32) []byte {
	return (&W{}).Opaque(fh).U64(cookie).Fixed(verf[:]).U32(dircount).U32(maxcount).B
}
func ArgsCommit(fh []byte, off uint64, count uint32) []byte {
	return (&W{}).Opaque(fh).U64(off).U32(count).B
}

// ------------------------------------------------------------------ MOUNT v3 (RFC 1813 appendix I)

const (
	MountNull    = 0
	MountMnt     = 1
	MountDump    = 2
	MountUmnt    = 3
	MountUmntAll = 4
	MountExport  = 5
)

// MountRes is a decoded MOUNT v3 result.
type MountRes struct {
	Proc    uint32
	Status  uint32
	Fh      []byte
	Flavors []uint32
	Mounts  [][2]string
	Exports []struct {
		Dir    string
		Groups []string
	}
}

// DecodeMount3 strictly decodes a MOUNT v3 result.
func DecodeMount3(proc uint32, body []byte) (*MountRes, error) {
	res := &MountRes{Proc: proc}
	r := &R{B: body}
	switch proc {
	case MountNull, MountUmnt, MountUmntAll:
	case MountMnt:
		res.Status = r.U32()
		if r.Err != nil {
			return nil, r.Err
		}
		if !mountstat3[res.Status] {
			return res, fmt.Errorf("status %d is not a member of mountstat3", res.Status)
		}
		if res.Status == 0 {
			res.Fh = r.Opaque(64)
			n := r.U32()
			if r.Err == nil && n > 64 {
				r.fail("auth_flavors count %d", n)
			}
			for i := uint32(0); i < n && r.Err == nil; i++ {
				res.Flavors = append(res.Flavors, r.U32())
			}
		}
	case MountDump:
		for r.Bool() {
			h := r.Str(255)
			d := r.Str(1024)
			if r.Err != nil {
				break
			}
			res.Mounts = append(res.Mounts, [2]string{h, d})
		}
	case MountExport:
		for r.Bool() {
			var e struct {
				Dir    string
				Groups []string
			}
			e.Dir = r.Str(1024)
			for r.Bool() {
				g := r.Str(255)
				if r.Err != nil {
					break
				}
				e.Groups = append(e.Groups, g)
			}
			if r.Err != nil {
				break
			}
			res.Exports = append(res.Exports, e)
		}
	default:
		return nil, fmt.Errorf("no such MOUNT v3 procedure %d", proc)
	}
	return res, r.Done()
}

// ------------------------------------------------------------------ portmap v2 / rpcbind v3,v4 (RFC 1833)

const (
	PmapNull    = 0
	PmapSet     = 1
	PmapUnset   = 2
	PmapGetport = 3 // GETADDR in v3/v4
	PmapDump    = 4
	PmapCallit  = 5
)

// Mapping is a pmap entry.
type Mapping struct{ Prog, Vers, Prot, Port uint32 }

// Rpcb is an rpcb entry.
type Rpcb struct {
	Prog, Vers         uint32
	Netid, Addr, Owner string
}

func ArgsPmap(m Mapping) []byte { return (&W{}).U32(m.Prog).U32(m.Vers).U32(m.Prot).U32(m.Port).B }
func ArgsRpcb(b Rpcb) []byte {
	return (&W{}).U32(b.Prog).U32(b.Vers).Str(b.Netid).Str(b.Addr).Str(b.Owner).B
}

// PmapRes is a decoded portmap/rpcbind result.
type PmapRes struct {
	Bool  bool
	Port  uint32
	Addr  string
	List  []Mapping
	RList []Rpcb
}

// DecodePmap strictly decodes the result of (vers, proc).
func DecodePmap(vers, proc uint32, body []byte) (*PmapRes, error) {
	res := &PmapRes{}
	r := &R{B: body}
	switch proc {
	case PmapNull:
	case PmapSet, PmapUnset:
		res.Bool = r.Bool()
	case PmapGetport:
		if vers == 2 {
			res.Port = r.U32()
		} else {
			res.Addr = r.Str(1024)
		}
	case PmapDump:
		for r.Bool() {
			if vers == 2 {
				m := Mapping{r.U32(), r.U32(), r.U32(), r.U32()}
				if r.Err != nil {
					break
				}
				res.List = append(res.List, m)
			} else {
				b := Rpcb{Prog: r.U32(), Vers: r.U32()}
				b.Netid, b.Addr, b.Owner = r.Str(1024), r.Str(1024), r.Str(1024)
				if r.Err != nil {
					break
				}
				res.RList = append(res.RList, b)
			}
		}
	default:
		return nil, fmt.Errorf("portmap procedure %d not decoded", proc)
	}
	return res, r.Done()
}
