package checks

// C08 A read-only export is never modified.
//
// Generator: histories of all 22 NFSv3 procedures and MOUNT with well-formed,
// truncated and garbage-tailed arguments under several credentials, on an
// export that is read-only from construction or switched at runtime.
// Oracle: backend call recorder (no modifying call while read-only), backend
// snapshot, reply status of mutating procedures, ACCESS bits.

import (
	"fmt"
	"sync"
	"sync/atomic"
	"testing"
	"time"

	"github.com/absfs/absnfs"
	"pgregory.net/rapid"

	"verif/harness/drv"
	"verif/harness/nfsx"
	"verif/harness/stat"
	"verif/harness/vfs"
)

type c08Step struct {
	Kind  string `json:"kind"` // req setro setrw
	Via   string `json:"via,omitempty"` // policy | export
	Prog  string `json:"prog,omitempty"` // nfs | mount
	Proc  uint32 `json:"proc"`
	Var   int    `json:"var"`   // argument variant selector
	Cut   int    `json:"cut"`   // -1 = whole args, else truncate to 4*Cut bytes
	Tail  []byte `json:"tail,omitempty"`
	Cred  int    `json:"cred"`  // 0 root, 1 uid 1000, 2 AUTH_NONE, 3 unknown flavor
}

type c08Case struct {
	InitialRO bool      `json:"initial_ro"`
	Steps     []c08Step `json:"steps"`
	Conn      bool      `json:"conn,omitempty"` // requests travel over the record-marking connection loop
	// Listen: the server's listener is started (NewServer + SetHandler + Listen, the documented way of serving an
	// AbsfsNFS) before the first request; starting to listen may not change the export's policy
	Listen bool `json:"listen,omitempty"`
}

var c08Mutating = map[uint32]bool{nfsx.ProcSetattr: true, nfsx.ProcWrite: true, nfsx.ProcCreate: true, nfsx.ProcMkdir: true, nfsx.ProcSymlink: true,
	nfsx.ProcMknod: true, nfsx.ProcRemove: true, nfsx.ProcRmdir: true, nfsx.ProcRename: true, nfsx.ProcLink: true, nfsx.ProcCommit: true}

func genC08(t *rapid.T) c08Case {
	c := c08Case{InitialRO: rapid.Bool().Draw(t, "initial_ro"), Conn: rapid.IntRange(0, 3).Draw(t, "conn") == 0, Listen: rapid.IntRange(0, 2).Draw(t, "listen") == 0}
	n := rapid.IntRange(3, 30).Draw(t, "n")
	for i := 0; i < n; i++ {
		st := c08Step{Kind: "req"}
		switch rapid.IntRange(0, 11).Draw(t, "k") {
		case 0:
			st.Kind = "setro"
		case 1:
			st.Kind = "setrw"
		}
		if st.Kind != "req" {
			st.Via = pick(t, "via", "policy", "export")
			c.Steps = append(c.Steps, st)
			continue
		}
		st.Prog = "nfs"
		if rapid.IntRange(0, 9).Draw(t, "mount") == 0 {
			st.Prog = "mount"
			st.Proc = uint32(rapid.IntRange(0, 6).Draw(t, "mproc"))
		} else if rapid.IntRange(0, 3).Draw(t, "mut") != 0 {
			st.Proc = pick(t, "mproc", uint32(nfsx.ProcSetattr), nfsx.ProcWrite, nfsx.ProcCreate, nfsx.ProcMkdir, nfsx.ProcSymlink, nfsx.ProcMknod, nfsx.ProcRemove, nfsx.ProcRmdir, nfsx.ProcRename, nfsx.ProcLink, nfsx.ProcCommit)
		} else {
			st.Proc = uint32(rapid.IntRange(0, 23).Draw(t, "proc"))
		}
		st.Var = rapid.IntRange(0, 7).Draw(t, "var")
		st.Cut = -1
		switch rapid.IntRange(0, 5).Draw(t, "shape") {
		case 0:
			st.Cut = rapid.IntRange(0, 12).Draw(t, "cut")
		case 1:
			st.Tail = rapid.SliceOfN(rapid.Byte(), 1, 24).Draw(t, "tail")
		}
		st.Cred = pick(t, "cred", 0, 0, 0, 1, 1, 2, 3)
		c.Steps = append(c.Steps, st)
	}
	return c
}

type c08Handles struct{ root, f, d, d2, l []byte }

func c08Args(h c08Handles, proc uint32, v int, seq int) []byte {
	names := []string{"f", "d", "d2", "l", "new", fmt.Sprintf("n%d", seq), "missing", "f"}
	name := names[v%len(names)]
	objs := [][]byte{h.f, h.d, h.l, h.root, h.d2, h.f, h.f, h.d}
	obj := objs[v%len(objs)]
	switch proc {
	case nfsx.ProcNull:
		return nil
	case nfsx.ProcGetattr, nfsx.ProcReadlink, nfsx.ProcFsstat, nfsx.ProcFsinfo, nfsx.ProcPathconf:
		return nfsx.ArgsFh(obj)
	case nfsx.ProcSetattr:
		sa := []nfsx.Sattr{{Mode: nfsx.U32p(0600)}, {Size: nfsx.U64p(0)}, {Size: nfsx.U64p(100)}, {Uid: nfsx.U32p(5), Gid: nfsx.U32p(6)},
			{Atime: nfsx.SetTime{How: 1}, Mtime: nfsx.SetTime{How: 1}}, {Mtime: nfsx.SetTime{How: 2, T: nfsx.Time{Sec: 9, Nsec: 9}}}, {Mode: nfsx.U32p(0), Size: nfsx.U64p(3)}, {}}[v%8]
		return nfsx.ArgsSetattr(obj, sa, nil)
	case nfsx.ProcLookup:
		return nfsx.ArgsDirop(h.root, name)
	case nfsx.ProcAccess:
		return nfsx.ArgsAccess(obj, 0x3f)
	case nfsx.ProcRead:
		return nfsx.ArgsRead(h.f, uint64(v), 10)
	case nfsx.ProcWrite:
		data := []byte("overwrite-attempt")
		return nfsx.ArgsWrite(h.f, uint64(v*3), uint32(len(data)), uint32(v%3), data)
	case nfsx.ProcCreate:
		return nfsx.ArgsCreate(h.root, name, uint32(v%3), nfsx.Sattr{Mode: nfsx.U32p(0644), Size: nfsx.U64p(0)}, [8]byte{1})
	case nfsx.ProcMkdir:
		return nfsx.ArgsMkdir(h.root, name, nfsx.Sattr{Mode: nfsx.U32p(0755)})
	case nfsx.ProcSymlink:
		return nfsx.ArgsSymlink(h.root, name, nfsx.Sattr{}, "f")
	case nfsx.ProcMknod:
		return nfsx.ArgsMknod(h.root, name, nfsx.TypeFifo, nfsx.Sattr{})
	case nfsx.ProcRemove:
		return nfsx.ArgsDirop(h.root, name)
	case nfsx.ProcRmdir:
		return nfsx.ArgsDirop(h.root, name)
	case nfsx.ProcRename:
		return nfsx.ArgsRename(h.root, name, h.d, "moved")
	case nfsx.ProcLink:
		return nfsx.ArgsLink(h.f, h.root, "hardlink")
	case nfsx.ProcReaddir:
		return nfsx.ArgsReaddir(h.root, 0, [8]byte{}, 4096)
	case nfsx.ProcReaddirplus:
		return nfsx.ArgsReaddirplus(h.root, 0, [8]byte{}, 4096, 8192)
	case nfsx.ProcCommit:
		return nfsx.ArgsCommit(h.f, 0, 0)
	}
	return nfsx.ArgsFh(obj) // unknown procedure numbers 22, 23
}

func runC08(tb stat.TB, c c08Case) {
	const id, check = "C08", "TestC08"
	v := vfs.New()
	v.SeedFile("/f", 0644, 0, 0, []byte("precious data that must survive"))
	v.SeedDir("/d", 0755, 0, 0)
	v.SeedFile("/d/child", 0644, 0, 0, []byte("c"))
	v.SeedDir("/d2", 0755, 0, 0)
	v.SeedSymlink("/l", "f", 0, 0)
	s := newSession(tb, v, absnfs.ExportOptions{ReadOnly: c.InitialRO, AttrCacheTimeout: 1, AttrCacheSize: 4})
	defer s.close()
	s.tolerateMalformed = true
	s.e.ViaConn = c.Conn
	if c.Listen {
		if err := s.e.Listen(); err != nil {
			tb.Fatalf("harness: Listen: %v", err)
		}
	}
	ro := c.InitialRO
	nt := false
	rwOK := 0
	creds := []drv.Client{drv.Root(), drv.User(1000, 1000, 4, 5), {IP: "127.0.0.1", Port: 700, Cred: nfsx.AuthNone()}, {IP: "127.0.0.1", Port: 700, Cred: nfsx.Auth{Flavor: 6, Body: []byte{1, 2, 3, 4}}}}
	abandoned := guard(func() {
		var h c08Handles
		h.root = s.mount()
		get := func(n string) []byte {
			r := s.nfs(nfsx.ProcLookup, nfsx.ArgsDirop(h.root, n))
			if r.Status != nfsx.OK {
				tb.Fatalf("harness: seed LOOKUP %s: %s", n, statusName(r.Status))
			}
			return r.Fh
		}
		h.f, h.d, h.d2, h.l = get("f"), get("d"), get("d2"), get("l")
		v.SetRecording(true)
		frozen := v.Snapshot()
		for i, st := range c.Steps {
			switch st.Kind {
			case "setro", "setrw":
				want := st.Kind == "setro"
				var err error
				if st.Via == "policy" {
					p := absnfs.PolicyOptions{ReadOnly: want}
					cur := s.e.NFS.GetExportOptions()
					p.Squash, p.Secure, p.AllowedIPs, p.MaxFileSize, p.EnableRateLimiting, p.RateLimitConfig, p.TLS = cur.Squash, cur.Secure, cur.AllowedIPs, cur.MaxFileSize, cur.EnableRateLimiting, cur.RateLimitConfig, cur.TLS
					err = s.e.NFS.UpdatePolicyOptions(p)
				} else {
					o := s.e.NFS.GetExportOptions()
					o.ReadOnly = want
					err = s.e.NFS.UpdateExportOptions(o)
				}
				if err != nil {
					tb.Fatalf("harness: policy update failed: %v", err)
				}
				ro = want
				frozen = v.Snapshot()
				v.ResetCalls()
				continue
			}
			args := c08Args(h, st.Proc, st.Var, i)
			wellFormed := st.Cut < 0 && len(st.Tail) == 0
			if st.Cut >= 0 && 4*st.Cut < len(args) {
				args = args[:4*st.Cut]
			}
			args = append(args, st.Tail...)
			cl := creds[st.Cred%len(creds)]
			prog, vers := uint32(nfsx.ProgNFS), uint32(3)
			if st.Prog == "mount" {
				prog = nfsx.ProgMount
				if st.Proc == nfsx.MountMnt || st.Proc == nfsx.MountUmnt {
					args = (&nfsx.W{}).Str([]string{"/", "/d", "/f", "/missing"}[st.Var%4]).B
				} else {
					args = nil
				}
			}
			v.ResetCalls()
			xid := s.e.NextXid()
			wire, err := s.e.CallWire(cl, nfsx.Call(xid, prog, vers, st.Proc, cl.Cred, nfsx.AuthNone(), args))
			if err != nil {
				if err == drv.ErrTimeout {
					stat.Discard(false)
					panic(abandon{"timeout"})
				}
				if err == drv.ErrConnClosed {
					// over a connection the server may end the connection instead of answering (undecodable call);
					// the backend oracle below is judged all the same
					stat.Label("connection_closed_instead_of_reply", 1)
					wire = nil
				} else {
					tb.Fatalf("harness: %v", err)
				}
			}
			// status word of the NFS result, if the RPC layer accepted the call
			status, accepted := uint32(0xFFFFFFFF), false
			if rp, perr := nfsx.ParseReply(wire); perr == nil && rp.Stat == nfsx.MsgAccepted && rp.AcceptStat == nfsx.AcceptSuccess {
				accepted = true
				if len(rp.Body) >= 4 {
					status = (&nfsx.R{B: rp.Body}).U32()
				} else if len(rp.Body) == 0 {
					status = 0
				}
			}
			what := fmt.Sprintf("step#%d %s proc %d (var %d cut %d tail %d cred %d)", i, st.Prog, st.Proc, st.Var, st.Cut, len(st.Tail), st.Cred)
			if !ro {
				if st.Prog == "nfs" && c08Mutating[st.Proc] && accepted && status == nfsx.OK {
					rwOK++
				}
				continue
			}
			for _, call := range v.Calls() {
				if call.Mutating {
					if stat.Violate(tb, id, check, "modifying-backend-call-while-read-only:"+call.Op, c, "%s made the server issue %s while the export is read-only", what, call) {
						return
					}
				}
			}
			if d := vfs.DiffSnapshots(frozen, v.Snapshot()); d != "" {
				if stat.Violate(tb, id, check, "backend-changed-while-read-only", c, "%s: %s", what, d) {
					return
				}
			}
			if st.Prog == "nfs" && c08Mutating[st.Proc] {
				if wellFormed && st.Cred <= 1 {
					nt = true
				}
				if accepted && status == nfsx.OK {
					if stat.Violate(tb, id, check, fmt.Sprintf("mutating-procedure-succeeds-read-only:%s", nfsx.ProcNames[st.Proc]), c, "%s replied NFS3_OK on a read-only export", what) {
						return
					}
				}
			}
			if st.Prog == "nfs" && st.Proc == nfsx.ProcAccess && accepted && status == nfsx.OK {
				if rp, _ := nfsx.ParseReply(wire); rp != nil {
					if res, derr := nfsx.DecodeNFS3(nfsx.ProcAccess, rp.Body); derr == nil && res.Access&(nfsx.AccessModify|nfsx.AccessExtend|nfsx.AccessDelete) != 0 {
						if stat.Violate(tb, id, check, "access-grants-write-bits-read-only", c, "%s granted %#x on a read-only export", what, res.Access) {
							return
						}
					}
				}
			}
		}
	})
	if abandoned {
		return
	}
	var ls []string
	if rwOK > 0 {
		ls = append(ls, "mutation_succeeded_while_read_write")
	}
	if c.InitialRO {
		ls = append(ls, "read_only_from_construction")
	}
	if c.Conn {
		ls = append(ls, "over_connection_loop")
	}
	if c.Listen {
		ls = append(ls, "listener_started")
	}
	stat.Case(c, nt, ls...)
}

var propC08 = defProp("C08", "TestC08", genC08, runC08)

func TestC08(t *testing.T) { propC08.Test(t) }

// ---- read-only switched on while a mutating request is inside the backend

type c08DCase struct {
	Proc         string `json:"proc"` // mkdir create remove rmdir rename symlink write setattr
	ShortTimeout bool   `json:"short_timeout"`
	Via          string `json:"via"`
	WaitMs       int    `json:"wait_ms"`
}

func genC08D(t *rapid.T) c08DCase {
	return c08DCase{Proc: pick(t, "proc", "mkdir", "create", "remove", "rmdir", "rename", "symlink", "write", "setattr"), ShortTimeout: rapid.Bool().Draw(t, "short"),
		Via: pick(t, "via", "policy", "export"), WaitMs: pick(t, "wait", 0, 0, 5, 5, 60, 60, 120, 120, 5600)} // (5.6 s: beyond any "give the drain five seconds" patience)
}

func runC08D(tb stat.TB, c c08DCase) {
	const id, check = "C08", "TestC08Drain"
	v := vfs.New()
	v.SeedFile("/f", 0644, 0, 0, []byte("precious"))
	v.SeedDir("/d2", 0755, 0, 0)
	to := 5 * time.Second
	if c.ShortTimeout {
		to = 40 * time.Millisecond
	}
	s := newSession(tb, v, absnfs.ExportOptions{AttrCacheTimeout: 1, AttrCacheSize: 4, Timeouts: drv.FastTimeouts(to)})
	defer s.close()
	s.tolerateMalformed = true
	root := s.mount()
	fr := s.nfs(nfsx.ProcLookup, nfsx.ArgsDirop(root, "f"))
	if fr.Status != nfsx.OK {
		tb.Fatalf("harness: lookup f")
	}
	gate := make(chan struct{})
	parked := make(chan struct{})
	var once sync.Once
	var roInForce atomic.Bool
	var late []string
	var mu sync.Mutex
	v.SetBefore(func(call *vfs.Call) {
		if !call.Mutating {
			return
		}
		once.Do(func() { close(parked) })
		<-gate
		if roInForce.Load() {
			mu.Lock()
			late = append(late, call.String())
			mu.Unlock()
		}
	})
	done := make(chan struct{})
	go func() {
		defer close(done)
		var proc uint32
		var args []byte
		switch c.Proc {
		case "mkdir":
			proc, args = nfsx.ProcMkdir, nfsx.ArgsMkdir(root, "newdir", nfsx.Sattr{})
		case "create":
			proc, args = nfsx.ProcCreate, nfsx.ArgsCreate(root, "newfile", nfsx.Unchecked, nfsx.Sattr{}, [8]byte{})
		case "remove":
			proc, args = nfsx.ProcRemove, nfsx.ArgsDirop(root, "f")
		case "rmdir":
			proc, args = nfsx.ProcRmdir, nfsx.ArgsDirop(root, "d2")
		case "rename":
			proc, args = nfsx.ProcRename, nfsx.ArgsRename(root, "f", root, "g")
		case "symlink":
			proc, args = nfsx.ProcSymlink, nfsx.ArgsSymlink(root, "lnk", nfsx.Sattr{}, "f")
		case "write":
			proc, args = nfsx.ProcWrite, nfsx.ArgsWrite(fr.Fh, 0, 4, nfsx.FileSync, []byte("OVER"))
		case "setattr":
			proc, args = nfsx.ProcSetattr, nfsx.ArgsSetattr(fr.Fh, nfsx.Sattr{Size: nfsx.U64p(0)}, nil)
		}
		xid := s.e.NextXid()
		s.e.CallWire(drv.Root(), nfsx.Call(xid, nfsx.ProgNFS, 3, proc, drv.Root().Cred, nfsx.AuthNone(), args))
	}()
	select {
	case <-parked:
	case <-done:
		stat.Discard(false)
		close(gate)
		return
	case <-time.After(10 * time.Second):
		close(gate)
		tb.Fatalf("harness: request neither parked nor returned")
	}
	if c.ShortTimeout {
		select {
		case <-done: // HandleCall gave up; the backend call is still parked
		case <-time.After(3 * time.Second):
		}
	}
	upd := make(chan error, 1)
	go func() {
		var err error
		if c.Via == "policy" {
			err = s.e.NFS.UpdatePolicyOptions(absnfs.PolicyOptions{ReadOnly: true})
		} else {
			o := s.e.NFS.GetExportOptions()
			o.ReadOnly = true
			err = s.e.NFS.UpdateExportOptions(o)
		}
		roInForce.Store(true)
		upd <- err
	}()
	select {
	case err := <-upd:
		upd <- err
	case <-time.After(time.Duration(c.WaitMs) * time.Millisecond):
	}
	close(gate)
	select {
	case err := <-upd:
		if err != nil {
			tb.Fatalf("harness: update failed: %v", err)
		}
	case <-time.After(20 * time.Second):
		stat.Violate(tb, id, check, "read-only-switch-never-returns", c, "the update to read-only did not return within 20 s after the in-flight request was released")
		return
	}
	<-done
	time.Sleep(2 * time.Millisecond)
	v.SetBefore(nil)
	mu.Lock()
	defer mu.Unlock()
	if len(late) > 0 {
		stat.Violate(tb, id, check, "modifying-backend-call-after-read-only-switch-returned", c, "%s request admitted read-write: the switch to read-only returned while it was still inside the backend, and it then issued %s", c.Proc, late[0])
		return
	}
	stat.Case(c, true)
}

var propC08D = defProp("C08", "TestC08Drain", genC08D, runC08D)

func TestC08Drain(t *testing.T) { propC08D.Test(t) }
