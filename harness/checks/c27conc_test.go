package checks

// C27, concurrent part: "GETPORT, GETADDR and both DUMP variants report exactly the current registrations" while the
// registry changes. One goroutine applies a generated sequence of registrations / unregistrations / port changes
// (RegisterService, UnregisterService: what StartWithPortmapper and Stop do, and what SET/UNSET end in); reader
// goroutines issue DUMP (portmap v2, rpcbind v3/v4) and GETPORT/GETADDR calls through the request handler.
// Oracle: the registry passes through states S0..Sn; a reply that was produced between the completion of change i0
// and the start of change i1+1 must equal the answer in one of S_i0..S_i1 (a snapshot, not a mixture). A slice
// returned by GetMappings ("a copy") may not change afterwards. Runs plain and under the race detector.

import (
	"fmt"
	"net"
	"runtime"
	"sort"
	"strings"
	"sync"
	"sync/atomic"
	"testing"
	"time"

	"github.com/absfs/absnfs"
	"pgregory.net/rapid"

	"verif/harness/nfsx"
	"verif/harness/stat"
)

type c27xOp struct {
	Key   int    `json:"key"` // index into the key pool
	Port  uint32 `json:"port"`
	Unset bool   `json:"unset"`
}

type c27xCase struct {
	Pre     []c27xOp `json:"pre"` // applied before the readers start
	Ops     []c27xOp `json:"ops"`
	Readers int      `json:"readers"`
}

var c27xKeys = func() []pmKey {
	var ks []pmKey
	for _, prog := range []uint32{100000, 100003, 100005, 100021, 100024, 200100} {
		for _, vers := range []uint32{1, 3} {
			for _, prot := range []uint32{6, 17} {
				ks = append(ks, pmKey{prog, vers, prot})
			}
		}
	}
	return ks
}()

func genC27x(t *rapid.T) c27xCase {
	op := func(t *rapid.T) c27xOp {
		return c27xOp{Key: rapid.IntRange(0, len(c27xKeys)-1).Draw(t, "key"), Port: uint32(rapid.IntRange(1, 65535).Draw(t, "port")), Unset: rapid.IntRange(0, 2).Draw(t, "unset") == 0}
	}
	c := c27xCase{Readers: rapid.IntRange(1, 3).Draw(t, "readers")}
	np := rapid.IntRange(2, 16).Draw(t, "npre")
	for i := 0; i < np; i++ {
		o := op(t)
		o.Unset = false
		c.Pre = append(c.Pre, o)
	}
	n := rapid.IntRange(4, 40).Draw(t, "n")
	for i := 0; i < n; i++ {
		c.Ops = append(c.Ops, op(t))
	}
	return c
}

func c27xStr(m map[pmKey]uint32) string {
	var ss []string
	for k, p := range m {
		ss = append(ss, fmt.Sprintf("%d/%d/%d=%d", k.prog, k.vers, k.prot, p))
	}
	sort.Strings(ss)
	return strings.Join(ss, " ")
}

func runC27x(tb stat.TB, c c27xCase) {
	const id, check = "C27", "TestC27Concurrent"
	pm := absnfs.NewPortmapper()
	apply := func(m map[pmKey]uint32, o c27xOp) {
		k := c27xKeys[o.Key%len(c27xKeys)]
		if o.Unset {
			pm.UnregisterService(k.prog, k.vers, k.prot)
			delete(m, k)
		} else {
			pm.RegisterService(k.prog, k.vers, k.prot, o.Port)
			m[k] = o.Port
		}
	}
	cur := map[pmKey]uint32{}
	for _, o := range c.Pre {
		apply(cur, o)
	}
	// the states the registry passes through
	states := make([]map[pmKey]uint32, len(c.Ops)+1)
	snap := func() map[pmKey]uint32 {
		m := map[pmKey]uint32{}
		for k, v := range cur {
			m[k] = v
		}
		return m
	}
	states[0] = snap()
	{
		m := snap()
		for i, o := range c.Ops {
			k := c27xKeys[o.Key%len(c27xKeys)]
			if o.Unset {
				delete(m, k)
			} else {
				m[k] = o.Port
			}
			cp := map[pmKey]uint32{}
			for kk, v := range m {
				cp[kk] = v
			}
			states[i+1] = cp
		}
	}
	stateStr := make([]string, len(states))
	for i, s := range states {
		stateStr[i] = c27xStr(s)
	}
	// a retained GetMappings result
	kept := pm.GetMappings()
	keptCopy := append([]absnfs.PortMapping(nil), kept...)

	var started, done atomic.Int64
	var stop atomic.Bool
	var vmu sync.Mutex
	var violation, violSig string
	report := func(sig, f string, a ...any) {
		vmu.Lock()
		if violation == "" {
			violSig, violation = sig, fmt.Sprintf(f, a...)
		}
		vmu.Unlock()
		stop.Store(true)
	}
	addr := &net.TCPAddr{IP: net.ParseIP("127.0.0.1"), Port: 999}
	var wg sync.WaitGroup
	var replies atomic.Int64
	var overlapped atomic.Int64
	for r := 0; r < c.Readers; r++ {
		wg.Add(1)
		go func(r int) {
			defer wg.Done()
			for n := 0; !stop.Load(); n++ {
				vers := []uint32{2, 3, 4}[(n+r)%3]
				xid := uint32(9000 + r*100000 + n)
				lookup := n%4 == 3
				k := c27xKeys[(n*7+r)%len(c27xKeys)]
				var args []byte
				proc := uint32(nfsx.PmapDump)
				if lookup {
					proc = nfsx.PmapGetport
					if vers == 2 {
						args = nfsx.ArgsPmap(nfsx.Mapping{Prog: k.prog, Vers: k.vers, Prot: k.prot})
					} else {
						netid := "tcp"
						if k.prot == 17 {
							netid = "udp"
						}
						args = nfsx.ArgsRpcb(nfsx.Rpcb{Prog: k.prog, Vers: k.vers, Netid: netid})
					}
				}
				i0 := done.Load()
				wire, err := pm.VerifHandleCall(nfsx.Call(xid, nfsx.ProgPmap, vers, proc, nfsx.AuthNone(), nfsx.AuthNone(), args), addr)
				i1 := started.Load()
				if err != nil {
					report("portmap-no-reply", "reader %d: no reply to proc %d v%d: %v", r, proc, vers, err)
					return
				}
				rp, perr := nfsx.ParseReply(wire)
				if perr != nil || rp.Stat != nfsx.MsgAccepted || rp.AcceptStat != nfsx.AcceptSuccess {
					report("portmap-reply-malformed", "reader %d: proc %d v%d: reply %v / %+v", r, proc, vers, perr, rp)
					return
				}
				res, derr := nfsx.DecodePmap(vers, proc, rp.Body)
				if derr != nil {
					report("portmap-reply-malformed", "reader %d: proc %d v%d result does not decode: %v", r, proc, vers, derr)
					return
				}
				replies.Add(1)
				if i1 > i0 {
					overlapped.Add(1)
				}
				if lookup {
					got := res.Port
					if vers != 2 {
						got = 0
						if res.Addr != "" {
							p, ok := uaddrPort(res.Addr)
							if !ok {
								report("dump-universal-address-malformed", "reader %d: GETADDR v%d returned %q", r, vers, res.Addr)
								return
							}
							got = p
						}
					}
					ok := false
					for i := i0; i <= i1; i++ {
						if states[i][k] == got {
							ok = true
						}
					}
					if !ok {
						report("lookup-disagrees-with-every-concurrent-state", "reader %d: GETPORT/GETADDR v%d of %v returned port %d while the registry went through states %d..%d, none of which registers it so (first %q, last %q)", r, vers, k, got, i0, i1, stateStr[i0], stateStr[i1])
						return
					}
					continue
				}
				got := map[pmKey]uint32{}
				dup := false
				for _, m := range res.List {
					kk := pmKey{m.Prog, m.Vers, m.Prot}
					if _, seen := got[kk]; seen {
						dup = true
					}
					got[kk] = m.Port
				}
				for _, b := range res.RList {
					p, ok := uaddrPort(b.Addr)
					pr := uint32(6)
					if strings.HasPrefix(b.Netid, "udp") {
						pr = 17
					}
					if !ok {
						report("dump-universal-address-malformed", "reader %d: DUMP v%d lists %+v", r, vers, b)
						return
					}
					kk := pmKey{b.Prog, b.Vers, pr}
					if _, seen := got[kk]; seen {
						dup = true
					}
					got[kk] = p
				}
				gs := c27xStr(got)
				ok := false
				for i := i0; i <= i1; i++ {
					if stateStr[i] == gs {
						ok = true
					}
				}
				if !ok || dup {
					report("dump-is-not-a-snapshot-of-the-registry", "reader %d: DUMP v%d returned %q (duplicate key: %v) while the registry went through states %d..%d (first %q, last %q); it equals none of them", r, vers, gs, dup, i0, i1, stateStr[i0], stateStr[i1])
					return
				}
			}
		}(r)
	}
	m := snap()
	for _, o := range c.Ops {
		if stop.Load() {
			break
		}
		started.Add(1)
		apply(m, o)
		done.Add(1)
		// pace the changes with the readers: go on when another reply has been judged (or after 2 ms)
		target, t0 := replies.Load()+1, time.Now()
		for replies.Load() < target && !stop.Load() && time.Since(t0) < 2*time.Millisecond {
			runtime.Gosched()
		}
	}
	stop.Store(true)
	wg.Wait()
	if violation != "" {
		stat.Violate(tb, id, check, violSig, c, "%s", violation)
		return
	}
	for i := range keptCopy {
		if kept[i] != keptCopy[i] {
			stat.Violate(tb, id, check, "getmappings-result-changes-afterwards", c, "the slice GetMappings returned before the changes read %+v then and reads %+v now", keptCopy, kept)
			return
		}
	}
	final := map[pmKey]uint32{}
	for _, e := range pm.GetMappings() {
		final[pmKey{e.Program, e.Version, e.Protocol}] = e.Port
	}
	if got, want := c27xStr(final), stateStr[len(stateStr)-1]; got != want {
		stat.Violate(tb, id, check, "registry-differs-from-model-after-changes", c, "after all changes the registry is %q, the model %q", got, want)
		return
	}
	// ---- several first registrations of one key at once (API callers and SET requests from loopback): the map has
	// one entry per key whoever wins; one UNSET removes it
	for b := 0; b < 3; b++ {
		k := pmKey{300000 + uint32(b), 1, 6}
		var bw sync.WaitGroup
		go2 := make(chan struct{})
		for g := 0; g < 2+c.Readers; g++ {
			bw.Add(1)
			go func(g int) {
				defer bw.Done()
				<-go2
				port := uint32(4000 + g)
				if g%2 == 0 {
					pm.RegisterService(k.prog, k.vers, k.prot, port)
				} else {
					pm.VerifHandleCall(nfsx.Call(uint32(50000+g), nfsx.ProgPmap, 2, nfsx.PmapSet, nfsx.AuthNone(), nfsx.AuthNone(), nfsx.ArgsPmap(nfsx.Mapping{Prog: k.prog, Vers: k.vers, Prot: k.prot, Port: port})), addr)
				}
			}(g)
		}
		close(go2)
		bw.Wait()
		cnt := 0
		for _, e := range pm.GetMappings() {
			if e.Program == k.prog && e.Version == k.vers && e.Protocol == k.prot {
				cnt++
			}
		}
		if cnt != 1 {
			stat.Violate(tb, id, check, "key-registered-more-than-once", c, "%d callers registered (program %d, version %d, tcp) for the first time at once: the registry now holds %d entries for that key", 2+c.Readers, k.prog, k.vers, cnt)
			return
		}
		pm.UnregisterService(k.prog, k.vers, k.prot)
		if p := pm.GetPort(k.prog, k.vers, k.prot); p != 0 {
			stat.Violate(tb, id, check, "unset-leaves-registration-behind", c, "after one UnregisterService of (program %d, version %d, tcp) GetPort still answers %d", k.prog, k.vers, p)
			return
		}
	}
	stat.Label("replies_judged", replies.Load())
	stat.Label("replies_overlapping_a_change", overlapped.Load())
	stat.Case(c, overlapped.Load() > 0)
}

var propC27x = defProp("C27", "TestC27Concurrent", genC27x, runC27x)

func TestC27Concurrent(t *testing.T) { propC27x.Test(t) }
