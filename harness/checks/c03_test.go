package checks

// C03 CREATE never destroys or silently reuses an existing file.
//
// Bounded-exhaustive enumeration (existing object kind x createmode x all 2^6
// sattr3 set-flag combinations x size values x verifier scenario) plus a rapid
// property for data contents, cache settings and preceding lookups.
// Oracle: pre/post backend snapshot of the existing object.

import (
	"bytes"
	"fmt"
	"os"
	"strings"
	"sync"
	"testing"

	"github.com/absfs/absnfs"
	"pgregory.net/rapid"

	"verif/harness/drv"
	"verif/harness/nfsx"
	"verif/harness/stat"
	"verif/harness/vfs"
)

type c03Case struct {
	Existing string   `json:"existing"` // none file dir dirfull linkfile linkdangling
	Data     []byte   `json:"data,omitempty"`
	How      uint32   `json:"how"`
	Flags    int      `json:"flags"`   // bit0 mode bit1 uid bit2 gid bit3 size bit4 atime bit5 mtime
	Size     uint64   `json:"size"`    // used when bit3
	Creator  string   `json:"creator"` // for EXCLUSIVE: same (made by EXCLUSIVE with the same verifier), other (different verifier), plain (not made by EXCLUSIVE)
	Cache    cacheCfg `json:"cache"`
	PreLook  bool     `json:"prelookup"` // LOOKUP the name (and list the directory) before the CREATE
	// Appear > 0: the name is free when the request starts and the object is put there out of band (another
	// client or a local process) immediately before the server's Appear-th backend call that names it.
	Appear int `json:"appear,omitempty"`
	// FaultAt > 0: the server's FaultAt-th backend call naming the target fails with c14Faults[FaultErr] (a backend
	// that is out of space, denies access, times out ...). Whatever the reply then says, an object that was there
	// must still be there, untouched.
	FaultAt  int `json:"fault_at,omitempty"`
	FaultErr int `json:"fault_err,omitempty"`
	// Former != "": earlier in the history the name held another object ("file", "dir" or "link") that was made through
	// the server (so a handle was issued for it) and removed through the server again; the present occupant then arrives
	// by a RENAME through the server (Via "rename") or is put there directly.
	Former string `json:"former,omitempty"`
	Via    string `json:"via,omitempty"`
	// Fresh (Existing == "file"): the file is not planted but was created through the server a moment ago by another
	// client, with the very sattr3 the request under test carries, and is still empty - a lock file, say. It exists
	// all the same.
	Fresh bool `json:"fresh,omitempty"`
}

func (c c03Case) sattr() nfsx.Sattr {
	var s nfsx.Sattr
	if c.Flags&1 != 0 {
		s.Mode = nfsx.U32p(0600)
	}
	if c.Flags&2 != 0 {
		s.Uid = nfsx.U32p(77)
	}
	if c.Flags&4 != 0 {
		s.Gid = nfsx.U32p(88)
	}
	if c.Flags&8 != 0 {
		s.Size = nfsx.U64p(c.Size)
	}
	if c.Flags&16 != 0 {
		s.Atime = nfsx.SetTime{How: 2, T: nfsx.Time{Sec: 1000, Nsec: 5}}
	}
	if c.Flags&32 != 0 {
		s.Mtime = nfsx.SetTime{How: 1}
	}
	return s
}

func runC03(tb stat.TB, c c03Case) {
	const id, check = "C03", "TestC03"
	v := vfs.New()
	v.WallClock = c.Fresh
	opts := absnfs.ExportOptions{}
	c.Cache.apply(&opts)
	var faulty *vfs.Faulty
	var s *session
	if c.FaultAt > 0 {
		faulty = vfs.NewFaulty(v)
		s = newSessionOn(tb, faulty, v, opts)
	} else {
		s = newSession(tb, v, opts)
	}
	defer s.close()
	s.e.ViaConn = c.Cache.Conn
	faulted := false
	verfA := [8]byte{1, 2, 3, 4, 5, 6, 7, 8}
	verfB := [8]byte{9, 9, 9, 9, 9, 9, 9, 9}
	data := c.Data
	appeared := false
	if c.Appear > 0 && c.Creator != "plain" {
		c.Creator = "plain" // an object that appears out of band was not made by an EXCLUSIVE create of this server
	}
	abandoned := guard(func() {
		root := s.mount()
		seedAt := func(at string) {
			switch c.Existing {
			case "file":
				v.SeedFile(at, 0644, 1, 1, data)
			case "dir":
				v.SeedDir(at, 0755, 1, 1)
			case "dirfull":
				v.SeedDir(at, 0755, 1, 1)
				v.SeedFile(at+"/child", 0644, 1, 1, []byte("child"))
			case "linkfile":
				if _, ok := v.PeekLstat("/target"); !ok {
					v.SeedFile("/target", 0644, 1, 1, data)
				}
				v.SeedSymlink(at, "target", 1, 1)
			case "linkdangling":
				v.SeedSymlink(at, "nowhere", 1, 1)
			}
		}
		seed := func() { seedAt("/x") }
		if c.Appear > 0 {
			if c.Existing == "linkfile" {
				v.SeedFile("/target", 0644, 1, 1, data)
			}
		} else if c.Existing == "file" && c.How == nfsx.Exclusive && c.Creator != "plain" {
			// the file is made by an EXCLUSIVE create through the server, then filled directly
			res := s.nfs(nfsx.ProcCreate, nfsx.ArgsCreate(root, "x", nfsx.Exclusive, nfsx.Sattr{}, verfA))
			if res.Status != nfsx.OK {
				stat.Discard(false)
				panic(abandon{"setup EXCLUSIVE create failed"})
			}
			f, err := v.OpenFile("/x", 2, 0)
			if err != nil {
				tb.Fatalf("harness: %v", err)
			}
			f.WriteAt(data, 0)
			f.Close()
		} else if c.Fresh && c.Existing == "file" && c.Appear == 0 {
			data = nil
			other := drv.User(1000, 1000)
			sa := c.sattr()
			sa.Size = nil
			res := s.nfsAs(other, nfsx.ProcCreate, nfsx.ArgsCreate(root, "x", nfsx.Guarded, sa, verfB))
			if _, ok := v.PeekLstat("/x"); res.Status != nfsx.OK || !ok {
				stat.Discard(false)
				panic(abandon{"setup create by the other client failed"})
			}
		} else {
			if c.Former != "" {
				var mk, rm *nfsx.Res
				switch c.Former {
				case "dir":
					mk = s.nfs(nfsx.ProcMkdir, nfsx.ArgsMkdir(root, "x", nfsx.Sattr{}))
					s.nfs(nfsx.ProcGetattr, nfsx.ArgsFh(mk.Fh))
					rm = s.nfs(nfsx.ProcRmdir, nfsx.ArgsDirop(root, "x"))
				case "link":
					mk = s.nfs(nfsx.ProcSymlink, nfsx.ArgsSymlink(root, "x", nfsx.Sattr{}, "target"))
					rm = s.nfs(nfsx.ProcRemove, nfsx.ArgsDirop(root, "x"))
				default:
					mk = s.nfs(nfsx.ProcCreate, nfsx.ArgsCreate(root, "x", nfsx.Unchecked, nfsx.Sattr{}, verfA))
					if mk.Status == nfsx.OK && len(mk.Fh) > 0 {
						s.nfs(nfsx.ProcWrite, nfsx.ArgsWrite(mk.Fh, 0, 3, 2, []byte("old")))
					}
					rm = s.nfs(nfsx.ProcRemove, nfsx.ArgsDirop(root, "x"))
				}
				if _, still := v.PeekLstat("/x"); mk.Status != nfsx.OK || rm.Status != nfsx.OK || still {
					stat.Discard(false)
					panic(abandon{"setup of the former occupant failed"})
				}
			}
			if c.Via == "rename" && c.Existing != "none" {
				seedAt("/y")
				s.nfs(nfsx.ProcLookup, nfsx.ArgsDirop(root, "y"))
				if r := s.nfs(nfsx.ProcRename, nfsx.ArgsRename(root, "y", root, "x")); r.Status != nfsx.OK {
					stat.Discard(false)
					panic(abandon{"setup RENAME failed"})
				}
			} else {
				seed()
			}
		}
		if c.PreLook {
			s.nfs(nfsx.ProcLookup, nfsx.ArgsDirop(root, "x"))
			s.nfs(nfsx.ProcReaddirplus, nfsx.ArgsReaddirplus(root, 0, [8]byte{}, 4096, 4096))
			s.nfs(nfsx.ProcLookup, nfsx.ArgsDirop(root, "x"))
		}
		pre := v.Snapshot()
		verf := verfA
		if c.Creator == "other" {
			verf = verfB
		}
		if c.Appear > 0 && c.Existing != "none" {
			var mu sync.Mutex
			n := 0
			v.SetBefore(func(call *vfs.Call) {
				mu.Lock()
				defer mu.Unlock()
				if appeared {
					return
				}
				names := false
				for _, p := range call.Paths {
					if p == "/x" {
						names = true
					}
				}
				if !names {
					return
				}
				n++
				if n != c.Appear {
					return
				}
				if _, ok := v.PeekLstat("/x"); ok {
					return // the server has created it itself by now
				}
				seed()
				appeared = true
				pre = v.Snapshot()
			})
		}
		if faulty != nil {
			var fmu sync.Mutex
			k := 0
			ferr := c14Faults[c.FaultErr%len(c14Faults)]
			faulty.Arm(func(op string, paths []string, n int) error {
				fmu.Lock()
				defer fmu.Unlock()
				names := false
				for _, p := range paths {
					if p == "/x" {
						names = true
					}
				}
				if !names {
					return nil
				}
				k++
				if k != c.FaultAt {
					return nil
				}
				faulted = true
				return &os.PathError{Op: strings.ToLower(op), Path: "/x", Err: ferr}
			})
		}
		res := s.nfs(nfsx.ProcCreate, nfsx.ArgsCreate(root, "x", c.How, c.sattr(), verf))
		if faulty != nil {
			faulty.Arm(nil)
		}
		v.SetBefore(nil)
		post := v.Snapshot()
		preEnt, existed := pre["/x"]
		desc := fmt.Sprintf("CREATE mode=%d flags=%06b size=%d on existing=%s creator=%s", c.How, c.Flags, c.Size, c.Existing, c.Creator)
		if faulted {
			desc += fmt.Sprintf(" (the server's backend call #%d on the name failed with %q)", c.FaultAt, c14Faults[c.FaultErr%len(c14Faults)])
		}
		if appeared {
			desc += fmt.Sprintf(" (put there out of band just before the server's backend call #%d on the name)", c.Appear)
		}

		if !existed {
			if res.Status == nfsx.OK {
				if e, ok := post["/x"]; !ok || e.Type != "file" {
					if stat.Violate(tb, id, check, "create-ok-but-no-file", c, "%s replied OK but /x is %+v", desc, post["/x"]) {
						return
					}
				}
			}
			return
		}
		postEnt := post["/x"]
		// everything except /x itself must be untouched in every case
		pre2, post2 := map[string]vfs.Entry{}, map[string]vfs.Entry{}
		for k, e := range pre {
			if k != "/x" && k != "/" {
				pre2[k] = e
			}
		}
		for k, e := range post {
			if k != "/x" && k != "/" {
				post2[k] = e
			}
		}
		if d := vfs.DiffSnapshots(pre2, post2); d != "" {
			if stat.Violate(tb, id, check, "create-modifies-other-object", c, "%s (%s): %s", desc, statusName(res.Status), d) {
				return
			}
		}
		identical := preEnt == postEnt
		switch {
		case c.How == nfsx.Guarded:
			if res.Status != nfsx.ErrExist && !faulted {
				if stat.Violate(tb, id, check, "guarded-existing-not-EXIST", c, "%s replied %s, want NFS3ERR_EXIST", desc, statusName(res.Status)) {
					return
				}
			}
			if !identical {
				if stat.Violate(tb, id, check, "create-modifies-existing-object", c, "%s (%s) changed the object: %+v -> %+v", desc, statusName(res.Status), preEnt, postEnt) {
					return
				}
			}
		case c.How == nfsx.Exclusive:
			retransmission := c.Existing == "file" && c.Creator == "same"
			if !identical {
				if stat.Violate(tb, id, check, "create-modifies-existing-object", c, "%s (%s) changed the object: %+v -> %+v", desc, statusName(res.Status), preEnt, postEnt) {
					return
				}
			}
			if res.Status == nfsx.OK && !retransmission && !faulted {
				if stat.Violate(tb, id, check, "exclusive-ignores-verifier:"+c.Existing, c, "%s replied OK although the object was not made by an EXCLUSIVE create with this verifier", desc) {
					return
				}
			}
			if res.Status != nfsx.OK && res.Status != nfsx.ErrExist && !faulted {
				if stat.Violate(tb, id, check, "exclusive-existing-wrong-status", c, "%s replied %s, want OK (retransmission) or NFS3ERR_EXIST", desc, statusName(res.Status)) {
					return
				}
			}
			if retransmission && res.Status != nfsx.OK && !faulted {
				if stat.Violate(tb, id, check, "exclusive-retransmission-refused", c, "%s replied %s to the retransmission of the create that made the file", desc, statusName(res.Status)) {
					return
				}
			}
		default: // UNCHECKED
			if c.Existing != "file" {
				if !identical {
					if stat.Violate(tb, id, check, "create-modifies-existing-object", c, "%s (%s) changed the object: %+v -> %+v", desc, statusName(res.Status), preEnt, postEnt) {
						return
					}
				}
				return
			}
			if postEnt.Type != "file" || postEnt.Ino != preEnt.Ino {
				if stat.Violate(tb, id, check, "create-replaces-existing-file", c, "%s (%s): %+v -> %+v", desc, statusName(res.Status), preEnt, postEnt) {
					return
				}
				return
			}
			want := data
			if c.Flags&8 != 0 && postEnt.Size != int64(len(data)) {
				// explicit size: identical, or exactly that size with the prefix preserved
				if postEnt.Size != int64(c.Size) {
					if stat.Violate(tb, id, check, "create-size-neither-old-nor-requested", c, "%s: size %d -> %d", desc, len(data), postEnt.Size) {
						return
					}
				}
				want = make([]byte, c.Size)
				copy(want, data)
			}
			got, _, _ := v.PeekRead("/x", 0, len(want)+16)
			if !bytes.Equal(got, want) {
				sig := "create-rewrites-existing-data"
				if len(got) == 0 {
					sig = "create-truncates-existing"
				}
				if stat.Violate(tb, id, check, sig, c, "%s (%s): file content %q -> %q", desc, statusName(res.Status), data, got) {
					return
				}
			}
		}
	})
	if abandoned {
		return
	}
	nt := c.Existing == "file" && len(c.Data) > 0 || c.Existing == "dirfull" || c.Existing == "linkfile"
	ls := []string{"existing_" + c.Existing, fmt.Sprintf("mode_%d", c.How)}
	if c.FaultAt > 0 {
		if faulted {
			ls = append(ls, "backend_fault_on_target")
		} else {
			nt = false
		}
	}
	if c.Former != "" && c.Appear == 0 {
		ls = append(ls, "name_formerly_held_"+c.Former)
		if c.Via == "rename" {
			ls = append(ls, "occupant_renamed_into_place")
		}
	}
	if c.Appear > 0 {
		if appeared {
			ls = append(ls, fmt.Sprintf("appeared_before_call_%d", c.Appear))
		} else {
			ls = append(ls, "appear_point_not_reached")
			nt = false
		}
	}
	stat.Case(c, nt, ls...)
}

func c03Enumerate() []c03Case {
	var out []c03Case
	data := []byte("0123456789abcdefghij")
	for _, ex := range []string{"none", "file", "dir", "dirfull", "linkfile", "linkdangling"} {
		for _, how := range []uint32{nfsx.Unchecked, nfsx.Guarded} {
			for flags := 0; flags < 64; flags++ {
				sizes := []uint64{0}
				if flags&8 != 0 {
					sizes = []uint64{0, 3, 40}
				}
				for _, sz := range sizes {
					out = append(out, c03Case{Existing: ex, Data: data, How: how, Flags: flags, Size: sz, Creator: "plain", Cache: baselineCaches})
				}
			}
		}
		if ex != "none" {
			for appear := 1; appear <= 4; appear++ {
				for _, how := range []uint32{nfsx.Unchecked, nfsx.Guarded, nfsx.Exclusive} {
					for _, flags := range []int{0, 1, 8, 63} {
						out = append(out, c03Case{Existing: ex, Data: data, How: how, Flags: flags, Size: 3, Creator: "plain", Cache: baselineCaches, Appear: appear})
					}
				}
			}
		}
		if ex != "none" {
			for at := 1; at <= 3; at++ {
				for _, how := range []uint32{nfsx.Unchecked, nfsx.Guarded, nfsx.Exclusive} {
					for _, fe := range []int{0, 1, 3, 8, 30} { // EIO EACCES ENOENT ENOSPC expired deadline
						out = append(out, c03Case{Existing: ex, Data: data, How: how, Flags: 0, Creator: "plain", Cache: baselineCaches, FaultAt: at, FaultErr: fe})
					}
				}
			}
		}
		if ex != "none" {
			for _, former := range []string{"file", "dir", "link"} {
				for _, via := range []string{"", "rename"} {
					for _, how := range []uint32{nfsx.Unchecked, nfsx.Guarded, nfsx.Exclusive} {
						for _, flags := range []int{0, 8} {
							out = append(out, c03Case{Existing: ex, Data: data, How: how, Flags: flags, Size: 0, Creator: "plain", Cache: baselineCaches, Former: former, Via: via})
						}
					}
				}
			}
		}
		if ex == "file" {
			for _, how := range []uint32{nfsx.Unchecked, nfsx.Guarded, nfsx.Exclusive} {
				for _, flags := range []int{0, 1, 7, 8, 9, 63} {
					out = append(out, c03Case{Existing: ex, How: how, Flags: flags, Size: 0, Creator: "plain", Cache: baselineCaches, Fresh: true})
				}
			}
		}
		for _, cr := range []string{"same", "other", "plain"} {
			out = append(out, c03Case{Existing: ex, Data: data, How: nfsx.Exclusive, Creator: cr, Cache: baselineCaches})
			out = append(out, c03Case{Existing: ex, Data: data, How: nfsx.Exclusive, Creator: cr, Cache: cacheCfg{AttrTTLns: 3600e9, AttrSize: 10000, DirCache: true, Negative: true}, PreLook: true})
		}
	}
	return out
}

func TestC03(t *testing.T) {
	stat.SetProperty("C03")
	if shard == 0 {
		for _, rf := range replaysFor("C03", "TestC03") {
			if err := registry["TestC03"](t, rf.Case); err != nil {
				t.Fatalf("harness: %v", err)
			}
		}
	}
	stat.SetDisjoint(true)
	all := c03Enumerate()
	for i, c := range all {
		if i%nshards != shard {
			continue
		}
		runC03(t, c)
	}
	stat.Extra("enumerated_total", len(all))
}

func genC03(t *rapid.T) c03Case {
	c := c03Case{
		Existing: pick(t, "existing", "none", "file", "file", "file", "dir", "dirfull", "linkfile", "linkdangling"),
		Data:     rapid.SliceOfN(rapid.Byte(), 0, 70).Draw(t, "data"),
		How:      pick(t, "how", uint32(nfsx.Unchecked), uint32(nfsx.Guarded), uint32(nfsx.Exclusive)),
		Flags:    rapid.IntRange(0, 63).Draw(t, "flags"),
		Size:     pick(t, "size", uint64(0), 1, 3, 69, 70, 71, 4096, 100000),
		Creator:  pick(t, "creator", "same", "other", "plain"),
		Cache:    cacheCfg{AttrTTLns: pick(t, "ttl", int64(1), int64(3600e9)), AttrSize: pick(t, "asize", 1, 10000), DirCache: rapid.Bool().Draw(t, "dc"), Negative: rapid.Bool().Draw(t, "neg"), Conn: rapid.IntRange(0, 3).Draw(t, "conn") == 0, Verbose: rapid.IntRange(0, 5).Draw(t, "verbose") == 0, Limits: rapid.IntRange(0, 5).Draw(t, "limits") == 0},
		PreLook:  rapid.Bool().Draw(t, "prelook"),
		Appear:   pick(t, "appear", 0, 0, 0, 1, 2, 3, 4, 5),
		Former:   pick(t, "former", "", "", "file", "dir", "link"),
		Fresh:    rapid.IntRange(0, 3).Draw(t, "fresh") == 0,
		Via:      pick(t, "via", "", "rename"),
	}
	if rapid.IntRange(0, 3).Draw(t, "fault") == 0 {
		c.FaultAt, c.FaultErr = rapid.IntRange(1, 8).Draw(t, "fault_at"), rapid.IntRange(0, len(c14Faults)-1).Draw(t, "fault_err")
	}
	return c
}

var propC03 = defProp("C03", "TestC03", genC03, runC03)

func TestC03Rapid(t *testing.T) {
	stat.SetProperty("C03")
	rapid.Check(t, func(rt *rapid.T) {
		c := genC03(rt)
		stat.Begin(c)
		runC03(rt, c)
	})
}
