package checks

// C24, "GetExportOptions reports the configuration in force", for the logging settings: the export logs operations
// to a file; a sequence of runtime updates changes Log.Level (through UpdateExportOptions on the value GetExportOptions
// returned, or through UpdateTuningOptions). After every update a LOOKUP is served; its per-operation record is
// written at debug level, so the file has gained a "LOOKUP operation" record exactly if the level now reported is
// "debug".

import (
	"os"
	"path/filepath"
	"strings"
	"testing"

	"github.com/absfs/absnfs"
	"pgregory.net/rapid"

	"verif/harness/nfsx"
	"verif/harness/stat"
	"verif/harness/vfs"
)

type c24lStep struct {
	Level string `json:"level"`
	Via   string `json:"via"` // export tuning
}

type c24lCase struct {
	Start string     `json:"start"`
	Steps []c24lStep `json:"steps"`
}

func genC24l(t *rapid.T) c24lCase {
	lv := func(l string) string { return pick(t, l, "debug", "debug", "info", "warn", "error") }
	c := c24lCase{Start: lv("start")}
	n := rapid.IntRange(1, 6).Draw(t, "n")
	for i := 0; i < n; i++ {
		c.Steps = append(c.Steps, c24lStep{Level: lv("level"), Via: pick(t, "via", "export", "tuning")})
	}
	return c
}

func runC24l(tb stat.TB, c c24lCase) {
	const id, check = "C24", "TestC24LogLevel"
	dir, err := os.MkdirTemp("", "verif-c24l-")
	if err != nil {
		tb.Fatalf("harness: %v", err)
	}
	defer os.RemoveAll(dir)
	logFile := filepath.Join(dir, "nfs.log")
	v := vfs.New()
	v.SeedFile("/f", 0644, 0, 0, []byte("x"))
	s := newSession(tb, v, absnfs.ExportOptions{AttrCacheTimeout: 1, AttrCacheSize: 2, Log: &absnfs.LogConfig{Level: c.Start, Format: "text", Output: logFile, LogOperations: true}})
	defer s.close()
	records := func() int {
		b, _ := os.ReadFile(logFile)
		return strings.Count(string(b), "LOOKUP operation")
	}
	nt := false
	abandoned := guard(func() {
		root := s.mount()
		probe := func(where string) bool {
			before := records()
			if r := s.nfs(nfsx.ProcLookup, nfsx.ArgsDirop(root, "f")); r.Status != nfsx.OK {
				tb.Fatalf("harness: lookup: %s", statusName(r.Status))
			}
			o := s.e.NFS.GetExportOptions()
			if o.Log == nil {
				return !stat.Violate(tb, id, check, "log-settings-vanish", c, "%s: GetExportOptions().Log is nil", where)
			}
			wrote := records() > before
			if wrote != (o.Log.Level == "debug") {
				return !stat.Violate(tb, id, check, "reported-differs-from-in-force:Log.Level", c, "%s: GetExportOptions().Log.Level = %q, but a LOOKUP served now wrote a debug-level operation record: %v", where, o.Log.Level, wrote)
			}
			return true
		}
		if !probe("after construction") {
			return
		}
		for i, st := range c.Steps {
			prev := s.e.NFS.GetExportOptions().Log.Level
			if st.Via == "export" {
				o := s.e.NFS.GetExportOptions()
				o.Log.Level = st.Level
				if err := s.e.NFS.UpdateExportOptions(o); err != nil {
					tb.Fatalf("harness: UpdateExportOptions: %v", err)
				}
			} else {
				s.e.NFS.UpdateTuningOptions(func(t *absnfs.TuningOptions) {
					if t.Log != nil {
						l := *t.Log
						l.Level = st.Level
						t.Log = &l
					}
				})
			}
			if got := s.e.NFS.GetExportOptions().Log; got != nil && got.Level != st.Level {
				stat.Violate(tb, id, check, "accepted-update-not-in-force:Log.Level", c, "step#%d via %s: Log.Level set to %q, GetExportOptions reports %q", i, st.Via, st.Level, got.Level)
				return
			}
			if (prev == "debug") != (st.Level == "debug") {
				nt = true
			}
			if !probe("step#" + string(rune('0'+i)) + " via " + st.Via + " (level " + prev + " -> " + st.Level + ")") {
				return
			}
		}
	})
	if abandoned {
		return
	}
	stat.Case(c, nt)
}

var propC24l = defProp("C24", "TestC24LogLevel", genC24l, runC24l)

func TestC24LogLevel(t *testing.T) { propC24l.Test(t) }
