package checks

// C11 Only an effective root identity can assign ownership.
//
// Oracle: backend recorder (Chown/Lchown arguments) and the owner recorded in
// the backend inode of objects created through CREATE/MKDIR/SYMLINK (fresh
// vfs inodes carry a sentinel owner, so "never assigned" is visible).

import (
	"fmt"
	"strings"
	"testing"

	"github.com/absfs/absnfs"
	"pgregory.net/rapid"

	"verif/harness/drv"
	"verif/harness/nfsx"
	"verif/harness/stat"
	"verif/harness/vfs"
)

type c11Req struct {
	Op     string `json:"op"` // setattr create mkdir symlink
	On     string `json:"on"` // setattr target: f d l
	How    uint32 `json:"how"`
	SetUid bool   `json:"setuid"`
	SetGid bool   `json:"setgid"`
	UidSel int    `json:"uidsel"` // 0 -> 0, 1 -> caller's uid, 2 -> 4242
	GidSel int    `json:"gidsel"`
	Mode   bool   `json:"mode"`
	// Op "update": a runtime reconfiguration that does not ask for another squash mode (Squash is documented
	// immutable at runtime, so the construction mode stays in force whatever the update's fate)
	Upd string `json:"upd,omitempty"` // policy-empty policy-same export-empty export-same
	// RootFirst: another user of the same client machine (uid 0, or uid 2000 when the case's caller is root) issues a
	// GETATTR immediately before this request, on the same connection when the case runs over one.
	RootFirst bool `json:"root_first,omitempty"`
	// Existing (create, UNCHECKED or GUARDED): the name is that of the seeded regular file f, so the request meets an
	// object that is already there (and owned by somebody else)
	Existing bool `json:"existing,omitempty"`
}

type c11Case struct {
	Squash string   `json:"squash"`
	Uid    uint32   `json:"uid"`
	Gid    uint32   `json:"gid"`
	Aux    []uint32 `json:"aux"`
	None   bool     `json:"auth_none"`
	Reqs   []c11Req `json:"reqs"`
	// Conn: every request travels over the server's record-marking connection loop (one connection per client
	// address, shared by all credentials of that address) instead of a direct HandleCall.
	Conn bool `json:"conn,omitempty"`
}

func genC11(t *rapid.T) c11Case {
	c := c11Case{
		Squash: pick(t, "squash", "", "none", "root", "all", "Root"),
		Uid:    pick(t, "uid", uint32(0), 0, 1, 1000, 65534, 1<<32-1),
		Gid:    pick(t, "gid", uint32(0), 0, 1, 1000, 65534),
		None:   rapid.IntRange(0, 9).Draw(t, "none") == 0,
		Conn:   rapid.Bool().Draw(t, "conn"),
	}
	if rapid.Bool().Draw(t, "aux") {
		c.Aux = []uint32{0, 7}
	}
	n := rapid.IntRange(1, 8).Draw(t, "n")
	for i := 0; i < n; i++ {
		c.Reqs = append(c.Reqs, c11Req{
			Op:     pick(t, "op", "setattr", "setattr", "setattr", "create", "create", "create", "mkdir", "mkdir", "symlink", "symlink", "update"),
			Upd:    pick(t, "upd", "policy-empty", "policy-same", "export-empty", "export-same"),
			On:     pick(t, "on", "f", "d", "l", "f"),
			How:    pick(t, "how", uint32(0), 1, 2),
			SetUid: rapid.Bool().Draw(t, "su"), SetGid: rapid.Bool().Draw(t, "sg"),
			UidSel: rapid.IntRange(0, 2).Draw(t, "us"), GidSel: rapid.IntRange(0, 2).Draw(t, "gs"),
			Mode:      rapid.Bool().Draw(t, "mode"),
			RootFirst: rapid.IntRange(0, 2).Draw(t, "rootfirst") == 0,
			Existing:  rapid.IntRange(0, 3).Draw(t, "existing") == 0,
		})
	}
	return c
}

func runC11(tb stat.TB, c c11Case) {
	const id, check = "C11", "TestC11"
	v := vfs.New()
	v.SeedFile("/f", 0644, 10, 20, []byte("x"))
	v.SeedDir("/d", 0755, 10, 20)
	v.SeedSymlink("/l", "f", 10, 20)
	s := newSession(tb, v, absnfs.ExportOptions{Squash: c.Squash, AttrCacheTimeout: 1, AttrCacheSize: 2})
	defer s.close()
	s.e.ViaConn = c.Conn
	cred := nfsx.AuthSys(1, "h", c.Uid, c.Gid, c.Aux)
	eu, eg, _, _ := refSquash(c.Squash, c.Uid, c.Gid, c.Aux)
	if c.None {
		cred = nfsx.AuthNone()
		eu, eg = 65534, 65534
	}
	cl := drv.Client{IP: "127.0.0.1", Port: 700, Cred: cred}
	nt := false
	abandoned := guard(func() {
		root := s.mount()
		fh := map[string][]byte{}
		for _, n := range []string{"f", "d", "l"} {
			r := s.nfs(nfsx.ProcLookup, nfsx.ArgsDirop(root, n))
			if r.Status != nfsx.OK {
				tb.Fatalf("harness: lookup %s: %s", n, statusName(r.Status))
			}
			fh[n] = r.Fh
		}
		v.SetRecording(true)
		for i, rq := range c.Reqs {
			sel := func(k int, caller uint32) uint32 {
				switch k {
				case 0:
					return 0
				case 1:
					return caller
				}
				return 4242
			}
			if rq.Op == "create" && rq.How == nfsx.Exclusive {
				// createhow3 EXCLUSIVE carries a verifier and no sattr3: nothing is asked for
				rq.SetUid, rq.SetGid, rq.Mode = false, false, false
			}
			var sa nfsx.Sattr
			if rq.SetUid {
				sa.Uid = nfsx.U32p(sel(rq.UidSel, c.Uid))
			}
			if rq.SetGid {
				sa.Gid = nfsx.U32p(sel(rq.GidSel, c.Gid))
			}
			if rq.Mode {
				sa.Mode = nfsx.U32p(0640)
			}
			if rq.RootFirst && rq.Op != "update" {
				other := drv.Root()
				if c.Uid == 0 && !c.None {
					other = drv.User(2000, 2000)
				}
				s.nfsAs(other, nfsx.ProcGetattr, nfsx.ArgsFh(fh["f"]))
			}
			v.ResetCalls()
			name := fmt.Sprintf("new%d", i)
			existing := rq.Op == "create" && rq.Existing && rq.How != nfsx.Exclusive
			var pre vfs.Entry
			if existing {
				name = "f"
				pre, _ = v.PeekLstat("/f")
			}
			var res *nfsx.Res
			switch rq.Op {
			case "update":
				var uerr error
				switch rq.Upd {
				case "policy-empty":
					uerr = s.e.NFS.UpdatePolicyOptions(absnfs.PolicyOptions{})
				case "policy-same":
					uerr = s.e.NFS.UpdatePolicyOptions(absnfs.PolicyOptions{Squash: c.Squash})
				case "export-empty":
					uerr = s.e.NFS.UpdateExportOptions(absnfs.ExportOptions{})
				default:
					uerr = s.e.NFS.UpdateExportOptions(absnfs.ExportOptions{Squash: c.Squash})
				}
				if uerr != nil {
					stat.Label("runtime_update_rejected", 1)
				} else {
					stat.Label("runtime_update_accepted", 1)
				}
				continue
			case "setattr":
				res = s.nfsAs(cl, nfsx.ProcSetattr, nfsx.ArgsSetattr(fh[rq.On], sa, nil))
			case "create":
				res = s.nfsAs(cl, nfsx.ProcCreate, nfsx.ArgsCreate(root, name, rq.How, sa, [8]byte{}))
			case "mkdir":
				res = s.nfsAs(cl, nfsx.ProcMkdir, nfsx.ArgsMkdir(root, name, sa))
			case "symlink":
				res = s.nfsAs(cl, nfsx.ProcSymlink, nfsx.ArgsSymlink(root, name, sa, "f"))
			}
			what := fmt.Sprintf("req#%d %s (squash=%q cred %d/%d -> effective %d/%d, sattr uid=%v gid=%v)", i, rq.Op, c.Squash, c.Uid, c.Gid, eu, eg, ptrStr(sa.Uid), ptrStr(sa.Gid))
			if eu != 0 {
				if rq.SetUid && *sa.Uid != eu || rq.SetGid && *sa.Gid != eg || rq.Op != "setattr" {
					nt = true
				}
				for _, call := range v.Calls() {
					if (call.Op == "Chown" || call.Op == "Lchown") && (uint32(call.Uid) != eu || uint32(call.Gid) != eg) {
						if stat.Violate(tb, id, check, "non-root-assigns-foreign-owner:"+rq.Op, c, "%s made the backend record owner %d/%d via %s %v", what, call.Uid, call.Gid, call.Op, call.Paths) {
							return
						}
					}
				}
			}
			if existing {
				// the object was there already: whatever the reply, a caller that is not root has not given it another owner
				nt = true
				stat.Label("create_on_existing_file_"+statusName(res.Status), 1)
				if post, ok := v.PeekLstat("/f"); ok && eu != 0 && (post.Uid != pre.Uid || post.Gid != pre.Gid) && (post.Uid != eu || post.Gid != eg) {
					if stat.Violate(tb, id, check, "non-root-assigns-foreign-owner:create-existing", c, "%s on the existing file f (owned %d/%d): the backend inode is now owned %d/%d", what, pre.Uid, pre.Gid, post.Uid, post.Gid) {
						return
					}
				}
				continue
			}
			if rq.Op != "setattr" && res.Status == nfsx.OK {
				nt = true
				ent, ok := v.PeekLstat("/" + name)
				if !ok {
					continue
				}
				wu, wg := eu, eg
				if eu == 0 {
					if rq.SetUid {
						wu = *sa.Uid
					}
					if rq.SetGid {
						wg = *sa.Gid
					}
				}
				if ent.Uid != wu || ent.Gid != wg {
					sig := "new-object-wrong-owner:" + rq.Op
					if ent.Uid == vfs.SentinelOwner {
						sig = "new-object-owner-never-assigned:" + rq.Op
					}
					if stat.Violate(tb, id, check, sig, c, "%s: backend inode of /%s is owned %d/%d, want %d/%d", what, name, ent.Uid, ent.Gid, wu, wg) {
						return
					}
				}
			}
		}
	})
	if abandoned {
		return
	}
	ls := []string{"squash_" + strings.ToLower(c.Squash)}
	if c.Conn {
		ls = append(ls, "over_connection_loop")
	}
	stat.Case(c, nt, ls...)
}

func ptrStr(p *uint32) string {
	if p == nil {
		return "-"
	}
	return fmt.Sprint(*p)
}

var propC11 = defProp("C11", "TestC11", genC11, runC11)

func TestC11(t *testing.T) { propC11.Test(t) }
