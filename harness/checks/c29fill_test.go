package checks

// C29, cache-fill schedules: a read-type request is parked right after one of
// its backend calls has returned (so it holds what it read but has not yet
// stored it), a mutation of the same directory or object runs to completion,
// then the reader goes on and fills the caches. Oracle: once both requests have
// finished, what the server answers (LOOKUP, READDIRPLUS, attributes) agrees
// with the backend - a cache filled from a pre-mutation read must not outlive
// the mutation's invalidation.

import (
	"bytes"
	"fmt"
	"sort"
	"strings"
	"sync/atomic"
	"testing"
	"time"

	"pgregory.net/rapid"

	"verif/harness/drv"
	"verif/harness/nfsx"
	"verif/harness/stat"
	"verif/harness/vfs"
)

type c29FillCase struct {
	Reader    string   `json:"reader"`     // readdir readdirplus lookup_x lookup_m getattr_x lookup_sub readdir_sub read_x
	ParkAfter int      `json:"park_after"` // the reader is parked after its ParkAfter-th backend call has returned
	Mutator   string   `json:"mutator"`    // create_m remove_x rename_x_z rename_x_m mkdir_m write_x setsize_x symlink_m rmdir_sub create_in_sub
	Cache     cacheCfg `json:"cache"`
	Warm      bool     `json:"warm"` // look everything up once before (caches populated)
}

var c29Readers = []string{"readdir", "readdirplus", "lookup_x", "lookup_m", "getattr_x", "lookup_sub", "readdir_sub", "read_x", "read_x"}
var c29Mutators = []string{"create_m", "remove_x", "rename_x_z", "rename_x_m", "mkdir_m", "write_x", "setsize_x", "symlink_m", "rmdir_sub", "create_in_sub"}

func genC29Fill(t *rapid.T) c29FillCase {
	return c29FillCase{
		Reader:    rapid.SampledFrom(c29Readers).Draw(t, "reader"),
		ParkAfter: rapid.IntRange(1, 8).Draw(t, "park_after"),
		Mutator:   rapid.SampledFrom(c29Mutators).Draw(t, "mutator"),
		Cache:     cacheCfg{AttrTTLns: pick(t, "ttl", int64(3600e9), int64(3600e9), int64(1)), AttrSize: 10000, DirCache: rapid.IntRange(0, 3).Draw(t, "dc") > 0, Negative: rapid.IntRange(0, 3).Draw(t, "neg") > 0},
		Warm:      rapid.Bool().Draw(t, "warm"),
	}
}

func runC29Fill(tb stat.TB, c c29FillCase) {
	const id, check = "C29", "TestC29Fill"
	v := vfs.New()
	v.SeedDir("/s", 0755, 0, 0)
	v.SeedFile("/s/x", 0644, 0, 0, []byte("xxxx"))
	v.SeedFile("/s/y", 0644, 0, 0, []byte("yy"))
	v.SeedDir("/s/sub", 0755, 0, 0)
	opts := newOpts(c.Cache)
	opts.MaxWorkers = 4
	opts.Timeouts = drv.FastTimeouts(10 * time.Second)
	s := newSession(tb, v, opts)
	defer s.close()
	parkedOK := false
	abandoned := guard(func() {
		root := s.mount()
		look := func(dir []byte, n string) *nfsx.Res { return s.nfs(nfsx.ProcLookup, nfsx.ArgsDirop(dir, n)) }
		dr := look(root, "s")
		if dr.Status != nfsx.OK {
			tb.Fatalf("harness: lookup /s")
		}
		dir := dr.Fh
		xr, sr := look(dir, "x"), look(dir, "sub")
		if xr.Status != nfsx.OK || sr.Status != nfsx.OK {
			tb.Fatalf("harness: lookup x/sub")
		}
		xfh, subfh := xr.Fh, sr.Fh
		if c.Warm {
			look(dir, "m")
			look(dir, "y")
			s.nfs(nfsx.ProcReaddirplus, nfsx.ArgsReaddirplus(dir, 0, [8]byte{}, 8192, 8192))
			s.nfs(nfsx.ProcReaddir, nfsx.ArgsReaddir(subfh, 0, [8]byte{}, 8192))
		} else {
			// the setup lookups above filled the attribute cache: start the reader from cold caches
			s.e.NFS.VerifAttrCache().Clear()
			if dc := s.e.NFS.VerifDirCache(); dc != nil {
				dc.Clear()
			}
		}

		var armed atomic.Bool
		var count int32
		parked := make(chan struct{})
		gate := make(chan struct{})
		v.SetAfter(func(call *vfs.Call) {
			if !armed.Load() {
				return
			}
			if int(atomic.AddInt32(&count, 1)) == c.ParkAfter && armed.CompareAndSwap(true, false) {
				close(parked)
				<-gate
			}
		})
		done := make(chan struct{})
		var readRes *nfsx.Res
		preX, _, _ := v.PeekRead("/s/x", 0, 100)
		armed.Store(true)
		go func() {
			defer close(done)
			defer func() {
				if r := recover(); r != nil {
					if _, ok := r.(abandon); !ok {
						panic(r)
					}
				}
			}()
			switch c.Reader {
			case "readdir":
				s.nfs(nfsx.ProcReaddir, nfsx.ArgsReaddir(dir, 0, [8]byte{}, 8192))
			case "readdirplus":
				s.nfs(nfsx.ProcReaddirplus, nfsx.ArgsReaddirplus(dir, 0, [8]byte{}, 8192, 8192))
			case "readdir_sub":
				s.nfs(nfsx.ProcReaddir, nfsx.ArgsReaddir(subfh, 0, [8]byte{}, 8192))
			case "lookup_x":
				look(dir, "x")
			case "lookup_m":
				look(dir, "m")
			case "lookup_sub":
				look(dir, "sub")
			case "getattr_x":
				s.nfs(nfsx.ProcGetattr, nfsx.ArgsFh(xfh))
			case "read_x":
				readRes = s.nfs(nfsx.ProcRead, nfsx.ArgsRead(xfh, 0, 100))
			}
		}()
		select {
		case <-parked:
			parkedOK = true
		case <-done:
			armed.Store(false)
		case <-time.After(10 * time.Second):
			close(gate)
			tb.Fatalf("harness: reader neither parked nor finished")
		}
		if parkedOK {
			// the mutation runs to completion while the reader holds what it read
			var mr *nfsx.Res
			switch c.Mutator {
			case "create_m":
				mr = s.nfs(nfsx.ProcCreate, nfsx.ArgsCreate(dir, "m", nfsx.Guarded, nfsx.Sattr{}, [8]byte{}))
			case "remove_x":
				mr = s.nfs(nfsx.ProcRemove, nfsx.ArgsDirop(dir, "x"))
			case "rename_x_z":
				mr = s.nfs(nfsx.ProcRename, nfsx.ArgsRename(dir, "x", dir, "z"))
			case "rename_x_m":
				mr = s.nfs(nfsx.ProcRename, nfsx.ArgsRename(dir, "x", dir, "m"))
			case "mkdir_m":
				mr = s.nfs(nfsx.ProcMkdir, nfsx.ArgsMkdir(dir, "m", nfsx.Sattr{}))
			case "write_x":
				mr = s.nfs(nfsx.ProcWrite, nfsx.ArgsWrite(xfh, 2, 9, nfsx.FileSync, []byte("WWWWWWWWW")))
			case "setsize_x":
				mr = s.nfs(nfsx.ProcSetattr, nfsx.ArgsSetattr(xfh, nfsx.Sattr{Size: nfsx.U64p(1)}, nil))
			case "symlink_m":
				mr = s.nfs(nfsx.ProcSymlink, nfsx.ArgsSymlink(dir, "m", nfsx.Sattr{}, "y"))
			case "rmdir_sub":
				mr = s.nfs(nfsx.ProcRmdir, nfsx.ArgsDirop(dir, "sub"))
			case "create_in_sub":
				mr = s.nfs(nfsx.ProcCreate, nfsx.ArgsCreate(subfh, "inner", nfsx.Guarded, nfsx.Sattr{}, [8]byte{}))
			}
			if mr == nil || mr.Status != nfsx.OK {
				close(gate)
				<-done
				tb.Fatalf("harness: mutator %s failed: %v", c.Mutator, mr)
			}
			close(gate)
			select {
			case <-done:
			case <-time.After(10 * time.Second):
				tb.Fatalf("harness: reader did not finish after the gate opened")
			}
		}
		v.SetAfter(nil)

		// ---- a READ that overlapped the mutation returns the file's bytes as they were before or after it, never a
		// mixture the file never held (zero padding up to a size it no longer has, for instance)
		if c.Reader == "read_x" && readRes != nil && readRes.Status == nfsx.OK && parkedOK {
			postX, _, okX := v.PeekRead("/s/x", 0, 100)
			if !okX {
				postX = nil // x is gone (removed / renamed): only the old content can be explained
			}
			// (a READ that sized its buffer before the mutation and read after it may come back short: a prefix of
			// either state is a state the file was in; bytes beyond what either state holds are not)
			if !bytes.HasPrefix(preX, readRes.Data) && !(okX && bytes.HasPrefix(postX, readRes.Data)) {
				stat.Violate(tb, id, check, "read-reflects-a-state-the-file-was-never-in", c, "READ of x parked after its backend call #%d while %s ran to completion returned %q; the file held %q before and %q after", c.ParkAfter, c.Mutator, readRes.Data, preX, postX)
				return
			}
		}
		// ---- both requests have finished: the server's answers must agree with the backend
		what := fmt.Sprintf("%s parked after its backend call #%d while %s ran to completion (caches %+v, warm=%v)", c.Reader, c.ParkAfter, c.Mutator, c.Cache, c.Warm)
		snap := v.Snapshot()
		list := func(fh []byte, prefix string) bool {
			lr := s.nfs(nfsx.ProcReaddirplus, nfsx.ArgsReaddirplus(fh, 0, [8]byte{}, 65536, 65536))
			if _, ok := snap[strings.TrimSuffix(prefix, "/")]; !ok {
				return false // the directory itself is gone
			}
			if lr.Status != nfsx.OK {
				return stat.Violate(tb, id, check, "listing-fails-after-cache-fill-schedule", c, "%s: afterwards READDIRPLUS of %s replied %s", what, prefix, statusName(lr.Status))
			}
			var got, want []string
			for _, e := range lr.Entries {
				got = append(got, e.Name)
			}
			for p := range snap {
				if strings.HasPrefix(p, prefix) && !strings.Contains(p[len(prefix):], "/") {
					want = append(want, p[len(prefix):])
				}
			}
			sort.Strings(got)
			sort.Strings(want)
			if strings.Join(got, ",") != strings.Join(want, ",") {
				return stat.Violate(tb, id, check, "stale-listing-cached-across-invalidation", c, "%s: afterwards READDIRPLUS of %s lists %v, the backend holds %v", what, prefix, got, want)
			}
			return false
		}
		if list(dir, "/s/") {
			return
		}
		if list(subfh, "/s/sub/") {
			return
		}
		for _, n := range []string{"x", "y", "m", "z", "sub"} {
			ent, exists := snap["/s/"+n]
			r := look(dir, n)
			if exists != (r.Status == nfsx.OK) {
				if stat.Violate(tb, id, check, "stale-lookup-cached-across-invalidation", c, "%s: afterwards LOOKUP %s replied %s but the backend says exists=%v", what, n, statusName(r.Status), exists) {
					return
				}
				continue
			}
			if !exists || r.Attr == nil {
				continue
			}
			wantType := map[string]uint32{"file": nfsx.TypeReg, "dir": nfsx.TypeDir, "link": nfsx.TypeLnk}[ent.Type]
			if r.Attr.Type != wantType || ent.Type == "file" && int64(r.Attr.Size) != ent.Size {
				if stat.Violate(tb, id, check, "stale-attributes-cached-across-invalidation", c, "%s: afterwards LOOKUP %s reports type %d size %d, the backend holds %+v", what, n, r.Attr.Type, r.Attr.Size, ent) {
					return
				}
			}
		}
	})
	if abandoned {
		return
	}
	stat.Case(c, parkedOK, "reader_"+c.Reader, "mutator_"+c.Mutator)
}

var propC29Fill = defProp("C29", "TestC29Fill", genC29Fill, runC29Fill)

func TestC29Fill(t *testing.T) { propC29Fill.Test(t) }
