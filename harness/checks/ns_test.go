package checks

// Shared namespace machinery: a POSIX-like tree model (independent of vfs) and a
// client that keeps every handle it was ever given, keyed by the path the
// handle was issued for (absnfs handles are path-bound).

import (
	"fmt"
	"path"
	"sort"
	"strings"

	"verif/harness/nfsx"
	"verif/harness/vfs"
)

type mnode struct {
	id       int
	kind     byte // 'f' file, 'd' dir, 'l' symlink
	target   string
	children map[string]*mnode
}

type mtree struct {
	root *mnode
	next int
}

func newMtree() *mtree {
	return &mtree{root: &mnode{id: 1, kind: 'd', children: map[string]*mnode{}}, next: 2}
}

func (t *mtree) mk(kind byte, target string) *mnode {
	n := &mnode{id: t.next, kind: kind, target: target}
	t.next++
	if kind == 'd' {
		n.children = map[string]*mnode{}
	}
	return n
}

func comps(p string) []string {
	var out []string
	for _, c := range strings.Split(p, "/") {
		if c != "" {
			out = append(out, c)
		}
	}
	return out
}

// get resolves p without following symlinks (NFS namespace operations never follow them).
func (t *mtree) get(p string) *mnode {
	cur := t.root
	for _, c := range comps(p) {
		if cur.kind != 'd' {
			return nil
		}
		nx, ok := cur.children[c]
		if !ok {
			return nil
		}
		cur = nx
	}
	return cur
}

func (t *mtree) isUnder(anc, n *mnode) bool {
	if anc == n {
		return true
	}
	if anc.kind != 'd' {
		return false
	}
	for _, c := range anc.children {
		if t.isUnder(c, n) {
			return true
		}
	}
	return false
}

// flat renders the tree as path -> "d" | "f" | "l:target".
func (t *mtree) flat() map[string]string {
	out := map[string]string{}
	var rec func(p string, n *mnode)
	rec = func(p string, n *mnode) {
		switch n.kind {
		case 'd':
			out[p] = "d"
			for name, c := range n.children {
				rec(path.Join(p, name), c)
			}
		case 'l':
			out[p] = "l:" + n.target
		default:
			out[p] = "f"
		}
	}
	rec("/", t.root)
	return out
}

func (t *mtree) dirs() []string {
	var out []string
	for p, k := range t.flat() {
		if k == "d" {
			out = append(out, p)
		}
	}
	sort.Strings(out)
	return out
}

func (t *mtree) paths() []string {
	var out []string
	for p := range t.flat() {
		out = append(out, p)
	}
	sort.Strings(out)
	return out
}

func flatSnapshot(s map[string]vfs.Entry) map[string]string {
	out := map[string]string{}
	for p, e := range s {
		switch e.Type {
		case "dir":
			out[p] = "d"
		case "link":
			out[p] = "l:" + e.Target
		default:
			out[p] = "f"
		}
	}
	return out
}

func diffFlat(model, impl map[string]string) string {
	keys := map[string]bool{}
	for k := range model {
		keys[k] = true
	}
	for k := range impl {
		keys[k] = true
	}
	ks := make([]string, 0, len(keys))
	for k := range keys {
		ks = append(ks, k)
	}
	sort.Strings(ks)
	for _, k := range ks {
		if model[k] != impl[k] {
			return fmt.Sprintf("%s: model=%q backend=%q", k, model[k], impl[k])
		}
	}
	return ""
}

func kindOfType(ft uint32) byte {
	switch ft {
	case nfsx.TypeDir:
		return 'd'
	case nfsx.TypeLnk:
		return 'l'
	case nfsx.TypeReg:
		return 'f'
	}
	return '?'
}

// heldHandle is a handle the client was given, with the identity of the model
// object it was issued for.
type heldHandle struct {
	fh []byte
	id int
}

// modelApply* functions compute the model's verdict of an operation.
// They return ok (must the request succeed) and, if ok, apply the effect.

func (t *mtree) lookupChild(dir, name string) (*mnode, *mnode) {
	d := t.get(dir)
	if d == nil || d.kind != 'd' {
		return d, nil
	}
	return d, d.children[name]
}
