package checks

// C30 The TLS listener enforces the configured security floor.
//
// Certificates are generated in the test. For every generated TLS
// configuration that New+Listen accept, clients pinned to each protocol
// version and presenting each kind of client certificate try to get a NULL RPC
// answered over the TLS connection (end-to-end success, because TLS 1.3
// clients finish their handshake before the server has verified them).

import (
	"crypto/ecdsa"
	"crypto/elliptic"
	"crypto/rand"
	"crypto/tls"
	"crypto/x509"
	"crypto/x509/pkix"
	"encoding/pem"
	"fmt"
	"math/big"
	"net"
	"os"
	"path/filepath"
	"sync"
	"testing"
	"time"

	"github.com/absfs/absnfs"
	"pgregory.net/rapid"

	"verif/harness/nfsx"
	"verif/harness/stat"
	"verif/harness/vfs"
)

type pki struct {
	dir                         string
	caPEM                       []byte
	fcaPEM                      []byte // the foreign CA (clients of kind 3 chain to it)
	caPool                      *x509.CertPool
	serverCert, serverKey       string // files
	server2Cert, server2Key     []byte // PEM of the rotation certificate
	server1Cert, server1Key     []byte
	serial1, serial2            *big.Int
	goodClient, selfClient, foreignClient tls.Certificate
}

// trustFile: what this process presents as the host's trust store (removed by TestMain).
var trustFile string

var (
	pkiOnce sync.Once
	thePKI  *pki
	pkiErr  error
)

func mkCert(tmpl *x509.Certificate, parent *x509.Certificate, parentKey *ecdsa.PrivateKey) (certPEM, keyPEM []byte, cert *x509.Certificate, key *ecdsa.PrivateKey, err error) {
	key, err = ecdsa.GenerateKey(elliptic.P256(), rand.Reader)
	if err != nil {
		return
	}
	if parent == nil {
		parent, parentKey = tmpl, key
	}
	der, err := x509.CreateCertificate(rand.Reader, tmpl, parent, &key.PublicKey, parentKey)
	if err != nil {
		return
	}
	cert, err = x509.ParseCertificate(der)
	if err != nil {
		return
	}
	kb, err := x509.MarshalECPrivateKey(key)
	if err != nil {
		return
	}
	certPEM = pem.EncodeToMemory(&pem.Block{Type: "CERTIFICATE", Bytes: der})
	keyPEM = pem.EncodeToMemory(&pem.Block{Type: "EC PRIVATE KEY", Bytes: kb})
	return
}

func getPKI() (*pki, error) {
	pkiOnce.Do(func() {
		p := &pki{}
		now := time.Now()
		base := func(cn string, serial int64) *x509.Certificate {
			return &x509.Certificate{SerialNumber: big.NewInt(serial), Subject: pkix.Name{CommonName: cn}, NotBefore: now.Add(-time.Hour), NotAfter: now.Add(24 * time.Hour),
				KeyUsage: x509.KeyUsageDigitalSignature | x509.KeyUsageKeyEncipherment, BasicConstraintsValid: true}
		}
		ca := base("verif CA", 1)
		ca.IsCA, ca.KeyUsage = true, ca.KeyUsage|x509.KeyUsageCertSign
		caPEM, _, caCert, caKey, err := mkCert(ca, nil, nil)
		if err != nil {
			pkiErr = err
			return
		}
		fca := base("foreign CA", 2)
		fca.IsCA, fca.KeyUsage = true, fca.KeyUsage|x509.KeyUsageCertSign
		fcaPEM, _, fcaCert, fcaKey, err := mkCert(fca, nil, nil)
		if err != nil {
			pkiErr = err
			return
		}
		srv := base("localhost", 1001)
		srv.ExtKeyUsage = []x509.ExtKeyUsage{x509.ExtKeyUsageServerAuth}
		srv.DNSNames, srv.IPAddresses = []string{"localhost"}, []net.IP{net.ParseIP("127.0.0.1")}
		p.server1Cert, p.server1Key, _, _, err = mkCert(srv, caCert, caKey)
		if err != nil {
			pkiErr = err
			return
		}
		srv2 := base("localhost", 2002)
		srv2.ExtKeyUsage, srv2.DNSNames, srv2.IPAddresses = srv.ExtKeyUsage, srv.DNSNames, srv.IPAddresses
		p.server2Cert, p.server2Key, _, _, err = mkCert(srv2, caCert, caKey)
		if err != nil {
			pkiErr = err
			return
		}
		p.serial1, p.serial2 = big.NewInt(1001), big.NewInt(2002)
		client := func(cn string, serial int64, parent *x509.Certificate, pk *ecdsa.PrivateKey) (tls.Certificate, error) {
			t := base(cn, serial)
			t.ExtKeyUsage = []x509.ExtKeyUsage{x509.ExtKeyUsageClientAuth}
			c, k, _, _, err := mkCert(t, parent, pk)
			if err != nil {
				return tls.Certificate{}, err
			}
			return tls.X509KeyPair(c, k)
		}
		if p.goodClient, err = client("good client", 3001, caCert, caKey); err != nil {
			pkiErr = err
			return
		}
		if p.selfClient, err = client("self-signed client", 3002, nil, nil); err != nil {
			pkiErr = err
			return
		}
		if p.foreignClient, err = client("foreign client", 3003, fcaCert, fcaKey); err != nil {
			pkiErr = err
			return
		}
		// The host's trust store, as far as this process is concerned, is the foreign CA (Go reads SSL_CERT_FILE the
		// first time the system pool is asked for): a certificate that chains to a public CA of the host is not one that
		// chains to the CA the export is configured with. The harness' own clients name their roots explicitly.
		trustFile = filepath.Join(os.TempDir(), fmt.Sprintf("verif-host-trust-%d.pem", os.Getpid()))
		if err := os.WriteFile(trustFile, fcaPEM, 0600); err == nil {
			os.Setenv("SSL_CERT_FILE", trustFile)
			os.Setenv("SSL_CERT_DIR", filepath.Join(os.TempDir(), "verif-no-such-dir"))
		}
		p.caPEM = caPEM
		p.fcaPEM = fcaPEM
		p.caPool = x509.NewCertPool()
		p.caPool.AppendCertsFromPEM(caPEM)
		thePKI = p
	})
	return thePKI, pkiErr
}

type c30Client struct {
	Vers uint16 `json:"vers"`
	Cert int    `json:"cert"` // 0 none, 1 CA-signed, 2 self-signed, 3 foreign CA
	// NoSNI: the client dials the IP address and sends no server_name extension (the certificate is checked
	// against its IP SAN)
	NoSNI bool `json:"no_sni,omitempty"`
	// cache: the client keeps TLS sessions between its connections, as clients do (one cache per client identity)
	cache tls.ClientSessionCache
}

type c30Case struct {
	Min, Max   uint16      `json:"-"`
	MinV       int         `json:"min"` // index into c30Versions
	MaxV       int         `json:"max"`
	ClientAuth int         `json:"client_auth"`
	CA         int         `json:"ca"`      // 0 none, 1 the CA, 2 missing file
	Ciphers    int         `json:"ciphers"` // 0 nil, 1 defaults, 2 TLS1.2-only, 3 legacy ids
	Clients    []c30Client `json:"clients"`
	Rotate     bool        `json:"rotate"`
	// PreUpdate: a runtime reconfiguration that leaves the TLS settings as they are, made between Listen and the
	// rotation step: "" none, "export" UpdateExportOptions(GetExportOptions()), "export2" the same twice,
	// "tuning" UpdateTuningOptions
	PreUpdate string `json:"pre_update,omitempty"`
	// SwapCA: after the first round the listener is stopped, CAFile is pointed at another CA through
	// GetExportOptions/UpdateExportOptions and a new listener is started: the configured CA is now the other one
	SwapCA bool `json:"swap_ca,omitempty"`
	// Resume: clients holding a certificate keep a TLS session cache (one per identity) over all their connections of
	// the case, so that later connections offer the session tickets earlier ones were given
	Resume bool `json:"resume,omitempty"`
	// Tighten: after the first round ClientAuth is raised to RequireAndVerifyClientCert at runtime and a new listener
	// started (only in cases with the CA configured and without a CA swap)
	Tighten bool `json:"tighten,omitempty"`
}

// (indices 5..8: values that name no TLS version - SSL 3.0, 1, just below TLS 1.0, just above TLS 1.3; clients only use 1..4)
var c30Versions = []uint16{0, tls.VersionTLS10, tls.VersionTLS11, tls.VersionTLS12, tls.VersionTLS13, 0x0300, 1, 0x02ff, 0x0305}

func genC30(t *rapid.T) c30Case {
	c := c30Case{MinV: rapid.IntRange(0, 4).Draw(t, "min"), MaxV: rapid.IntRange(0, 4).Draw(t, "max"), ClientAuth: rapid.IntRange(0, 4).Draw(t, "auth"),
		CA: pick(t, "ca", 0, 1, 1, 1, 2), Ciphers: rapid.IntRange(0, 3).Draw(t, "ciphers"), Rotate: rapid.IntRange(0, 2).Draw(t, "rotate") == 0,
		PreUpdate: pick(t, "preupdate", "", "", "export", "export2", "tuning"), SwapCA: rapid.IntRange(0, 2).Draw(t, "swapca") == 0, Resume: rapid.Bool().Draw(t, "resume"), Tighten: rapid.IntRange(0, 2).Draw(t, "tighten") == 0}
	if rapid.IntRange(0, 4).Draw(t, "oddmin") == 0 {
		c.MinV = rapid.IntRange(5, 8).Draw(t, "oddminv")
	}
	if rapid.IntRange(0, 9).Draw(t, "oddmax") == 0 {
		c.MaxV = rapid.IntRange(5, 8).Draw(t, "oddmaxv")
	} else if rapid.Bool().Draw(t, "sane") {
		// bias towards configurations the server accepts
		smin, smax := pick(t, "smin", 0, 3, 3, 4), pick(t, "smax", 0, 3, 4, 4)
		if c.MinV < 5 {
			c.MinV = smin
		}
		c.MaxV = smax
	}
	n := rapid.IntRange(2, 6).Draw(t, "n")
	for i := 0; i < n; i++ {
		c.Clients = append(c.Clients, c30Client{Vers: c30Versions[rapid.IntRange(1, 4).Draw(t, "cv")], Cert: rapid.IntRange(0, 3).Draw(t, "cert"), NoSNI: rapid.Bool().Draw(t, "nosni")})
	}
	return c
}

// c30Null tries to get a NULL RPC answered over TLS; it returns the negotiated version and the server's leaf serial.
func c30Null(addr string, p *pki, cl c30Client) (ok bool, vers uint16, serial *big.Int) {
	cfg := &tls.Config{RootCAs: p.caPool, ServerName: "localhost", MinVersion: cl.Vers, MaxVersion: cl.Vers}
	if cl.NoSNI {
		cfg.ServerName = "" // crypto/tls takes the host of addr (an IP literal: never sent as SNI)
	}
	cfg.ClientSessionCache = cl.cache
	// GetClientCertificate forces the certificate to be presented even if the
	// server's CertificateRequest does not list its issuer (a Go client would
	// otherwise silently send none).
	force := func(c tls.Certificate) {
		cfg.GetClientCertificate = func(*tls.CertificateRequestInfo) (*tls.Certificate, error) { return &c, nil }
	}
	switch cl.Cert {
	case 1:
		force(p.goodClient)
	case 2:
		force(p.selfClient)
	case 3:
		force(p.foreignClient)
	}
	d := &net.Dialer{Timeout: 3 * time.Second}
	conn, err := tls.DialWithDialer(d, "tcp", addr, cfg)
	if err != nil {
		return false, 0, nil
	}
	defer conn.Close()
	st := conn.ConnectionState()
	if len(st.PeerCertificates) > 0 {
		serial = st.PeerCertificates[0].SerialNumber
	}
	conn.SetDeadline(time.Now().Add(3 * time.Second))
	if _, err := conn.Write(nfsx.Frame(nfsx.Call(77, nfsx.ProgNFS, 3, 0, nfsx.AuthNone(), nfsx.AuthNone(), nil))); err != nil {
		return false, st.Version, serial
	}
	rec, err := nfsx.ReadRecord(conn, 1<<20)
	if err != nil {
		return false, st.Version, serial
	}
	rp, err := nfsx.ParseReply(rec)
	return err == nil && rp.Xid == 77 && rp.Stat == nfsx.MsgAccepted, st.Version, serial
}

func runC30(tb stat.TB, c c30Case) {
	const id, check = "C30", "TestC30"
	p, err := getPKI()
	if err != nil {
		tb.Fatalf("harness: pki: %v", err)
	}
	dir, err := os.MkdirTemp("", "verif-c30-")
	if err != nil {
		tb.Fatalf("harness: %v", err)
	}
	defer os.RemoveAll(dir)
	certFile, keyFile, caFile := filepath.Join(dir, "server.pem"), filepath.Join(dir, "server.key"), filepath.Join(dir, "ca.pem")
	os.WriteFile(certFile, p.server1Cert, 0600)
	os.WriteFile(keyFile, p.server1Key, 0600)
	os.WriteFile(caFile, p.caPEM, 0600)
	tc := &absnfs.TLSConfig{Enabled: true, CertFile: certFile, KeyFile: keyFile, ClientAuth: tls.ClientAuthType(c.ClientAuth), MinVersion: c30Versions[c.MinV], MaxVersion: c30Versions[c.MaxV]}
	switch c.CA {
	case 1:
		tc.CAFile = caFile
	case 2:
		tc.CAFile = filepath.Join(dir, "missing-ca.pem")
	}
	switch c.Ciphers {
	case 1:
		tc.CipherSuites = absnfs.DefaultTLSConfig().CipherSuites
	case 2:
		tc.CipherSuites = []uint16{tls.TLS_ECDHE_ECDSA_WITH_AES_128_GCM_SHA256, tls.TLS_ECDHE_ECDSA_WITH_AES_256_GCM_SHA384}
	case 3:
		tc.CipherSuites = []uint16{tls.TLS_RSA_WITH_RC4_128_SHA, tls.TLS_RSA_WITH_3DES_EDE_CBC_SHA, tls.TLS_ECDHE_ECDSA_WITH_AES_128_CBC_SHA}
	}
	n, err := absnfs.New(vfs.New(), absnfs.ExportOptions{TLS: tc, MaxWorkers: 2})
	if err != nil {
		stat.Case(c, false, "config_rejected_by_New")
		return
	}
	defer n.Close()
	srv, err := absnfs.NewServer(absnfs.ServerOptions{Port: 0, Hostname: "127.0.0.1", UseRecordMarking: true})
	if err != nil {
		tb.Fatalf("harness: %v", err)
	}
	srv.SetHandler(n)
	if err := srv.Listen(); err != nil {
		stat.Case(c, false, "config_rejected_by_Listen")
		return
	}
	defer srv.Stop()
	addr := fmt.Sprintf("127.0.0.1:%d", srv.GetPort())
	what := fmt.Sprintf("server TLS config min=%#x max=%#x client_auth=%d ca=%d ciphers=%d", tc.MinVersion, tc.MaxVersion, c.ClientAuth, c.CA, c.Ciphers)
	nt := false
	successes := 0
	caches := map[int]tls.ClientSessionCache{}
	if c.Resume {
		caches[1], caches[3] = tls.NewLRUClientSessionCache(8), tls.NewLRUClientSessionCache(8)
	}
	for _, cl := range c.Clients {
		cl.cache = caches[cl.Cert]
		ok, vers, _ := c30Null(addr, p, cl)
		if cl.Vers < tls.VersionTLS12 || cl.Cert >= 2 {
			nt = true
		}
		if !ok {
			continue
		}
		successes++
		if vers < tls.VersionTLS12 {
			if stat.Violate(tb, id, check, "handshake-below-tls12-completes", c, "%s: a client pinned to %#x got a NULL RPC answered over TLS version %#x", what, cl.Vers, vers) {
				return
			}
		}
		verified := c.ClientAuth == int(tls.RequireAndVerifyClientCert) || (c.ClientAuth == int(tls.VerifyClientCertIfGiven) && cl.Cert != 0)
		if verified && (c.CA == 1 && cl.Cert != 1 || c.CA == 0) {
			// (with no CA configured nothing can chain to "the configured CA": verification can only fail)
			if stat.Violate(tb, id, check, "unverified-client-certificate-accepted", c, "%s: a client presenting certificate kind %d (0 none, 2 self-signed, 3 foreign CA) was served although client certificates are required and verified against the CA", what, cl.Cert) {
				return
			}
		}
	}
	if c.SwapCA && c.CA == 1 && c.ClientAuth >= int(tls.VerifyClientCertIfGiven) {
		swapVers := uint16(tls.VersionTLS13)
		if c30Versions[c.MaxV] != 0 && c30Versions[c.MaxV] < tls.VersionTLS13 {
			swapVers = tls.VersionTLS12
		}
		if c.Resume {
			// the client of the CA about to be retired talks to the listener once more (and is handed a session ticket)
			if ok, _, _ := c30Null(addr, p, c30Client{Vers: swapVers, Cert: 1, cache: caches[1]}); ok {
				stat.Label("client_of_retired_ca_holds_a_session_of_the_former_listener", 1)
			}
		}
		srv.Stop()
		ca2File := filepath.Join(dir, "ca2.pem")
		os.WriteFile(ca2File, p.fcaPEM, 0600)
		o := n.GetExportOptions()
		if o.TLS != nil {
			o.TLS.CAFile = ca2File
			if err := n.UpdateExportOptions(o); err == nil {
				srv2, err := absnfs.NewServer(absnfs.ServerOptions{Port: 0, Hostname: "127.0.0.1", UseRecordMarking: true})
				if err != nil {
					tb.Fatalf("harness: %v", err)
				}
				srv2.SetHandler(n)
				if err := srv2.Listen(); err == nil {
					defer srv2.Stop()
					addr = fmt.Sprintf("127.0.0.1:%d", srv2.GetPort())
					srv = srv2
					vers := uint16(tls.VersionTLS13)
					if c30Versions[c.MaxV] != 0 && c30Versions[c.MaxV] < tls.VersionTLS13 {
						vers = tls.VersionTLS12
					}
					okOld, _, _ := c30Null(addr, p, c30Client{Vers: vers, Cert: 1, cache: caches[1]})
					okNew, _, _ := c30Null(addr, p, c30Client{Vers: vers, Cert: 3, cache: caches[3]})
					nt = true
					stat.Label(fmt.Sprintf("ca_swapped_new_ca_client_served_%v", okNew), 1)
					if okOld {
						if stat.Violate(tb, id, check, "client-of-retired-ca-accepted", c, "%s: after CAFile was changed to another CA (GetExportOptions / UpdateExportOptions, new listener) a client whose certificate chains to the former CA is still served (client of the configured CA served: %v)", what, okNew) {
							return
						}
					}
					// the rotation step below talks to the new listener with a client of the new CA
					p2 := *p
					p2.goodClient = p.foreignClient
					p = &p2
				}
			}
		}
	}
	if c.Tighten && c.CA == 1 && c.ClientAuth < int(tls.RequireAndVerifyClientCert) && !(c.SwapCA && c.ClientAuth >= int(tls.VerifyClientCertIfGiven)) {
		// Client certificates become required and verified at runtime (GetExportOptions, ClientAuth raised, UpdateExportOptions,
		// new listener): from then on only a client presenting a certificate of the configured CA is served.
		o := n.GetExportOptions()
		if o.TLS != nil {
			o.TLS.ClientAuth = tls.RequireAndVerifyClientCert
			if err := n.UpdateExportOptions(o); err == nil {
				srv.Stop()
				srv3, err := absnfs.NewServer(absnfs.ServerOptions{Port: 0, Hostname: "127.0.0.1", UseRecordMarking: true})
				if err != nil {
					tb.Fatalf("harness: %v", err)
				}
				srv3.SetHandler(n)
				if err := srv3.Listen(); err == nil {
					defer srv3.Stop()
					addr = fmt.Sprintf("127.0.0.1:%d", srv3.GetPort())
					srv = srv3
					vers := uint16(tls.VersionTLS13)
					if c30Versions[c.MaxV] != 0 && c30Versions[c.MaxV] < tls.VersionTLS13 {
						vers = tls.VersionTLS12
					}
					nt = true
					for _, kind := range []int{0, 2, 3} {
						if ok, _, _ := c30Null(addr, p, c30Client{Vers: vers, Cert: kind}); ok {
							if stat.Violate(tb, id, check, "unverified-client-certificate-accepted", c, "%s: after ClientAuth was raised to RequireAndVerifyClientCert at runtime (GetExportOptions / UpdateExportOptions, new listener) a client presenting certificate kind %d (0 none, 2 self-signed, 3 foreign CA) is served", what, kind) {
								return
							}
						}
					}
					stat.Label("client_auth_tightened_at_runtime", 1)
					c.ClientAuth = int(tls.RequireAndVerifyClientCert)
				}
			}
		}
	}
	if c.Rotate {
		// the documented rotation step: replace the files, then ReloadCertificates on the settings GetExportOptions returns
		good := c30Client{Vers: tls.VersionTLS13, Cert: 1}
		if c30Versions[c.MaxV] != 0 && c30Versions[c.MaxV] < tls.VersionTLS13 {
			good.Vers = tls.VersionTLS12
		}
		switch c.PreUpdate {
		case "export", "export2":
			for i := 0; i < len(c.PreUpdate)-5; i++ {
				if err := n.UpdateExportOptions(n.GetExportOptions()); err != nil {
					tb.Fatalf("harness: UpdateExportOptions(GetExportOptions()): %v", err)
				}
			}
		case "tuning":
			n.UpdateTuningOptions(func(t *absnfs.TuningOptions) { t.AttrCacheSize = 1234 })
		}
		okBefore, _, s1 := c30Null(addr, p, good)
		if okBefore && s1 != nil && s1.Cmp(p.serial1) == 0 {
			os.WriteFile(certFile, p.server2Cert, 0600)
			os.WriteFile(keyFile, p.server2Key, 0600)
			opts := n.GetExportOptions()
			if opts.TLS == nil {
				if stat.Violate(tb, id, check, "tls-settings-not-reported", c, "%s: GetExportOptions().TLS is nil on a TLS server", what) {
					return
				}
			} else if err := opts.TLS.ReloadCertificates(); err != nil {
				if stat.Violate(tb, id, check, "reload-certificates-fails", c, "%s: ReloadCertificates: %v", what, err) {
					return
				}
			} else {
				nt = true
				okAfter, _, s2 := c30Null(addr, p, good)
				if okAfter && s2 != nil && s2.Cmp(p.serial2) == 0 {
					// and a client that sends no SNI
					plain := good
					plain.NoSNI = !good.NoSNI
					okAfter, _, s2 = c30Null(addr, p, plain)
				}
				if !okAfter || s2 == nil || s2.Cmp(p.serial2) != 0 {
					if stat.Violate(tb, id, check, "rotated-certificate-not-presented", c, "%s: after replacing the files and GetExportOptions().TLS.ReloadCertificates() (runtime update before: %q) a new handshake presented serial %v (ok=%v), want the reloaded certificate %v", what, c.PreUpdate, s2, okAfter, p.serial2) {
						return
					}
				}
			}
		}
	}
	var ls []string
	if successes > 0 {
		ls = append(ls, "some_client_served")
	}
	stat.Case(c, nt && true, ls...)
}

var propC30 = defProp("C30", "TestC30", genC30, runC30)

func TestC30(t *testing.T) { propC30.Test(t) }
