package checks

// C17, "After Server.Stop returns, no connection is served", on the StartWithPortmapper start path: the server owns a
// portmapper on port 111 as well. A client holds a TCP connection to the portmapper open (rpcinfo-like tools and
// monitoring do) while Stop runs; whatever the portmapper's own shutdown makes of that, when Stop has returned the
// NFS connections are closed and uncounted and a new connection is not served.

import (
	"fmt"
	"net"
	"testing"
	"time"

	"github.com/absfs/absnfs"
	"pgregory.net/rapid"

	"verif/harness/stat"
	"verif/harness/vfs"
)

type c17pCase struct {
	Conns int  `json:"conns"`
	Hold  bool `json:"hold_portmapper_connection"`
}

func genC17p(t *rapid.T) c17pCase {
	return c17pCase{Conns: rapid.IntRange(1, 3).Draw(t, "conns"), Hold: rapid.IntRange(0, 3).Draw(t, "hold") != 0}
}

func runC17p(tb stat.TB, c c17pCase) {
	const id, check = "C17", "TestC17Pmap"
	v := vfs.New()
	n, err := absnfs.New(v, absnfs.ExportOptions{})
	if err != nil {
		tb.Fatalf("harness: %v", err)
	}
	defer n.Close()
	srv, err := absnfs.NewServer(absnfs.ServerOptions{Port: 0, Hostname: "127.0.0.1", UseRecordMarking: true})
	if err != nil {
		tb.Fatalf("harness: NewServer: %v", err)
	}
	srv.SetHandler(n)
	if err := srv.StartWithPortmapper(); err != nil {
		stat.Inconclusive("C17: StartWithPortmapper unavailable here (port 111): " + err.Error())
		return
	}
	stopped := false
	defer func() {
		if !stopped {
			srv.Stop()
		}
	}()
	addr := fmt.Sprintf("127.0.0.1:%d", srv.GetPort())
	var conns []net.Conn
	defer func() {
		for _, cc := range conns {
			cc.Close()
		}
	}()
	for i := 0; i < c.Conns; i++ {
		cc, err := net.DialTimeout("tcp", addr, 3*time.Second)
		if err != nil {
			tb.Fatalf("harness: dial: %v", err)
		}
		conns = append(conns, cc)
		if !c17Null(cc, uint32(100+i), 3*time.Second) {
			stat.Inconclusive("C17: connection not served before Stop")
			return
		}
	}
	if c.Hold {
		pc, err := net.DialTimeout("tcp", "127.0.0.1:111", 3*time.Second)
		if err != nil {
			stat.Inconclusive("C17: portmapper not reachable: " + err.Error())
			return
		}
		defer pc.Close()
	}
	srv.Stop()
	stopped = true
	for i, cc := range conns {
		if c17Null(cc, uint32(200+i), 1500*time.Millisecond) {
			stat.Violate(tb, id, check, "served-after-stop", c, "StartWithPortmapper path, a client holding a connection to the portmapper: %v; after Stop returned, connection #%d opened before it is still answered", c.Hold, i)
			return
		}
	}
	if cnt, tracked := srv.VerifConnCounts(); cnt != 0 || tracked != 0 {
		stat.Violate(tb, id, check, "connections-counted-after-stop", c, "StartWithPortmapper path (portmapper connection held: %v): after Stop returned connCount=%d tracked=%d", c.Hold, cnt, tracked)
		return
	}
	if cc, err := net.DialTimeout("tcp", addr, time.Second); err == nil {
		served := c17Null(cc, 300, 1500*time.Millisecond)
		cc.Close()
		if served {
			stat.Violate(tb, id, check, "served-after-stop", c, "StartWithPortmapper path (portmapper connection held: %v): a connection dialled after Stop returned was served", c.Hold)
			return
		}
	}
	stat.Case(c, c.Hold)
}

var propC17p = defProp("C17", "TestC17Pmap", genC17p, runC17p)

func TestC17Pmap(t *testing.T) { propC17p.Test(t) }
