package checks

// C01, last sentence: "A WRITE that replies NFS3_OK with count n has stored exactly the first n bytes of its payload
// at its offset" - also when the server ends up storing less than it was sent. WRITE A is parked at its k-th backend
// call while UpdateTuningOptions lowers TransferSize below A's length (so that the write is clipped), then released.
// The reply's count is compared with what the backend file holds: the first n payload bytes at the offset, and not
// one payload byte beyond them.

import (
	"sync"
	"sync/atomic"
	"testing"
	"time"

	"github.com/absfs/absnfs"
	"pgregory.net/rapid"

	"verif/harness/nfsx"
	"verif/harness/stat"
	"verif/harness/vfs"
)

type c01sCase struct {
	Base   int `json:"base"`
	Off    int `json:"off"`
	Len    int `json:"len"`
	Shrink int `json:"shrink"`
	ParkAt int `json:"park_at"`
	// ModeOnly: instead of lowering TransferSize, the parked request is a SETATTR that sets the mode and nothing else,
	// and a WRITE (offset Off, Len bytes) runs to completion beside it. Whichever of the two is taken first, the
	// file afterwards holds the WRITE's bytes: a request that does not speak about size or data changes neither.
	ModeOnly bool `json:"mode_only,omitempty"`
}

func genC01s(t *rapid.T) c01sCase {
	return c01sCase{Base: pick(t, "base", 0, 10, 5000, 12000), Off: pick(t, "off", 0, 1, 100, 4096, 6000), Len: pick(t, "len", 2, 7, 100, 4096, 5000),
		Shrink: pick(t, "shrink", 1, 3, 64, 4096), ParkAt: rapid.IntRange(1, 4).Draw(t, "park"), ModeOnly: rapid.IntRange(0, 2).Draw(t, "modeonly") == 0}
}

func runC01s(tb stat.TB, c c01sCase) {
	const id, check = "C01", "TestC01Shrink"
	const fillBase, fillA = 0x11, 0xAA
	v := vfs.New()
	base := make([]byte, c.Base)
	for i := range base {
		base[i] = fillBase
	}
	v.SeedFile("/s0", 0644, 0, 0, base)
	s := newSession(tb, v, absnfs.ExportOptions{AttrCacheTimeout: 1, AttrCacheSize: 2})
	defer s.close()
	var armed atomic.Bool
	var mu sync.Mutex
	seen := 0
	parked, gate := make(chan struct{}), make(chan struct{})
	var gateOnce sync.Once
	release := func() { gateOnce.Do(func() { close(gate) }) }
	defer release()
	v.SetBefore(func(call *vfs.Call) {
		if !armed.Load() {
			return
		}
		mu.Lock()
		seen++
		hit := seen == c.ParkAt
		if hit {
			armed.Store(false)
		}
		mu.Unlock()
		if hit {
			close(parked)
			<-gate
		}
	})
	var res *nfsx.Res
	modeOnlyJudged := false
	aDone := make(chan struct{})
	started := false
	wasParked := false
	abandoned := guard(func() {
		root := s.mount()
		lr := s.nfs(nfsx.ProcLookup, nfsx.ArgsDirop(root, "s0"))
		if lr.Status != nfsx.OK {
			tb.Fatalf("harness: lookup: %s", statusName(lr.Status))
		}
		data := make([]byte, c.Len)
		for i := range data {
			data[i] = fillA
		}
		if c.ModeOnly {
			var sres, wres *nfsx.Res
			armed.Store(true)
			started = true
			go func() {
				defer close(aDone)
				defer func() { recover() }()
				sres = s.nfs(nfsx.ProcSetattr, nfsx.ArgsSetattr(lr.Fh, nfsx.Sattr{Mode: nfsx.U32p(0600)}, nil))
			}()
			select {
			case <-parked:
				wasParked = true
			case <-aDone:
			case <-time.After(10 * time.Second):
				release()
				tb.Fatalf("harness: SETATTR neither parked nor returned")
			}
			wd := make(chan struct{})
			go func() {
				defer close(wd)
				defer func() { recover() }()
				wres = s.nfs(nfsx.ProcWrite, nfsx.ArgsWrite(lr.Fh, uint64(c.Off), uint32(c.Len), nfsx.FileSync, data))
			}()
			select {
			case <-wd:
			case <-time.After(300 * time.Millisecond):
				release() // (an implementation may serialise the requests of one file)
				<-wd
			}
			release()
			select {
			case <-aDone:
			case <-time.After(20 * time.Second):
				tb.Fatalf("harness: SETATTR did not return after release")
			}
			res = nil
			if wres == nil || wres.Status != nfsx.OK || int(wres.Count) != c.Len || sres == nil {
				return
			}
			want := append([]byte(nil), base...)
			for len(want) < c.Off+c.Len {
				want = append(want, 0)
			}
			for i := 0; i < c.Len; i++ {
				want[c.Off+i] = fillA
			}
			got, size, ok := v.PeekRead("/s0", 0, 1<<16)
			if !ok {
				tb.Fatalf("harness: /s0 vanished")
			}
			modeOnlyJudged = true
			if int(size) != len(want) || string(got) != string(want) {
				stat.Violate(tb, id, check, "acknowledged-write-undone-by-mode-only-setattr", c, "WRITE offset=%d of %d bytes replied OK count=%d while a SETATTR(mode only, %s) of the same file was parked at its backend call #%d; afterwards the backend file is %d bytes long (want %d) and differs from the model at byte %d", c.Off, c.Len, wres.Count, statusName(sres.Status), c.ParkAt, size, len(want), firstDiff(got, want))
			}
			return
		}
		armed.Store(true)
		started = true
		go func() {
			defer close(aDone)
			defer func() { recover() }()
			res = s.nfs(nfsx.ProcWrite, nfsx.ArgsWrite(lr.Fh, uint64(c.Off), uint32(c.Len), nfsx.FileSync, data))
		}()
		select {
		case <-parked:
			wasParked = true
			ud := make(chan struct{})
			go func() {
				defer close(ud)
				s.e.NFS.UpdateTuningOptions(func(t *absnfs.TuningOptions) { t.TransferSize = c.Shrink })
			}()
			select {
			case <-ud:
			case <-time.After(300 * time.Millisecond):
				release() // (an implementation may make the update wait for the request)
				<-ud
			}
		case <-aDone:
		case <-time.After(10 * time.Second):
			release()
			tb.Fatalf("harness: WRITE neither parked nor returned")
		}
		release()
		select {
		case <-aDone:
		case <-time.After(20 * time.Second):
			tb.Fatalf("harness: WRITE did not return after release")
		}
		if res == nil || res.Status != nfsx.OK {
			return
		}
		n := int(res.Count)
		if n > c.Len {
			stat.Violate(tb, id, check, "write-count-exceeds-payload", c, "WRITE of %d bytes replied count=%d", c.Len, n)
			return
		}
		want := append([]byte(nil), base...)
		for len(want) < c.Off+n {
			want = append(want, 0)
		}
		for i := 0; i < n; i++ {
			want[c.Off+i] = fillA
		}
		got, size, ok := v.PeekRead("/s0", 0, 1<<16)
		if !ok {
			tb.Fatalf("harness: /s0 vanished")
		}
		if int(size) != len(want) || string(got) != string(want) {
			stored := 0
			for i := 0; i < c.Len && c.Off+i < len(got) && got[c.Off+i] == fillA; i++ {
				stored++
			}
			stat.Violate(tb, id, check, "write-count-differs-from-stored", c, "WRITE offset=%d of %d bytes (TransferSize lowered to %d while it was parked at backend call #%d) replied OK count=%d; the backend file is %d bytes long and holds %d payload byte(s) at the offset (a file with exactly the first %d stored would be %d bytes long)", c.Off, c.Len, c.Shrink, c.ParkAt, n, size, stored, n, len(want))
		}
	})
	release()
	if started {
		<-aDone
	}
	if abandoned {
		return
	}
	if c.ModeOnly {
		stat.Case(c, wasParked && modeOnlyJudged, "mode_only_setattr_beside_write")
		return
	}
	stat.Case(c, wasParked && res != nil && res.Status == nfsx.OK && int(res.Count) < c.Len)
}

var propC01s = defProp("C01", "TestC01Shrink", genC01s, runC01s)

func TestC01Shrink(t *testing.T) { propC01s.Test(t) }
