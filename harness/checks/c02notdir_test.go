package checks

// C02, handles that do not name a directory, over a backend that does not police directory-ness itself: memfs accepts
// a Rename, Mkdir or create below a regular file (the reference backend vfs answers ENOTDIR like a POSIX filesystem).
// A POSIX tree has no entries below a file or a symbolic link, so every request that uses the handle of a regular file
// or of a symlink as its directory must fail and leave the tree unchanged whatever the backend would have allowed.

import (
	"fmt"
	"io"
	"os"
	"path"
	"sort"
	"strings"
	"testing"

	"github.com/absfs/absfs"
	"github.com/absfs/absnfs"
	"github.com/absfs/memfs"
	"pgregory.net/rapid"

	"verif/harness/nfsx"
	"verif/harness/stat"
	"verif/harness/vfs"
)

type c02nCase struct {
	Backend string   `json:"backend"` // memfs | vfs
	Op      string   `json:"op"`      // create mkdir symlink rename_dst rename_src remove rmdir lookup readdir readdirplus
	Handle  string   `json:"handle"`  // f (regular file) | l (symlink to the directory d) | lf (symlink to the file)
	How     uint32   `json:"how"`
	Cache   cacheCfg `json:"cache"`
}

func genC02n(t *rapid.T) c02nCase {
	return c02nCase{Backend: pick(t, "backend", "memfs", "memfs", "vfs"), Op: pick(t, "op", "create", "mkdir", "symlink", "rename_dst", "rename_dst", "rename_src", "remove", "rmdir", "lookup", "readdir", "readdirplus"),
		Handle: pick(t, "handle", "f", "f", "l", "lf"), How: pick(t, "how", uint32(nfsx.Unchecked), nfsx.Guarded, nfsx.Exclusive),
		Cache: cacheCfg{AttrTTLns: pick(t, "ttl", int64(1), int64(3600e9)), AttrSize: pick(t, "asize", 1, 10000), DirCache: rapid.Bool().Draw(t, "dc"), Negative: rapid.Bool().Draw(t, "neg"), Conn: rapid.IntRange(0, 3).Draw(t, "conn") == 0}}
}

// fsTree lists every path of a backend with its kind (and size / target), through the absfs interface only.
func fsTree(fs absfs.SymlinkFileSystem) string {
	var out []string
	var walk func(p string)
	walk = func(p string) {
		info, err := fs.Lstat(p)
		if err != nil {
			out = append(out, p+" ?"+err.Error())
			return
		}
		switch {
		case info.Mode()&os.ModeSymlink != 0:
			t, _ := fs.Readlink(p)
			out = append(out, p+" l->"+t)
		case info.IsDir():
			out = append(out, p+" d")
			d, err := fs.OpenFile(p, os.O_RDONLY, 0)
			if err != nil {
				return
			}
			ents, rerr := d.Readdir(-1)
			d.Close()
			if rerr != nil && rerr != io.EOF {
				return
			}
			var names []string
			for _, e := range ents {
				if e.Name() != "." && e.Name() != ".." {
					names = append(names, e.Name())
				}
			}
			sort.Strings(names)
			for _, n := range names {
				walk(path.Join(p, n))
			}
		default:
			out = append(out, fmt.Sprintf("%s f%d", p, info.Size()))
		}
	}
	walk("/")
	return strings.Join(out, "\n")
}

func runC02n(tb stat.TB, c c02nCase) {
	const id, check = "C02", "TestC02NotDir"
	var fs absfs.SymlinkFileSystem
	var v *vfs.FS
	if c.Backend == "memfs" {
		m, err := memfs.NewFS()
		if err != nil {
			tb.Fatalf("harness: memfs: %v", err)
		}
		fs = m
	} else {
		v = vfs.New()
		fs = v
	}
	mk := func(err error) {
		if err != nil {
			tb.Fatalf("harness: backend setup: %v", err)
		}
	}
	mk(fs.Mkdir("/d", 0755))
	mk(fs.Mkdir("/d/sub", 0755))
	mk(fs.Mkdir("/a", 0755))
	mk(fs.Mkdir("/a/b", 0755))
	wr := func(p, data string) {
		f, err := fs.OpenFile(p, os.O_CREATE|os.O_WRONLY, 0644)
		mk(err)
		f.Write([]byte(data))
		f.Close()
	}
	wr("/f", "regular file")
	wr("/d/inner", "x")
	mk(fs.Symlink("d", "/l"))
	mk(fs.Symlink("f", "/lf"))
	opts := newOpts(c.Cache)
	s := newSessionOn(tb, fs, v, opts)
	defer s.close()
	s.e.ViaConn = c.Cache.Conn
	guard(func() {
		root := s.mount()
		hr := s.nfs(nfsx.ProcLookup, nfsx.ArgsDirop(root, c.Handle))
		dr := s.nfs(nfsx.ProcLookup, nfsx.ArgsDirop(root, "d"))
		ar := s.nfs(nfsx.ProcLookup, nfsx.ArgsDirop(root, "a"))
		if hr.Status != nfsx.OK || dr.Status != nfsx.OK || ar.Status != nfsx.OK {
			stat.Discard(false)
			panic(abandon{"setup lookups"})
		}
		h := hr.Fh
		pre := fsTree(fs)
		var res *nfsx.Res
		switch c.Op {
		case "create":
			res = s.nfs(nfsx.ProcCreate, nfsx.ArgsCreate(h, "new", c.How, nfsx.Sattr{}, [8]byte{1}))
		case "mkdir":
			res = s.nfs(nfsx.ProcMkdir, nfsx.ArgsMkdir(h, "new", nfsx.Sattr{}))
		case "symlink":
			res = s.nfs(nfsx.ProcSymlink, nfsx.ArgsSymlink(h, "new", nfsx.Sattr{}, "f"))
		case "rename_dst":
			res = s.nfs(nfsx.ProcRename, nfsx.ArgsRename(ar.Fh, "b", h, "b"))
		case "rename_src":
			res = s.nfs(nfsx.ProcRename, nfsx.ArgsRename(h, "inner", ar.Fh, "moved"))
		case "remove":
			res = s.nfs(nfsx.ProcRemove, nfsx.ArgsDirop(h, "inner"))
		case "rmdir":
			res = s.nfs(nfsx.ProcRmdir, nfsx.ArgsDirop(h, "sub"))
		case "lookup":
			res = s.nfs(nfsx.ProcLookup, nfsx.ArgsDirop(h, "inner"))
		case "readdir":
			res = s.nfs(nfsx.ProcReaddir, nfsx.ArgsReaddir(h, 0, [8]byte{}, 4096))
		case "readdirplus":
			res = s.nfs(nfsx.ProcReaddirplus, nfsx.ArgsReaddirplus(h, 0, [8]byte{}, 4096, 8192))
		}
		post := fsTree(fs)
		what := fmt.Sprintf("%s with the handle of /%s (%s) as its directory, backend %s", strings.ToUpper(c.Op), c.Handle, map[string]string{"f": "a regular file", "l": "a symbolic link to a directory", "lf": "a symbolic link to a file"}[c.Handle], c.Backend)
		if res.Status == nfsx.OK {
			stat.Violate(tb, id, check, "request-through-non-directory-handle-succeeds:"+c.Op, c, "%s replied NFS3_OK", what)
			return
		}
		if pre != post {
			stat.Violate(tb, id, check, "failed-request-changed-tree:"+c.Op, c, "%s replied %s but the backend tree changed:\nbefore:\n%s\nafter:\n%s", what, statusName(res.Status), pre, post)
			return
		}
	})
	stat.Case(c, true, "backend_"+c.Backend, "handle_"+c.Handle)
}

var propC02n = defProp("C02", "TestC02NotDir", genC02n, runC02n)

func TestC02NotDir(t *testing.T) { propC02n.Test(t) }

var _ = absnfs.ExportOptions{}
