package checks

// C13 XDR, RPC and record-marking codecs are exact and bounded.
//
// Oracles: round trip with exact consumption (sentinel bytes), byte-for-byte
// differential against the independent nfsx encoders, rejection of over-limit
// lengths without allocating (runtime.MemStats), no panic on truncation, and
// record reassembly over arbitrary fragmentations.

import (
	"bytes"
	"encoding/binary"
	"fmt"
	"io"
	"runtime"
	"strings"
	"testing"

	"github.com/absfs/absnfs"
	"pgregory.net/rapid"

	"verif/harness/nfsx"
	"verif/harness/stat"
)

type c13Case struct {
	Kind   string   `json:"kind"` // string fh call authsys reply record writer hugelen
	Len    int      `json:"len"`
	Fill   byte     `json:"fill"`
	NUL    bool     `json:"nul"`
	Cut    int      `json:"cut"` // -1 none, else truncate the encoding to Cut bytes
	Frags  []int    `json:"frags,omitempty"`
	U      []uint32 `json:"u,omitempty"`
	Huge   uint32   `json:"huge,omitempty"`
	Where  string   `json:"where,omitempty"` // which length field carries Huge
	FragSz int      `json:"fragsz,omitempty"`
	// Chunks: the transport hands the stream to the reader in pieces of these
	// sizes (cyclically), as TCP does; empty = everything available at once.
	Chunks []int `json:"chunks,omitempty"`
}

// chunkReader delivers at most chunks[i] bytes per Read call.
type chunkReader struct {
	r      io.Reader
	chunks []int
	i      int
}

func (c *chunkReader) Read(p []byte) (int, error) {
	if len(c.chunks) > 0 && len(p) > 0 {
		n := c.chunks[c.i%len(c.chunks)]
		c.i++
		if n < 1 {
			n = 1
		}
		if n < len(p) {
			p = p[:n]
		}
	}
	return c.r.Read(p)
}

func (c c13Case) transport(b []byte) io.Reader {
	if len(c.Chunks) == 0 {
		return bytes.NewReader(b)
	}
	return &chunkReader{r: bytes.NewReader(b), chunks: c.Chunks}
}

func c13Bytes(n int, fill byte, nul bool) []byte {
	b := make([]byte, n)
	for i := range b {
		b[i] = (fill + byte(i*13)) | 1
	}
	if nul && n > 0 {
		b[n/2] = 0
	}
	return b
}

var c13Lens = []int{0, 1, 2, 3, 4, 5, 6, 7, 8, 9}

func genC13(t *rapid.T) c13Case {
	c := c13Case{Kind: pick(t, "kind", "string", "string", "fh", "call", "authsys", "reply", "record", "record", "writer", "hugelen"), Cut: -1, Fill: rapid.Byte().Draw(t, "fill")}
	limit := map[string]int{"string": 8192, "fh": 64, "call": 400, "authsys": 16, "reply": 400, "record": 1 << 20, "writer": 1 << 20}[c.Kind]
	switch rapid.IntRange(0, 3).Draw(t, "lenclass") {
	case 0:
		c.Len = rapid.SampledFrom(c13Lens).Draw(t, "small")
	case 1:
		c.Len = limit + rapid.IntRange(-1, 1).Draw(t, "boundary")
	default:
		c.Len = rapid.IntRange(0, limit+2).Draw(t, "len")
	}
	if c.Kind == "record" || c.Kind == "writer" {
		if rapid.IntRange(0, 4).Draw(t, "bigrec") != 0 {
			c.Len = rapid.IntRange(0, 5000).Draw(t, "reclen")
		}
		c.Frags = rapid.SliceOfN(rapid.IntRange(0, 9), 0, 12).Draw(t, "frags")
		if rapid.Bool().Draw(t, "bigfrags") {
			c.Frags = append(c.Frags, rapid.IntRange(0, c.Len+1).Draw(t, "bf"))
		}
		c.FragSz = pick(t, "fragsz", 1, 2, 3, 4, 7, 1024, 1<<20, 1<<20+1, 0, -1)
		if rapid.Bool().Draw(t, "chunked") {
			c.Chunks = rapid.SliceOfN(rapid.IntRange(1, 9), 1, 6).Draw(t, "chunks")
		}
	} else if rapid.IntRange(0, 2).Draw(t, "chunked") == 0 {
		// a transport that hands the bytes over in small pieces (TCP segments): decoders must read what they need
		c.Chunks = rapid.SliceOfN(rapid.IntRange(1, 9), 1, 6).Draw(t, "chunks")
	}
	c.NUL = c.Kind == "string" && rapid.IntRange(0, 5).Draw(t, "nul") == 0
	if rapid.IntRange(0, 3).Draw(t, "cutp") == 0 {
		c.Cut = rapid.IntRange(0, 40).Draw(t, "cut")
	}
	if c.Kind == "call" || c.Kind == "authsys" || c.Kind == "reply" {
		c.U = rapid.SliceOfN(rapid.Uint32(), 8, 8).Draw(t, "u")
	}
	if c.Kind == "hugelen" {
		c.Huge = pick(t, "huge", uint32(1<<26), 1<<27, 1<<30, 1<<31-1, 1<<31, 1<<32-1, 8193, 401, 65, 1<<20+1, 32768, 65536, 100000, 500000, 1<<20)
		c.Where = pick(t, "where", "string", "fh", "cred", "verf", "fragment", "authsys-name", "authsys-gids")
	}
	return c
}

func allocDuring(f func()) uint64 {
	var a, b runtime.MemStats
	runtime.ReadMemStats(&a)
	f()
	runtime.ReadMemStats(&b)
	return b.TotalAlloc - a.TotalAlloc
}

func noPanic(f func()) (p any) {
	defer func() { p = recover() }()
	f()
	return nil
}

var c13Sentinel = []byte{0xDE, 0xAD, 0xBE, 0xEF, 0x11, 0x22, 0x33, 0x44}

func runC13(tb stat.TB, c c13Case) {
	const id, check = "C13", "TestC13"
	nt := c.Len%4 != 0 || len(c.Frags) >= 2 || c.Kind == "hugelen"
	viol := func(sig, format string, a ...any) bool {
		return stat.Violate(tb, id, check, sig, c, format, a...)
	}
	cut := func(b []byte) ([]byte, bool) {
		if c.Cut >= 0 && c.Cut < len(b) {
			return b[:c.Cut], true
		}
		return b, false
	}
	switch c.Kind {
	case "string":
		payload := c13Bytes(c.Len, c.Fill, c.NUL)
		enc := (&nfsx.W{}).Str(string(payload)).B
		var own bytes.Buffer
		if err := absnfs.VerifXdrEncodeString(&own, string(payload)); err != nil || !bytes.Equal(own.Bytes(), enc) {
			if viol("string-encoding-differs-from-rfc", "xdrEncodeString(len %d) = %x…, RFC 4506 encoding %x…", c.Len, head(own.Bytes()), head(enc)) {
				return
			}
		}
		in, truncated := cut(enc)
		r := c.transport(append(append([]byte{}, in...), c13Sentinel...))
		if truncated {
			r = c.transport(in)
		}
		var s string
		var err error
		if p := noPanic(func() { s, err = absnfs.VerifXdrDecodeString(r) }); p != nil {
			viol("decoder-panics", "xdrDecodeString panicked on %d bytes: %v", len(in), p)
			return
		}
		switch {
		case truncated:
			if err == nil {
				viol("truncated-input-decodes", "xdrDecodeString accepted an encoding cut to %d of %d bytes", len(in), len(enc))
				return
			}
			nt = true
		case c.Len > 8192:
			if err == nil {
				viol("over-limit-string-accepted", "xdrDecodeString accepted a %d-byte string (limit 8192)", c.Len)
				return
			}
		case c.NUL && c.Len > 0:
			if err == nil {
				viol("nul-string-accepted", "xdrDecodeString accepted a string containing NUL")
				return
			}
		default:
			if err != nil || s != string(payload) {
				viol("string-round-trip-differs", "xdrDecodeString(encode(%d bytes)) = (%d bytes, %v)", c.Len, len(s), err)
				return
			}
			rest := make([]byte, 16)
			n, _ := io.ReadFull(r, rest)
			if !bytes.Equal(rest[:n], c13Sentinel) {
				viol("decoder-consumes-wrong-length", "after decoding a %d-byte string the reader is not at the sentinel (rest %x)", c.Len, rest[:n])
				return
			}
		}
	case "fh":
		payload := c13Bytes(c.Len, c.Fill, false)
		enc := (&nfsx.W{}).Opaque(payload).B
		if c.Len == 8 {
			var own bytes.Buffer
			absnfs.VerifXdrEncodeFileHandle(&own, binary.BigEndian.Uint64(payload))
			if !bytes.Equal(own.Bytes(), enc) {
				if viol("fh-encoding-differs-from-rfc", "xdrEncodeFileHandle = %x, RFC encoding %x", own.Bytes(), enc) {
					return
				}
			}
		}
		in, truncated := cut(enc)
		full := append(append([]byte{}, in...), c13Sentinel...)
		if truncated {
			full = in
		}
		r := c.transport(full)
		var h uint64
		var err error
		if p := noPanic(func() { h, err = absnfs.VerifXdrDecodeFileHandle(r) }); p != nil {
			viol("decoder-panics", "xdrDecodeFileHandle panicked: %v", p)
			return
		}
		switch {
		case truncated:
			if err == nil {
				viol("truncated-input-decodes", "xdrDecodeFileHandle accepted an encoding cut to %d of %d bytes", len(in), len(enc))
				return
			}
			nt = true
		case c.Len == 8:
			if err != nil || h != binary.BigEndian.Uint64(payload) {
				viol("fh-round-trip-differs", "handle %x decoded as %x (%v)", payload, h, err)
				return
			}
			rest := make([]byte, 16)
			n, _ := io.ReadFull(r, rest)
			if !bytes.Equal(rest[:n], c13Sentinel) {
				viol("decoder-consumes-wrong-length", "after decoding a handle the reader is not at the sentinel (rest %x)", rest[:n])
				return
			}
		default:
			if err == nil {
				viol("bad-length-handle-accepted", "xdrDecodeFileHandle accepted a %d-byte handle", c.Len)
				return
			}
			if c.Len <= 64 {
				// rejected, but the stream must stay in sync: exactly the padded handle consumed
				rest := make([]byte, 16)
				n, _ := io.ReadFull(r, rest)
				if !bytes.Equal(rest[:n], c13Sentinel) {
					viol("decoder-consumes-wrong-length", "after rejecting a %d-byte handle the reader is not at the sentinel (rest %x)", c.Len, rest[:n])
					return
				}
			}
		}
	case "call":
		credBody := c13Bytes(c.Len, c.Fill, false)
		verfBody := c13Bytes(int(c.U[6]%9), c.Fill+1, false)
		args := c13Sentinel
		msg := nfsx.Call(c.U[0], c.U[1], c.U[2], c.U[3], nfsx.Auth{Flavor: c.U[4], Body: credBody}, nfsx.Auth{Flavor: c.U[5], Body: verfBody}, args)
		// rpcvers is fixed to 2 by nfsx.Call; DecodeRPCCall does not check it
		in, truncated := cut(msg[:len(msg)-len(args)])
		if !truncated {
			in = msg
		}
		r := c.transport(in)
		var call *absnfs.RPCCall
		var err error
		if p := noPanic(func() { call, err = absnfs.DecodeRPCCall(r) }); p != nil {
			viol("decoder-panics", "DecodeRPCCall panicked: %v", p)
			return
		}
		switch {
		case truncated:
			if err == nil {
				viol("truncated-input-decodes", "DecodeRPCCall accepted a header cut to %d bytes", len(in))
				return
			}
			nt = true
		case c.Len > 400:
			if err == nil {
				viol("over-limit-auth-accepted", "DecodeRPCCall accepted a %d-byte credential (limit 400)", c.Len)
				return
			}
		default:
			if err != nil {
				viol("valid-call-rejected", "DecodeRPCCall rejected a valid call: %v", err)
				return
			}
			hd := call.Header
			if hd.Xid != c.U[0] || hd.Program != c.U[1] || hd.Version != c.U[2] || hd.Procedure != c.U[3] || hd.RPCVersion != 2 ||
				call.Credential.Flavor != c.U[4] || !bytes.Equal(call.Credential.Body, credBody) || call.Verifier.Flavor != c.U[5] || !bytes.Equal(call.Verifier.Body, verfBody) {
				viol("call-round-trip-differs", "decoded header %+v cred %d/%x verf %d/%x differs from what was encoded", hd, call.Credential.Flavor, head(call.Credential.Body), call.Verifier.Flavor, call.Verifier.Body)
				return
			}
			rest := make([]byte, 16)
			n, _ := io.ReadFull(r, rest)
			if !bytes.Equal(rest[:n], c13Sentinel) {
				viol("decoder-consumes-wrong-length", "after DecodeRPCCall the reader is not at the arguments (rest %x)", rest[:n])
				return
			}
		}
	case "authsys":
		n := c.Len
		gids := make([]uint32, n)
		for i := range gids {
			gids[i] = c.U[i%8] + uint32(i)
		}
		name := strings.Repeat("m", int(c.U[7]%40))
		a := nfsx.AuthSys(c.U[0], name, c.U[1], c.U[2], gids)
		in, truncated := cut(a.Body)
		var cred *absnfs.AuthSysCredential
		var err error
		if p := noPanic(func() { cred, err = absnfs.ParseAuthSysCredential(in) }); p != nil {
			viol("decoder-panics", "ParseAuthSysCredential panicked: %v", p)
			return
		}
		switch {
		case truncated:
			if err == nil && c.Cut%4 == 0 {
				// a cut inside the body must be noticed (a cut may only be legal if nothing follows)
				viol("truncated-input-decodes", "ParseAuthSysCredential accepted a body cut to %d of %d bytes", len(in), len(a.Body))
				return
			}
			nt = true
		case n > 16:
			if err == nil {
				viol("over-limit-gids-accepted", "ParseAuthSysCredential accepted %d auxiliary gids (limit 16)", n)
				return
			}
		default:
			if err != nil || cred.Stamp != c.U[0] || cred.MachineName != name || cred.UID != c.U[1] || cred.GID != c.U[2] || fmt.Sprint(cred.AuxGIDs) != fmt.Sprint(gids) {
				viol("authsys-round-trip-differs", "decoded %+v (%v), encoded stamp %d name %q %d/%d gids %v", cred, err, c.U[0], name, c.U[1], c.U[2], gids)
				return
			}
		}
	case "reply":
		// absnfs encoder vs nfsx strict decoder
		verf := c13Bytes(c.Len%401, c.Fill, false)
		data := c13Bytes(int(c.U[6]%64)*4, c.Fill+3, false)
		rp := &absnfs.RPCReply{Header: absnfs.RPCMsgHeader{Xid: c.U[0]}, Status: c.U[1] % 2, AcceptStatus: c.U[2] % 6, Verifier: absnfs.RPCVerifier{Flavor: c.U[3], Body: verf}, Data: data}
		var buf bytes.Buffer
		if err := absnfs.EncodeRPCReply(&buf, rp); err != nil {
			viol("reply-encode-fails", "EncodeRPCReply: %v", err)
			return
		}
		got, err := nfsx.ParseReply(buf.Bytes())
		if err != nil {
			viol("reply-encoding-not-rfc1831", "EncodeRPCReply(status %d accept %d verf %d bytes) is not a well-formed reply: %v", rp.Status, rp.AcceptStatus, len(verf), err)
			return
		}
		if got.Xid != c.U[0] || got.Stat != rp.Status || (rp.Status == 0 && (got.AcceptStat != rp.AcceptStatus || got.Verf.Flavor != c.U[3] || !bytes.Equal(got.Verf.Body, verf))) ||
			(rp.Status == 0 && rp.AcceptStatus == 0 && !bytes.Equal(got.Body, data)) {
			viol("reply-round-trip-differs", "reply decoded as %+v", got)
			return
		}
	case "record", "writer":
		rec := c13Bytes(c.Len, c.Fill, false)
		if c.Kind == "record" {
			stream := nfsx.Frame(rec, c.Frags...)
			in, truncated := cut(stream)
			rd := absnfs.NewRecordMarkingReader(c.transport(append(append([]byte{}, in...), nfsx.Frame(c13Sentinel)...)))
			if truncated {
				rd = absnfs.NewRecordMarkingReader(c.transport(in))
			}
			var out []byte
			var err error
			var alloc uint64
			if p := noPanic(func() { alloc = allocDuring(func() { out, err = rd.ReadRecord() }) }); p != nil {
				viol("decoder-panics", "ReadRecord panicked: %v", p)
				return
			}
			switch {
			case truncated:
				if err == nil && !bytes.Equal(out, rec) {
					viol("truncated-input-decodes", "ReadRecord returned %d bytes from a stream cut to %d of %d bytes", len(out), len(in), len(stream))
					return
				}
				nt = true
			case c.Len > 1<<20:
				if err == nil {
					viol("over-limit-record-accepted", "ReadRecord accepted a %d-byte record (limit 1 MiB)", c.Len)
					return
				}
				if alloc > 3<<20 {
					viol("over-limit-record-allocates", "rejecting a %d-byte record allocated %d bytes", c.Len, alloc)
					return
				}
			default:
				if err != nil || !bytes.Equal(out, rec) {
					viol("record-reassembly-differs", "ReadRecord over fragments %v (delivered in chunks %v) of a %d-byte record returned %d bytes, err %v", c.Frags, c.Chunks, c.Len, len(out), err)
					return
				}
				next, err2 := rd.ReadRecord()
				if err2 != nil || !bytes.Equal(next, c13Sentinel) {
					viol("decoder-consumes-wrong-length", "the record after a %d-byte record fragmented as %v reads as %x (%v)", c.Len, c.Frags, head(next), err2)
					return
				}
			}
		} else {
			var wire bytes.Buffer
			w := absnfs.NewRecordMarkingWriterWithSize(&wire, c.FragSz)
			if err := w.WriteRecord(rec); err != nil {
				viol("write-record-fails", "WriteRecord(%d bytes, fragment %d): %v", c.Len, c.FragSz, err)
				return
			}
			// a second record behind it on the same stream: the writer leaves nothing between or after records
			if err := w.WriteRecord(c13Sentinel); err != nil {
				viol("write-record-fails", "WriteRecord of a second record behind a %d-byte one (fragment %d): %v", c.Len, c.FragSz, err)
				return
			}
			// independent reader
			ir := bytes.NewReader(wire.Bytes())
			out, err := nfsx.ReadRecord(ir, 4<<20)
			if err != nil || !bytes.Equal(out, rec) {
				viol("written-record-not-rfc1831", "WriteRecord(%d bytes, fragment %d) does not reassemble: %d bytes, %v", c.Len, c.FragSz, len(out), err)
				return
			}
			if next, err := nfsx.ReadRecord(ir, 4<<20); err != nil || !bytes.Equal(next, c13Sentinel) || ir.Len() != 0 {
				viol("written-stream-not-rfc1831", "the record written behind a %d-byte record (fragment %d) reads back as %x (%v), %d stray byte(s) after it", c.Len, c.FragSz, head(next), err, ir.Len())
				return
			}
			if c.Len <= 1<<20 {
				ar := absnfs.NewRecordMarkingReader(bytes.NewReader(wire.Bytes()))
				out2, err := ar.ReadRecord()
				if err != nil || !bytes.Equal(out2, rec) {
					viol("write-then-read-not-identity", "ReadRecord(WriteRecord(%d bytes, fragment %d)) = %d bytes, %v", c.Len, c.FragSz, len(out2), err)
					return
				}
				if next, err := ar.ReadRecord(); err != nil || !bytes.Equal(next, c13Sentinel) {
					viol("write-then-read-not-identity", "the second record written behind a %d-byte one (fragment %d) reads back as %x (%v)", c.Len, c.FragSz, head(next), err)
					return
				}
			}
			if c.FragSz > 1 && c.FragSz < c.Len {
				nt = true
			}
		}
	case "hugelen":
		var in []byte
		var run func() error
		w := &nfsx.W{}
		switch c.Where {
		case "string":
			in = w.U32(c.Huge).Raw([]byte("abcd")).B
			run = func() error { _, err := absnfs.VerifXdrDecodeString(bytes.NewReader(in)); return err }
		case "fh":
			in = w.U32(c.Huge).Raw([]byte("abcdefgh")).B
			run = func() error { _, err := absnfs.VerifXdrDecodeFileHandle(bytes.NewReader(in)); return err }
		case "cred", "verf":
			w.U32(1).U32(0).U32(2).U32(100003).U32(3).U32(0)
			if c.Where == "cred" {
				w.U32(1).U32(c.Huge)
			} else {
				w.U32(0).U32(0).U32(0).U32(c.Huge)
			}
			in = w.Raw([]byte("abcdefgh")).B
			run = func() error { _, err := absnfs.DecodeRPCCall(bytes.NewReader(in)); return err }
		case "fragment":
			in = w.U32(c.Huge | 0x80000000).Raw([]byte("abcdefgh")).B
			if c.Huge >= 1<<31 {
				in = (&nfsx.W{}).U32(c.Huge & 0x7fffffff).Raw([]byte("abcdefgh")).B
			}
			run = func() error {
				_, err := absnfs.NewRecordMarkingReader(bytes.NewReader(in)).ReadRecord()
				return err
			}
		case "authsys-name":
			in = w.U32(1).U32(c.Huge).Raw([]byte("abcd")).B
			run = func() error { _, err := absnfs.ParseAuthSysCredential(in); return err }
		case "authsys-gids":
			in = w.U32(1).Str("h").U32(0).U32(0).U32(c.Huge).U32(1).B
			run = func() error { _, err := absnfs.ParseAuthSysCredential(in); return err }
		}
		var err error
		var alloc uint64
		if p := noPanic(func() { alloc = allocDuring(func() { err = run() }) }); p != nil {
			viol("decoder-panics", "declared length %d in %s: panic %v", c.Huge, c.Where, p)
			return
		}
		if err == nil {
			viol("huge-declared-length-accepted", "declared length %d in %s backed by %d bytes was accepted", c.Huge, c.Where, len(in))
			return
		}
		// "rejected before any allocation of that size": a declared length beyond the field's documented limit
		// must not make the decoder allocate anything near it
		limit := map[string]uint32{"string": 8192, "fh": 64, "cred": 400, "verf": 400, "fragment": 1 << 20, "authsys-name": 8192, "authsys-gids": 16}[c.Where]
		bound := uint64(c.Huge&0x7fffffff) / 2
		if bound > 1<<20 {
			bound = 1 << 20
		}
		if c.Huge&0x7fffffff > limit && c.Huge&0x7fffffff >= 32768 && alloc > bound {
			viol("huge-declared-length-allocates", "declared length %d in %s (limit %d): %d bytes allocated before rejection", c.Huge, c.Where, limit, alloc)
			return
		}
	}
	stat.Case(c, nt, "kind_"+c.Kind)
}

func head(b []byte) []byte {
	if len(b) > 24 {
		return b[:24]
	}
	return b
}

var propC13 = defProp("C13", "TestC13", genC13, runC13)

func TestC13(t *testing.T) { propC13.Test(t) }

// FuzzC13Call: DecodeRPCCall must never panic and, when it accepts, must agree with the independent parser.
func FuzzC13Call(f *testing.F) {
	stat.SetProperty("C13")
	f.Add(nfsx.Call(1, 100003, 3, 1, nfsx.AuthSys(1, "h", 0, 0, []uint32{1, 2}), nfsx.AuthNone(), nfsx.ArgsFh(nfsx.Fh8(1))))
	f.Add((&nfsx.W{}).U32(1).U32(0).U32(2).U32(100003).U32(3).U32(0).U32(1).U32(0xFFFFFFFF).B)
	f.Add((&nfsx.W{}).U32(1).U32(0).U32(2).U32(100003).U32(3).U32(0).U32(1).U32(0x7FFFFFFF).B)
	f.Fuzz(func(t *testing.T, data []byte) {
		r := bytes.NewReader(data)
		alloc := allocDuring(func() {})
		var call *absnfs.RPCCall
		var err error
		alloc = allocDuring(func() { call, err = absnfs.DecodeRPCCall(r) })
		if alloc > 1<<20+uint64(16*len(data)) {
			t.Fatalf("VIOLATION-CANDIDATE property=C13 DecodeRPCCall allocated %d bytes for a %d-byte input", alloc, len(data))
		}
		ref, rerr := nfsx.ParseCall(data)
		if err == nil {
			if rerr != nil {
				t.Fatalf("VIOLATION-CANDIDATE property=C13 DecodeRPCCall accepted what the RFC parser rejects: %v", rerr)
			}
			if call.Header.Xid != ref.Xid || call.Header.Program != ref.Prog || call.Header.Version != ref.Vers || call.Header.Procedure != ref.Proc ||
				!bytes.Equal(call.Credential.Body, ref.Cred.Body) || !bytes.Equal(call.Verifier.Body, ref.Verf.Body) || len(data)-r.Len() != ref.ArgsOff {
				t.Fatalf("VIOLATION-CANDIDATE property=C13 DecodeRPCCall disagrees with the RFC parser")
			}
		} else if rerr == nil {
			t.Fatalf("VIOLATION-CANDIDATE property=C13 DecodeRPCCall rejected a call the RFC parser accepts: %v", err)
		}
	})
}

// FuzzC13Record: ReadRecord must never panic nor allocate beyond the record limit.
func FuzzC13Record(f *testing.F) {
	stat.SetProperty("C13")
	f.Add(nfsx.Frame([]byte("hello world"), 3, 0, 4))
	f.Add([]byte{0xff, 0xff, 0xff, 0xff, 1, 2, 3})
	f.Add([]byte{0x7f, 0xff, 0xff, 0xff, 1, 2, 3})
	f.Fuzz(func(t *testing.T, data []byte) {
		var out []byte
		var err error
		alloc := allocDuring(func() { out, err = absnfs.NewRecordMarkingReader(bytes.NewReader(data)).ReadRecord() })
		if alloc > 4<<20 {
			t.Fatalf("VIOLATION-CANDIDATE property=C13 ReadRecord allocated %d bytes for a %d-byte stream", alloc, len(data))
		}
		ref, rerr := nfsx.ReadRecord(bytes.NewReader(data), 1<<20)
		if err == nil && (rerr != nil || !bytes.Equal(out, ref)) {
			t.Fatalf("VIOLATION-CANDIDATE property=C13 ReadRecord returned %d bytes, reference (%d bytes, %v)", len(out), len(ref), rerr)
		}
		if err != nil && rerr == nil {
			t.Fatalf("VIOLATION-CANDIDATE property=C13 ReadRecord rejected a valid stream: %v", err)
		}
	})
}
