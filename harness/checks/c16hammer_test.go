package checks

// C16, last clause: "updates never race with request processing". Phase hammer runs under the race detector: two to
// four clients keep sending requests over established record-marking connections (READDIR, READDIRPLUS, large READ
// and MNT consult the rate limiter inside the handler, every request consults it in the connection loop) while the
// main goroutine issues a sequence of UpdatePolicyOptions / UpdateExportOptions calls that switch rate limiting on
// and off (generous limits) and flip the read-only flag. The oracle is the race detector (a report naming absnfs code
// is a violation, signature data-race) plus: every request is answered with a decodable reply, and every update
// returns.

import (
	"sync"
	"sync/atomic"
	"testing"
	"time"

	"github.com/absfs/absnfs"
	"pgregory.net/rapid"

	"verif/harness/drv"
	"verif/harness/nfsx"
	"verif/harness/stat"
	"verif/harness/vfs"
)

type c16hUpd struct {
	Via string `json:"via"` // policy export
	RL  bool   `json:"rate_limiting"`
	RO  bool   `json:"read_only"`
}

type c16hCase struct {
	Procs []string  `json:"procs"` // one per client: readdir readdirplus read getattr mnt
	Upds  []c16hUpd `json:"updates"`
	Start bool      `json:"start_limited"` // rate limiting is on at construction
}

func genC16h(t *rapid.T) c16hCase {
	c := c16hCase{Start: rapid.Bool().Draw(t, "start")}
	n := rapid.IntRange(2, 4).Draw(t, "clients")
	for i := 0; i < n; i++ {
		c.Procs = append(c.Procs, pick(t, "proc", "readdir", "readdir", "readdirplus", "read", "getattr", "mnt"))
	}
	m := rapid.IntRange(3, 10).Draw(t, "n")
	for i := 0; i < m; i++ {
		c.Upds = append(c.Upds, c16hUpd{Via: pick(t, "via", "policy", "export"), RL: rapid.Bool().Draw(t, "rl"), RO: rapid.Bool().Draw(t, "ro")})
	}
	return c
}

func c16hLimits() *absnfs.RateLimiterConfig {
	rc := absnfs.DefaultRateLimiterConfig()
	rc.GlobalRequestsPerSecond, rc.PerIPRequestsPerSecond, rc.PerIPBurstSize = 1000000, 1000000, 1000000
	rc.PerConnectionRequestsPerSecond, rc.PerConnectionBurstSize = 1000000, 1000000
	rc.ReadLargeOpsPerSecond, rc.WriteLargeOpsPerSecond, rc.ReaddirOpsPerSecond, rc.MountOpsPerMinute = 1000000, 1000000, 1000000, 1000000
	return &rc
}

func runC16h(tb stat.TB, c c16hCase) {
	const id, check = "C16", "TestC16Hammer"
	v := vfs.New()
	v.SeedDir("/d", 0755, 0, 0)
	v.SeedFile("/d/a", 0644, 0, 0, []byte("a"))
	v.SeedFile("/f", 0644, 0, 0, make([]byte, 100))
	opts := absnfs.ExportOptions{AttrCacheTimeout: 1, AttrCacheSize: 4, MaxWorkers: 2}
	if c.Start {
		opts.EnableRateLimiting, opts.RateLimitConfig = true, c16hLimits()
	}
	s := newSession(tb, v, opts)
	defer s.close()
	root := s.mount()
	fr := s.nfs(nfsx.ProcLookup, nfsx.ArgsDirop(root, "f"))
	if fr.Status != nfsx.OK {
		tb.Fatalf("harness: lookup f")
	}
	var stop atomic.Bool
	var answered, unanswered, undecodable atomic.Int64
	var wg sync.WaitGroup
	for i, pr := range c.Procs {
		wg.Add(1)
		go func(i int, pr string) {
			defer wg.Done()
			var pc *drv.PipeConn
			defer func() {
				if pc != nil {
					pc.Close()
				}
			}()
			for !stop.Load() {
				if pc == nil {
					pc = s.e.Pipe("127.0.0.1", 700+i)
				}
				prog, proc, args := uint32(nfsx.ProgNFS), uint32(nfsx.ProcGetattr), nfsx.ArgsFh(root)
				switch pr {
				case "readdir":
					proc, args = nfsx.ProcReaddir, nfsx.ArgsReaddir(root, 0, [8]byte{}, 4096)
				case "readdirplus":
					proc, args = nfsx.ProcReaddirplus, nfsx.ArgsReaddirplus(root, 0, [8]byte{}, 4096, 8192)
				case "read":
					proc, args = nfsx.ProcRead, nfsx.ArgsRead(fr.Fh, 0, 70000)
				case "mnt":
					prog, proc, args = nfsx.ProgMount, 1, (&nfsx.W{}).Str("/").B
				}
				xid := s.e.NextXid()
				if err := pc.Send(nfsx.Call(xid, prog, 3, proc, drv.Root().Cred, nfsx.AuthNone(), args)); err != nil {
					pc.Close()
					pc = nil
					continue
				}
				rec, err := pc.Recv(10 * time.Second)
				if err != nil {
					unanswered.Add(1)
					pc.Close()
					pc = nil
					continue
				}
				if rp, perr := nfsx.ParseReply(rec); perr != nil || rp.Xid != xid {
					undecodable.Add(1)
					continue
				}
				answered.Add(1)
			}
		}(i, pr)
	}
	toggles := 0
	prevRL := c.Start
	stuck := -1
	for i, u := range c.Upds {
		before := answered.Load()
		err, returned := s.bounded(func() error {
			if u.Via == "export" {
				o := s.e.NFS.GetExportOptions()
				o.ReadOnly, o.EnableRateLimiting, o.RateLimitConfig = u.RO, u.RL, nil
				if u.RL {
					o.RateLimitConfig = c16hLimits()
				}
				return s.e.NFS.UpdateExportOptions(o)
			}
			p := absnfs.PolicyOptions{ReadOnly: u.RO, EnableRateLimiting: u.RL}
			if u.RL {
				p.RateLimitConfig = c16hLimits()
			}
			return s.e.NFS.UpdatePolicyOptions(p)
		})
		if !returned {
			stuck = i
			break
		}
		if err != nil {
			stop.Store(true)
			wg.Wait()
			tb.Fatalf("harness: update %d: %v", i, err)
		}
		if u.RL != prevRL {
			toggles++
		}
		prevRL = u.RL
		// let the clients get a few requests through under this policy
		deadline := time.Now().Add(200 * time.Millisecond)
		for answered.Load() < before+int64(len(c.Procs)) && time.Now().Before(deadline) {
			time.Sleep(100 * time.Microsecond)
		}
	}
	stop.Store(true)
	if stuck >= 0 {
		stat.Violate(tb, id, check, "update-never-returns", c, "update #%d did not return within %v while %d clients were sending requests (each of which is answered or times out within 10 s)", stuck, updWait(), len(c.Procs))
		return
	}
	wg.Wait()
	if n := undecodable.Load(); n > 0 {
		if stat.Violate(tb, id, check, "undecodable-reply-beside-update", c, "%d request(s) sent while updates were running got a reply that is no RPC reply to their xid", n) {
			return
		}
	}
	if n := unanswered.Load(); n > 0 {
		stat.Label("request_unanswered_within_10s_beside_updates", n)
	}
	stat.Case(c, toggles > 0 && answered.Load() > int64(len(c.Upds)))
}

var propC16h = defProp("C16", "TestC16Hammer", genC16h, runC16h)

func TestC16Hammer(t *testing.T) { propC16h.Test(t) }
