package checks

// C22 Data acknowledged as stable survives a crash.
//
// Backend: vfs in crash mode (file data reaches the durable image only through
// File.Sync; namespace operations and truncation are journaled). Crash points
// are enumerated exhaustively per history: before every backend operation and
// after every reply the durable image is compared with the byte model of the
// data whose durability has been promised so far. The write verifier must be
// constant within an instance and differ between two instances.

import (
	"bytes"
	"fmt"
	"os"
	"strings"
	"testing"

	"github.com/absfs/absnfs"
	"pgregory.net/rapid"

	"verif/harness/nfsx"
	"verif/harness/stat"
	"verif/harness/vfs"
)

type c22Op struct {
	Kind   string `json:"kind"` // create write commit setsize read
	File   int    `json:"file"`
	Off    int    `json:"off"`
	Len    int    `json:"len"`
	Fill   byte   `json:"fill"`
	Stable uint32 `json:"stable"`
	// FaultAt > 0: the FaultAt-th backend call of this request fails with c14Faults[FaultErr] (disk error, no space ...)
	FaultAt  int `json:"fault_at,omitempty"`
	FaultErr int `json:"fault_err,omitempty"`
}

type c22Case struct {
	Async bool    `json:"async,omitempty"` // ExportOptions.Async at construction
	Ops   []c22Op `json:"ops"`
}

func genC22(t *rapid.T) c22Case {
	var c c22Case
	c.Async = rapid.Bool().Draw(t, "async")
	c.Ops = append(c.Ops, c22Op{Kind: "create", File: 0})
	n := rapid.IntRange(2, 25).Draw(t, "n")
	for i := 0; i < n; i++ {
		op := c22Op{Kind: pick(t, "kind", "write", "write", "write", "write", "write", "write", "write", "write", "commit", "commit", "setsize", "setsize", "read", "read", "create", "create", "toggleasync"), File: rapid.IntRange(0, 1).Draw(t, "file"),
			Off: pick(t, "off", 0, 1, 100, 4095, 4096, 4097, 9000, rapid.IntRange(0, 12000).Draw(t, "roff")), Len: pick(t, "len", 0, 1, 7, 100, 4096, 5000), Fill: rapid.Byte().Draw(t, "fill"),
			Stable: pick(t, "stable", uint32(nfsx.Unstable), nfsx.DataSync, nfsx.FileSync, nfsx.FileSync)}
		if rapid.IntRange(0, 5).Draw(t, "fault") == 0 {
			op.FaultAt, op.FaultErr = rapid.IntRange(1, 10).Draw(t, "fault_at"), pick(t, "fault_err", 0, 0, 8, 9, 15, 17, 33)
		}
		c.Ops = append(c.Ops, op)
	}
	return c
}

const c22Span = 20000 // files stay below this size

func runC22(tb stat.TB, c c22Case) {
	const id, check = "C22", "TestC22"
	v := vfs.New()
	v.CrashMode = true
	faulty := vfs.NewFaulty(v)
	s := newSessionOn(tb, faulty, v, absnfs.ExportOptions{AttrCacheTimeout: 1, AttrCacheSize: 2, Async: c.Async})
	defer s.close()
	faults := 0
	var unknown [2][]struct{ lo, hi int64 } // ranges a failed (faulted) request may have left in any state
	var wrecked [2]bool                      // a failed SETATTR(size): the whole file is in an unknown state
	other, err := absnfs.NewServer(absnfs.ServerOptions{})
	if err != nil {
		tb.Fatalf("harness: %v", err)
	}
	if s.e.Srv.VerifWriteVerf() == other.VerifWriteVerf() {
		if stat.Violate(tb, id, check, "write-verifier-identical-across-instances", c, "two servers created one after the other share the write verifier %x", other.VerifWriteVerf()) {
			return
		}
	}
	var promised [2]byteModel // content whose durability has been promised
	var pending [2]byteModel  // content including acknowledged-but-not-yet-promised (UNSTABLE) writes
	var fhs [2][]byte
	var verf *[8]byte
	crashPoints, ntPoints := 0, 0
	syncedWrites := 0
	type span struct{ lo, hi int64 }
	var inflight map[int]span // byte range of the request in flight, per file
	var failure string
	var failSig string

	checkDurable := func(where string) {
		if failure != "" {
			return
		}
		crashPoints++
		if syncedWrites > 0 {
			ntPoints++
		}
		for i := 0; i < 2; i++ {
			m := &promised[i]
			if !m.exists {
				continue
			}
			name := fmt.Sprintf("/s%d", i)
			got, dsize, ok := v.PeekDurable(name, 0, c22Span)
			if !ok {
				failSig, failure = "promised-file-missing-after-crash", fmt.Sprintf("%s: %s does not exist in the durable image", where, name)
				return
			}
			want := m.read(0, m.size)
			fl, inFl := inflight[i]
			if dsize < m.size && !(inFl && fl.lo == -1) && !wrecked[i] {
				failSig, failure = "stable-data-lost-on-crash", fmt.Sprintf("%s: durable size of %s is %d, but %d bytes were acknowledged as stable", where, name, dsize, m.size)
				return
			}
			if wrecked[i] {
				continue
			}
			for p := int64(0); p < m.size && p < int64(len(got)); p++ {
				if inFl && (fl.lo == -1 || (p >= fl.lo && p < fl.hi)) {
					continue // the request in flight may or may not have reached this byte
				}
				skip := false
				for _, u := range unknown[i] {
					if p >= u.lo && p < u.hi {
						skip = true
					}
				}
				if skip {
					continue // a request that failed on a backend error may have left anything here
				}
				if got[p] != want[p] {
					failSig, failure = "stable-data-lost-on-crash", fmt.Sprintf("%s: byte %d of %s is %#x in the durable image, but %#x was acknowledged as stable (a crash here loses it)", where, p, name, got[p], want[p])
					return
				}
			}
		}
	}
	v.SetBefore(func(call *vfs.Call) { checkDurable("before backend " + call.Op) })

	abandoned := guard(func() {
		root := s.mount()
		for oi, op := range c.Ops {
			if failure != "" {
				break
			}
			name := fmt.Sprintf("s%d", op.File)
			what := fmt.Sprintf("op#%d %s %s", oi, op.Kind, name)
			inflight = map[int]span{}
			faulted := false
			if op.FaultAt > 0 {
				at, ferr := op.FaultAt, c14Faults[op.FaultErr%len(c14Faults)]
				faulty.Arm(func(fop string, paths []string, n int) error {
					if n != at {
						return nil
					}
					faulted = true
					return &os.PathError{Op: strings.ToLower(fop), Path: "/" + name, Err: ferr}
				})
			} else {
				faulty.Arm(nil)
			}
			switch op.Kind {
			case "create":
				res := s.nfs(nfsx.ProcCreate, nfsx.ArgsCreate(root, name, nfsx.Unchecked, nfsx.Sattr{}, [8]byte{}))
				if res.Status == nfsx.OK {
					if !promised[op.File].exists {
						promised[op.File] = byteModel{exists: true}
						pending[op.File] = byteModel{exists: true}
					}
					if res.Fh != nil {
						fhs[op.File] = res.Fh
					}
				}
			case "write":
				if fhs[op.File] == nil {
					continue
				}
				data := make([]byte, op.Len)
				for j := range data {
					data[j] = (op.Fill + byte(j*3)) | 1
				}
				inflight[op.File] = span{int64(op.Off), int64(op.Off + op.Len)}
				res := s.nfs(nfsx.ProcWrite, nfsx.ArgsWrite(fhs[op.File], uint64(op.Off), uint32(len(data)), op.Stable, data))
				inflight = map[int]span{}
				if faulted {
					faults++
				}
				if res.Status != nfsx.OK {
					if faulted {
						unknown[op.File] = append(unknown[op.File], struct{ lo, hi int64 }{int64(op.Off), int64(op.Off + op.Len)})
					}
					continue
				}
				if verf == nil {
					vv := res.Verf
					verf = &vv
				} else if *verf != res.Verf {
					failSig, failure = "write-verifier-changes-within-instance", fmt.Sprintf("%s: verifier %x, earlier replies carried %x", what, res.Verf, *verf)
					break
				}
				if res.Verf != s.e.Srv.VerifWriteVerf() {
					failSig, failure = "write-verifier-not-the-instance-verifier", fmt.Sprintf("%s: verifier %x, the instance's is %x", what, res.Verf, s.e.Srv.VerifWriteVerf())
					break
				}
				pending[op.File].write(int64(op.Off), data[:res.Count])
				if res.Committed == nfsx.FileSync {
					// a FILE_SYNC reply promises everything written to the file so far? No: only this write.
					promised[op.File].write(int64(op.Off), data[:res.Count])
					if res.Count > 0 {
						syncedWrites++
					}
				}
			case "commit":
				if fhs[op.File] == nil {
					continue
				}
				res := s.nfs(nfsx.ProcCommit, nfsx.ArgsCommit(fhs[op.File], 0, 0))
				if res.Status == nfsx.OK {
					if verf != nil && *verf != res.Verf {
						failSig, failure = "write-verifier-changes-within-instance", fmt.Sprintf("%s: verifier %x, earlier replies carried %x", what, res.Verf, *verf)
						break
					}
					// everything acknowledged so far for this file is now promised
					promised[op.File] = byteModel{exists: true, size: pending[op.File].size, log: append([]c01Ev(nil), pending[op.File].log...)}
				}
			case "setsize":
				if fhs[op.File] == nil {
					continue
				}
				inflight[op.File] = span{-1, -1}
				res := s.nfs(nfsx.ProcSetattr, nfsx.ArgsSetattr(fhs[op.File], nfsx.Sattr{Size: nfsx.U64p(uint64(op.Off))}, nil))
				inflight = map[int]span{}
				if res.Status == nfsx.OK {
					promised[op.File].truncate(int64(op.Off))
					pending[op.File].truncate(int64(op.Off))
				} else if faulted {
					wrecked[op.File] = true
				}
			case "toggleasync":
				o := s.e.NFS.GetExportOptions()
				o.Async = !o.Async
				if err := s.e.NFS.UpdateExportOptions(o); err != nil {
					tb.Fatalf("harness: UpdateExportOptions(Async=%v): %v", o.Async, err)
				}
			case "read":
				if fhs[op.File] == nil {
					continue
				}
				res := s.nfs(nfsx.ProcRead, nfsx.ArgsRead(fhs[op.File], uint64(op.Off), uint32(op.Len)))
				if res.Status == nfsx.OK {
					want := pending[op.File].read(int64(op.Off), int64(op.Len))
					if !bytes.Equal(res.Data, want) {
						stat.Label("read_differs_(judged_by_C01)", 1)
					}
				}
			}
			if failure == "" {
				checkDurable("after the reply to " + what)
			}
		}
	})
	v.SetBefore(nil)
	if abandoned {
		return
	}
	if failure != "" {
		if stat.Violate(tb, id, check, failSig, c, "%s", failure) {
			stat.Case(c, false, "ended_at_known_finding")
		}
		return
	}
	stat.Label("crash_points", int64(crashPoints))
	stat.Label("crash_points_after_stable_write", int64(ntPoints))
	ls := []string{fmt.Sprintf("async_%v", c.Async)}
	if faults > 0 {
		ls = append(ls, "write_failed_on_backend_fault")
	}
	stat.Case(c, ntPoints > 0, ls...)
}

var propC22 = defProp("C22", "TestC22", genC22, runC22)

func TestC22(t *testing.T) { propC22.Test(t) }
