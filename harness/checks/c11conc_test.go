package checks

// C11 / C12 under concurrency: requests of different users arrive at the same time (each user from its own client
// machine, or all of them multiplexed over one connection). Every request must be judged under its own credential:
//   - TestC11Concurrent: objects created by a user are owned by that user's effective identity, a non-root user's
//     sattr3 uid/gid are ignored, SETATTR(uid/gid) by a non-root user changes nothing (backend inode owners).
//   - TestC12Concurrent: ACCESS on a file whose owner/group/mode single out one user, one group and the others
//     returns, for each caller, the bits of that caller's own class.
// The oracle per request is the sequential one; the users work on disjoint names, so no interleaving changes it.

import (
	"fmt"
	"sync"
	"testing"

	"github.com/absfs/absnfs"
	"pgregory.net/rapid"

	"verif/harness/drv"
	"verif/harness/nfsx"
	"verif/harness/stat"
	"verif/harness/vfs"
)

type c11cUser struct {
	Uid uint32   `json:"uid"`
	Gid uint32   `json:"gid"`
	Aux []uint32 `json:"aux,omitempty"`
}

type c11cCase struct {
	Squash  string     `json:"squash"`
	Users   []c11cUser `json:"users"`
	Rounds  int        `json:"rounds"`
	Conn    bool       `json:"conn"`
	OneConn bool       `json:"one_conn"` // all users share one client address (one connection)
	Workers int        `json:"workers"`
}

func genC11c(t *rapid.T) c11cCase {
	c := c11cCase{Squash: pick(t, "squash", "none", "none", "root", "all"), Rounds: rapid.IntRange(2, 8).Draw(t, "rounds"), Conn: rapid.Bool().Draw(t, "conn"), OneConn: rapid.Bool().Draw(t, "oneconn"), Workers: pick(t, "workers", 1, 4, 8)}
	n := rapid.IntRange(2, 5).Draw(t, "users")
	ids := []uint32{0, 1000, 2000, 3000, 65534, 7}
	for i := 0; i < n; i++ {
		u := c11cUser{Uid: ids[(i+rapid.IntRange(0, 5).Draw(t, "u"))%len(ids)], Gid: pick(t, "g", uint32(0), 100, 200, 300)}
		if rapid.Bool().Draw(t, "aux") {
			u.Aux = []uint32{pick(t, "a", uint32(0), 100, 200, 300), 9}
		}
		c.Users = append(c.Users, u)
	}
	return c
}

func (c c11cCase) client(i int) drv.Client {
	u := c.Users[i]
	ip := fmt.Sprintf("10.4.0.%d", i+1)
	if c.OneConn {
		ip = "10.4.0.1"
	}
	return drv.Client{IP: ip, Port: 700, Cred: nfsx.AuthSys(1, "h", u.Uid, u.Gid, u.Aux)}
}

func runC11c(tb stat.TB, c c11cCase) {
	const id, check = "C11", "TestC11Concurrent"
	v := vfs.New()
	for i := range c.Users {
		v.SeedDir(fmt.Sprintf("/u%d", i), 0777, 0, 0)
	}
	s := newSession(tb, v, absnfs.ExportOptions{Squash: c.Squash, AttrCacheTimeout: 1, AttrCacheSize: 8, MaxWorkers: c.Workers})
	defer s.close()
	s.e.ViaConn = c.Conn
	var mu sync.Mutex
	var sig, msg string
	report := func(sg, f string, a ...any) {
		mu.Lock()
		if msg == "" {
			sig, msg = sg, fmt.Sprintf(f, a...)
		}
		mu.Unlock()
	}
	judged := 0
	abandoned := guard(func() {
		root := s.mount()
		dirs := make([][]byte, len(c.Users))
		for i := range c.Users {
			r := s.nfs(nfsx.ProcLookup, nfsx.ArgsDirop(root, fmt.Sprintf("u%d", i)))
			if r.Status != nfsx.OK {
				tb.Fatalf("harness: lookup u%d", i)
			}
			dirs[i] = r.Fh
		}
		var wg sync.WaitGroup
		start := make(chan struct{})
		for i := range c.Users {
			wg.Add(1)
			go func(i int) {
				defer wg.Done()
				defer func() { recover() }()
				u := c.Users[i]
				cl := c.client(i)
				eu, eg, _, _ := refSquash(c.Squash, u.Uid, u.Gid, u.Aux)
				<-start
				for k := 0; k < c.Rounds; k++ {
					name := fmt.Sprintf("o%d", k)
					sa := nfsx.Sattr{}
					if k%2 == 0 {
						sa.Uid, sa.Gid = nfsx.U32p(4242), nfsx.U32p(4343)
					}
					var res *nfsx.Res
					switch k % 3 {
					case 0:
						res = s.nfsAs(cl, nfsx.ProcCreate, nfsx.ArgsCreate(dirs[i], name, nfsx.Unchecked, sa, [8]byte{}))
					case 1:
						res = s.nfsAs(cl, nfsx.ProcMkdir, nfsx.ArgsMkdir(dirs[i], name, sa))
					default:
						res = s.nfsAs(cl, nfsx.ProcSymlink, nfsx.ArgsSymlink(dirs[i], name, sa, "x"))
					}
					if res.Status != nfsx.OK {
						continue
					}
					p := fmt.Sprintf("/u%d/%s", i, name)
					ent, ok := v.PeekLstat(p)
					if !ok {
						continue
					}
					wu, wg2 := eu, eg
					if eu == 0 && k%2 == 0 {
						wu, wg2 = 4242, 4343
					}
					if ent.Uid != wu || ent.Gid != wg2 {
						report("new-object-wrong-owner-under-concurrency", "user %d (cred %d/%d, effective %d/%d under squash %q) made %s while %d other users were active: the backend inode is owned %d/%d, want %d/%d", i, u.Uid, u.Gid, eu, eg, c.Squash, p, len(c.Users)-1, ent.Uid, ent.Gid, wu, wg2)
						return
					}
					if eu != 0 && len(res.Fh) > 0 {
						s.nfsAs(cl, nfsx.ProcSetattr, nfsx.ArgsSetattr(res.Fh, nfsx.Sattr{Uid: nfsx.U32p(5151), Gid: nfsx.U32p(5252)}, nil))
						if e2, ok := v.PeekLstat(p); ok && (e2.Uid != eu || e2.Gid != eg) {
							report("non-root-assigns-foreign-owner-under-concurrency", "user %d (effective %d/%d) sent SETATTR uid=5151 gid=5252 on its own %s while %d other users were active: the backend inode is now owned %d/%d", i, eu, eg, p, len(c.Users)-1, e2.Uid, e2.Gid)
							return
						}
					}
					mu.Lock()
					judged++
					mu.Unlock()
				}
			}(i)
		}
		close(start)
		wg.Wait()
	})
	if abandoned {
		return
	}
	if msg != "" {
		stat.Violate(tb, id, check, sig, c, "%s", msg)
		return
	}
	distinct := map[uint32]bool{}
	for _, u := range c.Users {
		distinct[u.Uid] = true
	}
	stat.Case(c, judged > 0 && len(distinct) > 1)
}

var propC11c = defProp("C11", "TestC11Concurrent", genC11c, runC11c)

func TestC11Concurrent(t *testing.T) { propC11c.Test(t) }

// ---- C12

func runC12c(tb stat.TB, c c11cCase) {
	const id, check = "C12", "TestC12Concurrent"
	v := vfs.New()
	s := newSession(tb, v, absnfs.ExportOptions{Squash: c.Squash, AttrCacheTimeout: 1, AttrCacheSize: 8, MaxWorkers: c.Workers})
	defer s.close()
	s.e.ViaConn = c.Conn
	var mu sync.Mutex
	var sig, msg string
	judged := 0
	abandoned := guard(func() {
		root := s.mount()
		// the object is made through the server by user 0 of the case (it gets that user's effective identity);
		// mode 0750: owner rwx, group r-x, others nothing
		maker := c.client(0)
		cr := s.nfsAs(maker, nfsx.ProcCreate, nfsx.ArgsCreate(root, "obj", nfsx.Unchecked, nfsx.Sattr{Mode: nfsx.U32p(0750)}, [8]byte{}))
		if cr.Status != nfsx.OK || len(cr.Fh) == 0 {
			stat.Discard(false)
			panic(abandon{"setup create refused"})
		}
		s.nfsAs(maker, nfsx.ProcSetattr, nfsx.ArgsSetattr(cr.Fh, nfsx.Sattr{Mode: nfsx.U32p(0750)}, nil))
		ga := s.nfs(nfsx.ProcGetattr, nfsx.ArgsFh(cr.Fh))
		ent, ok := v.PeekLstat("/obj")
		if ga.Status != nfsx.OK || ga.Attr == nil || !ok || ent.Perm&0o777 != 0750 {
			stat.Discard(false)
			panic(abandon{"setup mode not installed"})
		}
		fu, fg := ga.Attr.Uid, ga.Attr.Gid
		var wg sync.WaitGroup
		start := make(chan struct{})
		for i := range c.Users {
			wg.Add(1)
			go func(i int) {
				defer wg.Done()
				defer func() { recover() }()
				u := c.Users[i]
				cl := c.client(i)
				eu, eg, eaux, _ := refSquash(c.Squash, u.Uid, u.Gid, u.Aux)
				want := accessTable(0750, false, fu, fg, eu, eg, eaux, 0x3f, false)
				<-start
				for k := 0; k < c.Rounds*3; k++ {
					ar := s.nfsAs(cl, nfsx.ProcAccess, nfsx.ArgsAccess(cr.Fh, 0x3f))
					if ar.Status != nfsx.OK {
						continue
					}
					mu.Lock()
					judged++
					if ar.Access != want && msg == "" {
						sig = "access-decision-of-another-caller-under-concurrency"
						msg = fmt.Sprintf("user %d (cred %d/%d aux %v, effective %d/%d aux %v under squash %q) asked ACCESS 0x3f on a mode 0750 file owned %d/%d while %d other users were asking too: granted %#x, UNIX rules give this caller %#x", i, u.Uid, u.Gid, u.Aux, eu, eg, eaux, c.Squash, fu, fg, len(c.Users)-1, ar.Access, want)
					}
					mu.Unlock()
				}
			}(i)
		}
		close(start)
		wg.Wait()
	})
	if abandoned {
		return
	}
	if msg != "" {
		stat.Violate(tb, id, check, sig, c, "%s", msg)
		return
	}
	stat.Case(c, judged > len(c.Users))
}

var propC12c = defProp("C12", "TestC12Concurrent", genC11c, runC12c)

func TestC12Concurrent(t *testing.T) { propC12c.Test(t) }
