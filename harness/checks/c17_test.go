package checks

// C17 Connections are bounded, accounted, reaped when idle, and fully shut down.
//
// Real loopback server; generated client schedules (concurrent dials, NULL
// calls, idle periods, closes, Stop / Close / Unexport in any order, repeated).
// Oracle: number of simultaneously served connections, the server's own
// counters (shim), EOF on idle connections, refused dials and goroutine stacks
// after Stop, handle and cache counts after Close/Unexport. All timing
// assertions are one-sided with generous slack.

import (
	"crypto/tls"
	"fmt"
	"net"
	"os"
	"path/filepath"
	"runtime"
	"strings"
	"sync"
	"sync/atomic"
	"testing"
	"time"

	"github.com/absfs/absnfs"
	"pgregory.net/rapid"

	"verif/harness/nfsx"
	"verif/harness/stat"
	"verif/harness/vfs"
)

type c17Step struct {
	Kind string `json:"kind"` // dial null idle close refuse stop closenfs unexport inflight (N: release the parked request N x 15 ms into the next shutdown call)
	N    int    `json:"n"`
}

type c17Case struct {
	MaxConn int       `json:"max_conn"`
	IdleMs  int       `json:"idle_ms"`
	Via     string    `json:"via"` // listen | export
	Steps   []c17Step `json:"steps"`
	// TLS: the listener is a TLS listener and every client is a TLS client; the connection bookkeeping (limit,
	// accounting, idle reaping, shutdown) is the same property on both kinds of listener.
	TLS bool `json:"tls,omitempty"`
	// LogFile: the export logs to a file (ExportOptions.Log.Output is a path), which Close has to close - once
	LogFile bool `json:"log_file,omitempty"`
	// RateLimit: rate limiting is on with a per-connection allowance of 3 requests and 1/s (everything else generous);
	// "flood" steps send more than that on every open connection, so that some requests are refused. A connection
	// whose last request was refused is as idle afterwards as any other.
	RateLimit bool `json:"rate_limit,omitempty"`
}

func genC17(t *rapid.T) c17Case {
	c := c17Case{MaxConn: rapid.IntRange(1, 6).Draw(t, "max"), IdleMs: pick(t, "idle", 100, 150, 200, 300, 60000, 60000), Via: pick(t, "via", "listen", "export"), TLS: rapid.IntRange(0, 2).Draw(t, "tls") == 0, LogFile: rapid.IntRange(0, 2).Draw(t, "logfile") == 0, RateLimit: rapid.IntRange(0, 2).Draw(t, "ratelimit") == 0}
	n := rapid.IntRange(2, 9).Draw(t, "n")
	for i := 0; i < n; i++ {
		if c.RateLimit && rapid.IntRange(0, 2).Draw(t, "flood") == 0 {
			c.Steps = append(c.Steps, c17Step{Kind: "dial", N: rapid.IntRange(1, 3).Draw(t, "fk")}, c17Step{Kind: "flood", N: rapid.IntRange(1, 4).Draw(t, "fn")}, c17Step{Kind: "idle", N: 1})
		}
		st := c17Step{Kind: pick(t, "kind", "dial", "dial", "dial", "null", "close", "close", "idle", "refuse", "stop", "closenfs", "unexport"), N: rapid.IntRange(1, 8).Draw(t, "k")}
		c.Steps = append(c.Steps, st)
		if c.Via == "export" && rapid.IntRange(0, 2).Draw(t, "inflight") == 0 {
			// a request parked inside the backend while the shutdown call that follows runs
			c.Steps = append(c.Steps, c17Step{Kind: "inflight", N: rapid.IntRange(1, 8).Draw(t, "release_after")})
			c.Steps = append(c.Steps, c17Step{Kind: pick(t, "shutdown", "closenfs", "closenfs", "unexport", "stop"), N: 1})
		}
	}
	c.Steps = append(c.Steps, c17Step{Kind: pick(t, "final", "stop", "closenfs", "unexport", "stop")})
	return c
}

type c17Conn struct {
	c      net.Conn
	served bool
	closed bool
	dead   bool // observed EOF/reset
}

// c17Answered: a NULL call is answered at all (served or refused by the rate limiter); refused reports which.
func c17Answered(c net.Conn, xid uint32, d time.Duration) (answered, refused bool) {
	c.SetDeadline(time.Now().Add(d))
	if _, err := c.Write(nfsx.Frame(nfsx.Call(xid, nfsx.ProgNFS, 3, 0, nfsx.AuthNone(), nfsx.AuthNone(), nil))); err != nil {
		return false, false
	}
	rec, err := nfsx.ReadRecord(c, 1<<20)
	if err != nil {
		return false, false
	}
	rp, err := nfsx.ParseReply(rec)
	return err == nil && rp.Xid == xid, err == nil && rp.Stat == nfsx.MsgDenied
}

func c17Null(c net.Conn, xid uint32, d time.Duration) bool {
	c.SetDeadline(time.Now().Add(d))
	if _, err := c.Write(nfsx.Frame(nfsx.Call(xid, nfsx.ProgNFS, 3, 0, nfsx.AuthNone(), nfsx.AuthNone(), nil))); err != nil {
		return false
	}
	rec, err := nfsx.ReadRecord(c, 1<<20)
	if err != nil {
		return false
	}
	rp, err := nfsx.ParseReply(rec)
	// (a refusal by the rate limiter is an answer too: the connection is being served)
	return err == nil && rp.Xid == xid && (rp.Stat == nfsx.MsgAccepted || rp.Stat == nfsx.MsgDenied)
}

// sawEOF reports whether the peer closed the connection within d.
func c17SawEOF(c net.Conn, d time.Duration) bool {
	c.SetReadDeadline(time.Now().Add(d))
	var b [1]byte
	_, err := c.Read(b[:])
	if err == nil {
		return false
	}
	if ne, ok := err.(net.Error); ok && ne.Timeout() {
		return false
	}
	return true
}

// c17ClosedWithin is c17SawEOF for a connection that may still deliver a reply before the close: data is
// drained, only "still open when the deadline passes" counts as open.
func c17ClosedWithin(c net.Conn, d time.Duration) bool {
	c.SetReadDeadline(time.Now().Add(d))
	var b [4096]byte
	for {
		_, err := c.Read(b[:])
		if err == nil {
			continue
		}
		if ne, ok := err.(net.Error); ok && ne.Timeout() {
			return false
		}
		return true
	}
}

func serverGoroutines() []string {
	buf := make([]byte, 1<<20)
	n := runtime.Stack(buf, true)
	var out []string
	for _, g := range strings.Split(string(buf[:n]), "\n\n") {
		if strings.Contains(g, "absnfs.(*Server).") || strings.Contains(g, "absnfs.(*Portmapper).") {
			out = append(out, g)
		}
	}
	return out
}

func runC17(tb stat.TB, c c17Case) {
	const id, check = "C17", "TestC17"
	v := vfs.New()
	v.SeedFile("/f", 0644, 0, 0, []byte("x"))
	eopts := absnfs.ExportOptions{MaxConnections: c.MaxConn, IdleTimeout: time.Duration(c.IdleMs) * time.Millisecond, EnableDirCache: true, MaxWorkers: 2}
	if c.RateLimit {
		rl := absnfs.DefaultRateLimiterConfig()
		rl.GlobalRequestsPerSecond, rl.PerIPRequestsPerSecond, rl.PerIPBurstSize = 1000000, 1000000, 1000000
		rl.PerConnectionRequestsPerSecond, rl.PerConnectionBurstSize = 1, 3
		eopts.EnableRateLimiting, eopts.RateLimitConfig = true, &rl
	}
	var clientTLS *tls.Config
	if c.TLS {
		p, err := getPKI()
		if err != nil {
			tb.Fatalf("harness: pki: %v", err)
		}
		dir, err := os.MkdirTemp("", "verif-c17-")
		if err != nil {
			tb.Fatalf("harness: %v", err)
		}
		defer os.RemoveAll(dir)
		certFile, keyFile := filepath.Join(dir, "server.pem"), filepath.Join(dir, "server.key")
		os.WriteFile(certFile, p.server1Cert, 0600)
		os.WriteFile(keyFile, p.server1Key, 0600)
		tc := absnfs.DefaultTLSConfig()
		tc.Enabled, tc.CertFile, tc.KeyFile = true, certFile, keyFile
		eopts.TLS = tc
		clientTLS = &tls.Config{RootCAs: p.caPool, ServerName: "localhost"}
	}
	if c.LogFile {
		ldir, err := os.MkdirTemp("", "verif-c17log-")
		if err != nil {
			tb.Fatalf("harness: %v", err)
		}
		defer os.RemoveAll(ldir)
		eopts.Log = &absnfs.LogConfig{Level: "info", Format: pick2(c.MaxConn%2 == 0, "text", "json"), Output: filepath.Join(ldir, "nfs.log"), LogClientIPs: true, LogOperations: true}
	}
	n, err := absnfs.New(v, eopts)
	if err != nil {
		tb.Fatalf("harness: %v", err)
	}
	// dialTo opens a client connection of the listener's kind (for TLS: handshake included; a connection the server
	// drops at admission then fails here, which every caller treats as "no connection").
	dialTo := func(addr string, d time.Duration) (net.Conn, error) {
		if clientTLS == nil {
			return net.DialTimeout("tcp", addr, d)
		}
		tc, err := tls.DialWithDialer(&net.Dialer{Timeout: d}, "tcp", addr, clientTLS)
		if err != nil {
			return nil, err
		}
		return tc, nil
	}
	var srv *absnfs.Server
	if c.Via == "export" {
		if err := n.Export("/", 0); err != nil {
			tb.Fatalf("harness: Export: %v", err)
		}
		srv = n.VerifExportServer()
	} else {
		srv, err = absnfs.NewServer(absnfs.ServerOptions{Port: 0, Hostname: "127.0.0.1", UseRecordMarking: true})
		if err != nil {
			tb.Fatalf("harness: %v", err)
		}
		srv.SetHandler(n)
		if err := srv.Listen(); err != nil {
			tb.Fatalf("harness: Listen: %v", err)
		}
	}
	host := "127.0.0.1"
	if c.Via == "export" {
		host = "localhost"
	}
	addr := fmt.Sprintf("%s:%d", host, srv.GetPort())
	idle := time.Duration(c.IdleMs) * time.Millisecond
	var conns []*c17Conn
	stopped, nfsClosed := false, false
	xid := uint32(100)
	nt := false
	stop := false
	viol := func(sig, f string, a ...any) {
		stop = true
		stat.Violate(tb, id, check, sig, c, f, a...)
	}
	defer func() {
		for _, cc := range conns {
			if !cc.closed {
				cc.c.Close()
			}
		}
		srv.Stop()
		n.Close()
	}()
	inflightOpen := false
	openServed := func() int {
		k := 0
		for _, cc := range conns {
			if !cc.closed && !cc.dead && cc.served {
				k++
			}
		}
		if inflightOpen {
			k++
		}
		return k
	}
	touch := time.Now() // last time any open connection was used
	_ = touch
	refusals := false
	// in-flight request machinery: a LOOKUP parked inside the backend (its first Lstat) on its own connection
	type c17Parked struct {
		conn    net.Conn
		gate    chan struct{}
		delay   time.Duration
		opened  time.Time
		release sync.Once
	}
	var armed atomic.Bool
	var parkedCh chan struct{}
	var curGate chan struct{}
	var inflight *c17Parked
	var rootFh []byte
	inflightSeen := false
	_ = inflightSeen
	v.SetBefore(func(call *vfs.Call) {
		if call.Op == "Lstat" && armed.CompareAndSwap(true, false) {
			g := curGate
			close(parkedCh)
			<-g
		}
	})
	openGate := func(p *c17Parked) {
		p.release.Do(func() { p.opened = time.Now(); close(p.gate) })
	}
	// drainInflight lets the parked request finish and drops its connection (before steps that are not a shutdown)
	drainInflight := func() {
		if inflight == nil {
			return
		}
		openGate(inflight)
		inflight.conn.SetDeadline(time.Now().Add(3 * time.Second))
		nfsx.ReadRecord(inflight.conn, 1<<20)
		inflight.conn.Close()
		inflight = nil
		inflightOpen = false
		for i := 0; i < 300; i++ {
			if cnt, _ := srv.VerifConnCounts(); cnt <= openServed() {
				break
			}
			time.Sleep(10 * time.Millisecond)
		}
	}
	defer func() {
		if inflight != nil {
			openGate(inflight)
			inflight.conn.Close()
		}
	}()
	// populate handles and caches so that Close/Unexport have something to release
	if cl, err := dialTo(addr, 2*time.Second); err == nil {
		cl.SetDeadline(time.Now().Add(3 * time.Second))
		cl.Write(nfsx.Frame(nfsx.Call(1, nfsx.ProgMount, 3, 1, nfsx.AuthSys(1, "h", 0, 0, nil), nfsx.AuthNone(), (&nfsx.W{}).Str("/").B)))
		if rec, err := nfsx.ReadRecord(cl, 1<<20); err == nil {
			if rp, err := nfsx.ParseReply(rec); err == nil {
				if m, err := nfsx.DecodeMount3(1, rp.Body); err == nil && m.Status == 0 {
					rootFh = m.Fh
					cl.Write(nfsx.Frame(nfsx.Call(2, nfsx.ProgNFS, 3, nfsx.ProcReaddirplus, nfsx.AuthSys(1, "h", 0, 0, nil), nfsx.AuthNone(), nfsx.ArgsReaddirplus(m.Fh, 0, [8]byte{}, 4096, 8192))))
					nfsx.ReadRecord(cl, 1<<20)
				}
			}
		}
		cl.Close()
	}
	// wait for the setup connection to be uncounted
	for i := 0; i < 200; i++ {
		if cnt, _ := srv.VerifConnCounts(); cnt == 0 {
			break
		}
		time.Sleep(10 * time.Millisecond)
	}

	for si, st := range c.Steps {
		if stop {
			break
		}
		if st.Kind != "stop" && st.Kind != "closenfs" && st.Kind != "unexport" {
			drainInflight()
		}
		switch st.Kind {
		case "inflight":
			if c.Via != "export" || stopped || nfsClosed || rootFh == nil || openServed() >= c.MaxConn {
				continue
			}
			cl, err := dialTo(addr, 2*time.Second)
			if err != nil {
				continue
			}
			p := &c17Parked{conn: cl, gate: make(chan struct{}), delay: time.Duration(st.N) * 15 * time.Millisecond}
			parkedCh, curGate = make(chan struct{}), p.gate
			armed.Store(true)
			xid++
			cl.SetDeadline(time.Now().Add(30 * time.Second))
			cl.Write(nfsx.Frame(nfsx.Call(xid, nfsx.ProgNFS, 3, nfsx.ProcLookup, nfsx.AuthSys(1, "h", 0, 0, nil), nfsx.AuthNone(), nfsx.ArgsDirop(rootFh, "f"))))
			select {
			case <-parkedCh:
				inflight = p
				inflightOpen = true
				inflightSeen = true
			case <-time.After(2 * time.Second):
				armed.Store(false)
				close(p.gate)
				cl.Close()
			}
		case "dial":
			if stopped {
				// after Stop dials must be refused (or the connection closed at once without service)
				cl, err := dialTo(addr, time.Second)
				if err == nil {
					xid++
					if c17Null(cl, xid, time.Second) {
						viol("served-after-stop", "step#%d: a connection dialled after Stop returned was served", si)
					}
					cl.Close()
				}
				continue
			}
			k := st.N
			if k > c.MaxConn {
				nt = true
			}
			var wg sync.WaitGroup
			newc := make([]*c17Conn, k)
			for i := 0; i < k; i++ {
				wg.Add(1)
				go func(i int) {
					defer wg.Done()
					cl, err := dialTo(addr, 2*time.Second)
					if err != nil {
						return
					}
					newc[i] = &c17Conn{c: cl}
				}(i)
			}
			wg.Wait()
			for _, cc := range newc {
				if cc != nil {
					conns = append(conns, cc)
				}
			}
			// Two NULL rounds over every open connection: a connection answering in
			// both rounds was alive at the instant between the rounds, so the size of
			// the intersection is a number of simultaneously served connections.
			round := func() map[*c17Conn]bool {
				out := map[*c17Conn]bool{}
				var mu sync.Mutex
				var wg sync.WaitGroup
				for _, cc := range conns {
					if cc.closed || cc.dead {
						continue
					}
					wg.Add(1)
					xid++
					go func(cc *c17Conn, x uint32) {
						defer wg.Done()
						if c17Null(cc.c, x, 1500*time.Millisecond) {
							mu.Lock()
							out[cc] = true
							mu.Unlock()
						}
					}(cc, xid)
				}
				wg.Wait()
				return out
			}
			r1 := round()
			r2 := round()
			both := 0
			for _, cc := range conns {
				if cc.closed || cc.dead {
					continue
				}
				if r1[cc] && r2[cc] {
					both++
					cc.served = true
				} else if !r2[cc] {
					cc.dead = true
				}
			}
			touch = time.Now()
			if both > c.MaxConn {
				viol("served-connections-exceed-max", "step#%d: %d connections answered two consecutive NULL rounds, so they were served simultaneously, with MaxConnections=%d", si, both, c.MaxConn)
			}
			cnt, tracked := srv.VerifConnCounts()
			if cnt != tracked {
				viol("connection-count-differs-from-tracked-set", "step#%d: connCount=%d but %d connections are tracked", si, cnt, tracked)
			}
			if cnt > c.MaxConn {
				viol("connection-count-exceeds-max", "step#%d: connCount=%d > MaxConnections=%d", si, cnt, c.MaxConn)
			}
		case "null":
			for _, cc := range conns {
				if cc.closed || cc.dead || !cc.served {
					continue
				}
				xid++
				if c.RateLimit {
					if a, _ := c17Answered(cc.c, xid, 1500*time.Millisecond); !a {
						cc.dead = true
					}
					continue
				}
				if !c17Null(cc.c, xid, 1500*time.Millisecond) {
					cc.dead = true // may have been reaped for idleness: legal
				}
			}
			touch = time.Now()
		case "flood":
			for _, cc := range conns {
				if cc.closed || cc.dead || !cc.served {
					continue
				}
				for k := 0; k < st.N+3 && !cc.dead; k++ {
					xid++
					a, refused := c17Answered(cc.c, xid, 1500*time.Millisecond)
					if !a {
						cc.dead = true
					}
					if refused {
						stat.Label("request_refused_by_rate_limiter_on_a_counted_connection", 1)
						nt = true
					}
				}
			}
			touch = time.Now()
		case "close":
			i := 0
			for _, cc := range conns {
				if !cc.closed && i < st.N {
					cc.c.Close()
					cc.closed = true
					i++
				}
			}
		case "refuse":
			// connections from an address outside the allow-list: closed unserved, and
			// once they have ended they are no longer counted
			if stopped || nfsClosed {
				continue
			}
			o := n.GetExportOptions()
			o.AllowedIPs = []string{"10.9.9.9"}
			if err := n.UpdateExportOptions(o); err != nil {
				tb.Fatalf("harness: %v", err)
			}
			for i := 0; i < st.N; i++ {
				cl, err := dialTo(addr, 2*time.Second)
				if err != nil {
					continue
				}
				c17SawEOF(cl, 2*time.Second)
				cl.Close()
			}
			o.AllowedIPs = nil
			if err := n.UpdateExportOptions(o); err != nil {
				tb.Fatalf("harness: %v", err)
			}
			refusals = true
			if c.IdleMs >= 60000 {
				nt = true
				deadline := time.Now().Add(3 * time.Second)
				for {
					cnt, tracked := srv.VerifConnCounts()
					if cnt <= openServed() && tracked <= openServed() {
						break
					}
					if time.Now().After(deadline) {
						viol("ended-connections-still-counted", "step#%d: %d connection(s) from an address outside AllowedIPs were closed by the server, yet connCount=%d tracked=%d with %d client connection(s) open", si, st.N, cnt, tracked, openServed())
						break
					}
					time.Sleep(20 * time.Millisecond)
				}
			}
		case "idle":
			if stopped || c.IdleMs >= 60000 {
				continue
			}
			time.Sleep(2*idle + 400*time.Millisecond)
			for _, cc := range conns {
				if cc.closed || cc.dead {
					continue
				}
				if !c17SawEOF(cc.c, 2*time.Second) {
					viol("idle-connection-not-reaped", "step#%d: a connection idle for more than 2 x IdleTimeout(%v) + 2 s is still open", si, idle)
					break
				}
				cc.dead = true
			}
			// reaped connections must be uncounted
			deadline := time.Now().Add(3 * time.Second)
			for {
				cnt, tracked := srv.VerifConnCounts()
				if cnt == 0 && tracked == 0 {
					break
				}
				if time.Now().After(deadline) {
					viol("reaped-connections-still-counted", "step#%d: all connections were idle-closed but connCount=%d tracked=%d", si, cnt, tracked)
					break
				}
				time.Sleep(20 * time.Millisecond)
			}
		case "stop":
			open := 0
			for _, cc := range conns {
				if !cc.closed && !cc.dead {
					open++
				}
			}
			if open > 0 {
				nt = true
			}
			if inflight != nil {
				p := inflight
				go func() { time.Sleep(p.delay); openGate(p) }()
			}
			// dial storm: while Stop runs, clients keep connecting (connections accepted but not yet registered when
			// Stop looks at the connection table must not survive it)
			var storm []net.Conn
			var stormMu sync.Mutex
			stormStop := make(chan struct{})
			var stormWG sync.WaitGroup
			if !stopped && st.N >= 3 {
				if st.N >= 6 && !nfsClosed {
					// many open connections make Stop's own pass over the connection table long: raise the limit at
					// runtime and fill the table first
					n.UpdateTuningOptions(func(t *absnfs.TuningOptions) { t.MaxConnections = 5000 })
					var fw sync.WaitGroup
					for g := 0; g < 16; g++ {
						fw.Add(1)
						go func() {
							defer fw.Done()
							for k := 0; k < 40; k++ {
								if cl, err := dialTo(addr, time.Second); err == nil {
									stormMu.Lock()
									storm = append(storm, cl)
									stormMu.Unlock()
								}
							}
						}()
					}
					fw.Wait()
					for i := 0; i < 100; i++ {
						if cnt, _ := srv.VerifConnCounts(); cnt >= len(storm)/2 {
							break
						}
						time.Sleep(5 * time.Millisecond)
					}
				}
				for g := 0; g < 8; g++ {
					stormWG.Add(1)
					go func() {
						defer stormWG.Done()
						for {
							select {
							case <-stormStop:
								return
							default:
							}
							cl, err := dialTo(addr, 200*time.Millisecond)
							if err != nil {
								continue
							}
							stormMu.Lock()
							storm = append(storm, cl)
							stormMu.Unlock()
						}
					}()
				}
				time.Sleep(time.Duration(st.N) * 300 * time.Microsecond)
				nt = true
			}
			for rep := 0; rep < 2; rep++ {
				done := make(chan error, 1)
				go func() { done <- srv.Stop() }()
				select {
				case err := <-done:
					if rep == 0 {
						close(stormStop)
						stormWG.Wait()
					}
					if err != nil {
						viol("stop-reports-error", "step#%d: Server.Stop (call %d) returned %v", si, rep+1, err)
					}
				case <-time.After(15 * time.Second):
					viol("stop-hangs", "step#%d: Server.Stop did not return within 15 s", si)
				}
			}
			stopped = true
			select {
			case <-stormStop:
			default:
				close(stormStop)
				stormWG.Wait()
			}
			for _, cl := range storm {
				// a connection made while Stop was running is either never served or closed by Stop
				xid++
				if c17Null(cl, xid, 500*time.Millisecond) {
					viol("served-after-stop", "step#%d: a connection dialled while Stop was running still answers a NULL call after Stop returned", si)
				}
				cl.Close()
			}
			if len(storm) > 0 {
				stat.Label("dial_storm_during_stop", 1)
			}
			if inflight != nil {
				openGate(inflight)
				if !c17ClosedWithin(inflight.conn, 2*time.Second) {
					viol("connection-open-after-stop", "step#%d: the connection of a request that was in flight is still open 2 s after Stop returned", si)
				}
				inflight.conn.Close()
				inflight = nil
				inflightOpen = false
			}
			for _, cc := range conns {
				if cc.closed || cc.dead {
					continue
				}
				if !c17SawEOF(cc.c, 2*time.Second) {
					viol("connection-open-after-stop", "step#%d: a client connection is still open 2 s after Stop returned", si)
					break
				}
				cc.dead = true
			}
			var gs []string
			for i := 0; i < 100; i++ {
				gs = serverGoroutines()
				if len(gs) == 0 {
					break
				}
				time.Sleep(20 * time.Millisecond)
			}
			if len(gs) > 0 {
				viol("server-goroutine-remains-after-stop", "step#%d: %d goroutine(s) with Server frames remain after Stop, first:\n%s", si, len(gs), gs[0])
			}
			if cnt, tracked := srv.VerifConnCounts(); cnt != 0 || tracked != 0 {
				viol("connections-counted-after-stop", "step#%d: connCount=%d tracked=%d after Stop", si, cnt, tracked)
			}
		case "closenfs", "unexport":
			var firstReturned time.Time
			h1, a1, d1 := 0, 0, 0 // table and cache sizes when the first call returned
			parkedDuring := inflight
			if inflight != nil {
				p := inflight
				go func() { time.Sleep(p.delay); openGate(p) }()
			}
			for rep := 0; rep < 2; rep++ {
				var err error
				func() {
					defer func() {
						if r := recover(); r != nil {
							viol("close-panics", "step#%d: %s panicked on call %d: %v", si, st.Kind, rep+1, r)
						}
					}()
					if st.Kind == "closenfs" {
						err = n.Close()
					} else {
						err = n.Unexport()
					}
				}()
				if err != nil {
					viol("close-reports-error", "step#%d: %s (call %d) returned %v", si, st.Kind, rep+1, err)
				}
				if rep == 0 {
					firstReturned = time.Now()
					h1, a1 = n.VerifFileMap().Count(), n.VerifAttrCache().Size()
					if dc := n.VerifDirCache(); dc != nil {
						d1 = dc.Size()
					}
				}
			}
			if parkedDuring != nil {
				openGate(parkedDuring)
				parkedDuring.conn.Close()
				inflight = nil
				inflightOpen = false
				nt = true
				if !parkedDuring.opened.Before(firstReturned) {
					// the machine was too slow to let the request go while the call was running: nothing to judge
					stat.Label("inflight_released_too_late", 1)
					nfsClosed = true
					stopped = true
					continue
				}
				stat.Label("shutdown_with_request_in_flight", 1)
			}
			if c.Via == "export" {
				stopped = true // Close/Unexport stop the server Export() created
			}
			nfsClosed = true
			if h1 != 0 || a1 != 0 || d1 != 0 {
				extra := ""
				if parkedDuring != nil {
					extra = " (a LOOKUP was being executed by the backend when the call started and finished while it ran)"
				}
				viol("state-remains-when-close-returns", "step#%d: when the first %s call returned %d file handles, %d attribute-cache and %d directory-cache entries remained%s", si, st.Kind, h1, a1, d1, extra)
			}
			if h := n.VerifFileMap().Count(); h != 0 {
				viol("handles-remain-after-close", "step#%d: %d file handles remain after %s", si, h, st.Kind)
			}
			if sz := n.VerifAttrCache().Size(); sz != 0 {
				viol("attr-cache-not-empty-after-close", "step#%d: attribute cache holds %d entries after %s", si, sz, st.Kind)
			}
			if dc := n.VerifDirCache(); dc != nil && dc.Size() != 0 {
				viol("dir-cache-not-empty-after-close", "step#%d: directory cache holds %d entries after %s", si, dc.Size(), st.Kind)
			}
			if c.Via == "export" {
				for _, cc := range conns {
					if cc.closed || cc.dead {
						continue
					}
					if !c17SawEOF(cc.c, 2*time.Second) {
						viol("connection-open-after-stop", "step#%d: a client connection is still open 2 s after %s stopped the exported server", si, st.Kind)
						break
					}
					cc.dead = true
				}
			}
		}
	}
	_ = nfsClosed
	if !stop && !stopped {
		// all clients gone => count returns to zero
		for _, cc := range conns {
			if !cc.closed {
				cc.c.Close()
				cc.closed = true
			}
		}
		deadline := time.Now().Add(3 * time.Second)
		for {
			cnt, tracked := srv.VerifConnCounts()
			if cnt == 0 && tracked == 0 {
				break
			}
			if time.Now().After(deadline) {
				viol("closed-connections-still-counted", "all client connections were closed but connCount=%d tracked=%d after 3 s", cnt, tracked)
				break
			}
			time.Sleep(20 * time.Millisecond)
		}
	}
	stat.Case(c, nt, "via_"+c.Via, fmt.Sprintf("refusals_%v", refusals), fmt.Sprintf("tls_%v", c.TLS), fmt.Sprintf("log_file_%v", c.LogFile))
}

var propC17 = defProp("C17", "TestC17", genC17, runC17)

func TestC17(t *testing.T) { propC17.Test(t) }

func pick2(cond bool, a, b string) string {
	if cond {
		return a
	}
	return b
}
