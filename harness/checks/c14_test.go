package checks

// C14 Every reply is a well-formed RFC 1813 / RFC 1831 reply.
//
// Generator: (program, version, procedure) x argument shapes (well-formed with
// live/stale/foreign handles and valid/invalid names, truncated at a 4-byte
// cut, random, over-long) x server state (normal, read-only, rate-limited,
// policy drain), direct and over a record-marking connection.
// Oracle: the strict nfsx decoder for the program, procedure and status sent.

import (
	"context"
	"errors"
	"fmt"
	"io"
	"os"
	"strings"
	"sync"
	"syscall"
	"testing"
	"time"

	"github.com/absfs/absnfs"
	"pgregory.net/rapid"

	"verif/harness/drv"
	"verif/harness/nfsx"
	"verif/harness/stat"
	"verif/harness/vfs"
)

type c14Req struct {
	Prog  uint32 `json:"prog"`
	Vers  uint32 `json:"vers"`
	Proc  uint32 `json:"proc"`
	Var   int    `json:"var"`
	Shape string `json:"shape"` // ok trunc random long
	Cut   int    `json:"cut"`
	Rnd   []byte `json:"rnd,omitempty"`
	// state "faulty": the FaultAt-th backend call this request causes fails with c14Faults[FaultErr] (0: none)
	FaultAt  int `json:"fault_at,omitempty"`
	FaultErr int `json:"fault_err,omitempty"`
}

// c14Faults are the errors a backend may return: errno values, the os sentinel errors, an expired deadline
// as a network-backed filesystem reports it, and an opaque error.
var c14Faults = []error{
	syscall.EIO, syscall.EACCES, syscall.EPERM, syscall.ENOENT, syscall.EEXIST, syscall.ENOTDIR, syscall.EISDIR, syscall.EINVAL,
	syscall.ENOSPC, syscall.EFBIG, syscall.ENAMETOOLONG, syscall.ENOTEMPTY, syscall.EROFS, syscall.EXDEV, syscall.EMLINK, syscall.EDQUOT,
	syscall.ESTALE, syscall.ETIMEDOUT, syscall.EBUSY, syscall.ELOOP, syscall.ENXIO, syscall.EAGAIN,
	os.ErrNotExist, os.ErrExist, os.ErrPermission, os.ErrInvalid, os.ErrClosed, os.ErrDeadlineExceeded, io.ErrUnexpectedEOF, io.EOF,
	fmt.Errorf("backend request: %w", context.DeadlineExceeded), context.Canceled, absnfs.ErrTimeout, errors.New("opaque backend failure"),
}

type c14Case struct {
	State string   `json:"state"` // normal readonly ratelimited drain connlimited
	Reqs  []c14Req `json:"reqs"`
	// Odd > 0: the backend reports /e7 as something that is neither a regular file, a directory nor a symlink
	// (1 irregular, 2 character device bit alone, 3 named pipe, 4 socket, 5 device); replies describing it still carry a
	// member of ftype3
	Odd int `json:"odd,omitempty"`
}

func genC14(t *rapid.T) c14Case {
	c := c14Case{State: pick(t, "state", "normal", "normal", "readonly", "ratelimited", "drain", "connlimited", "faulty", "faulty")}
	c.Odd = pick(t, "odd", 0, 0, 1, 2, 3, 4, 5)
	n := rapid.IntRange(1, 12).Draw(t, "n")
	for i := 0; i < n; i++ {
		r := c14Req{
			Prog: pick(t, "prog", uint32(nfsx.ProgNFS), nfsx.ProgNFS, nfsx.ProgNFS, nfsx.ProgNFS, nfsx.ProgMount, nfsx.ProgMount, nfsx.ProgPmap, 0, 200000),
			Vers: pick(t, "vers", uint32(3), 3, 3, 3, 3, 1, 2, 4, 0),
			Proc: uint32(rapid.IntRange(0, 23).Draw(t, "proc")),
			Var:  rapid.IntRange(0, 11).Draw(t, "var"),
		}
		if r.Prog == nfsx.ProgMount {
			r.Proc = uint32(rapid.IntRange(0, 6).Draw(t, "mproc"))
		}
		r.Shape = pick(t, "shape", "ok", "ok", "ok", "trunc", "trunc", "random", "long")
		r.Cut = rapid.IntRange(0, 14).Draw(t, "cut")
		if r.Shape == "random" {
			r.Rnd = rapid.SliceOfN(rapid.Byte(), 0, 48).Draw(t, "rnd")
		}
		if c.State == "faulty" {
			r.Shape = pick(t, "fshape", "ok", "ok", "ok", r.Shape)
			r.FaultAt = pick(t, "fault_at", 1, 1, 1, 2, 2, 3, 4, 5, 6, 7, 8, 9)
			if rapid.IntRange(0, 9).Draw(t, "fprog") < 8 {
				r.Prog, r.Vers = nfsx.ProgNFS, 3
				r.Proc = uint32(rapid.IntRange(1, 21).Draw(t, "fproc"))
				if rapid.IntRange(0, 5).Draw(t, "fmnt") == 0 {
					r.Prog, r.Proc = nfsx.ProgMount, nfsx.MountMnt
				}
			}
			r.FaultErr = rapid.IntRange(0, len(c14Faults)-1).Draw(t, "fault_err")
		}
		c.Reqs = append(c.Reqs, r)
	}
	return c
}

type c14H struct{ root, f, d, l, stale []byte }

func c14Args(h c14H, r c14Req) []byte {
	if r.Prog == nfsx.ProgMount {
		switch r.Proc {
		case nfsx.MountMnt, nfsx.MountUmnt:
			return (&nfsx.W{}).Str([]string{"/", "/d", "/missing", "relative", "/d/../d", ""}[r.Var%6]).B
		}
		return nil
	}
	handles := [][]byte{h.f, h.d, h.l, h.root, h.stale, {1, 2, 3}, {}, make([]byte, 64), make([]byte, 65), h.f, h.d, h.root}
	obj := handles[r.Var%len(handles)]
	names := []string{"f", "d", "l", "missing", "new", "..", "a/b", "", strings.Repeat("n", 256), "x\x00y", "d", "f"}
	name := names[r.Var%len(names)]
	dir := [][]byte{h.root, h.root, h.d, h.stale, h.f, h.root}[r.Var%6]
	switch r.Proc {
	case nfsx.ProcNull:
		return nil
	case nfsx.ProcGetattr, nfsx.ProcReadlink, nfsx.ProcFsstat, nfsx.ProcFsinfo, nfsx.ProcPathconf:
		return nfsx.ArgsFh(obj)
	case nfsx.ProcSetattr:
		var guard *nfsx.Time
		if r.Var%3 == 0 {
			guard = &nfsx.Time{Sec: 1, Nsec: 2}
		}
		return nfsx.ArgsSetattr(obj, nfsx.Sattr{Mode: nfsx.U32p(uint32(0600 + r.Var)), Size: []*uint64{nil, nfsx.U64p(3), nfsx.U64p(1 << 63)}[r.Var%3]}, guard)
	case nfsx.ProcLookup, nfsx.ProcRemove, nfsx.ProcRmdir:
		return nfsx.ArgsDirop(dir, name)
	case nfsx.ProcAccess:
		return nfsx.ArgsAccess(obj, 0x3f)
	case nfsx.ProcRead:
		return nfsx.ArgsRead(obj, []uint64{0, 5, 1 << 63, 1<<64 - 1}[r.Var%4], []uint32{10, 0, 100000, 1<<32 - 1}[r.Var%4])
	case nfsx.ProcWrite:
		data := make([]byte, []int{5, 0, 70000, 3}[r.Var%4])
		return nfsx.ArgsWrite(obj, []uint64{0, 1 << 62, 1<<64 - 1}[r.Var%3], uint32(len(data)), uint32(r.Var%4), data)
	case nfsx.ProcCreate:
		return nfsx.ArgsCreate(dir, name, uint32(r.Var%4), nfsx.Sattr{Mode: nfsx.U32p([]uint32{0644, 0100644, 0xFFFFFFFF}[r.Var%3])}, [8]byte{1})
	case nfsx.ProcMkdir:
		return nfsx.ArgsMkdir(dir, name, nfsx.Sattr{Mode: nfsx.U32p(0755)})
	case nfsx.ProcSymlink:
		return nfsx.ArgsSymlink(dir, name, nfsx.Sattr{}, []string{"f", "/abs", "../up", ""}[r.Var%4])
	case nfsx.ProcMknod:
		return nfsx.ArgsMknod(dir, name, []uint32{nfsx.TypeFifo, nfsx.TypeChr, nfsx.TypeSock, 9}[r.Var%4], nfsx.Sattr{})
	case nfsx.ProcRename:
		return nfsx.ArgsRename(dir, name, h.root, names[(r.Var+1)%len(names)])
	case nfsx.ProcLink:
		return nfsx.ArgsLink(obj, dir, name)
	case nfsx.ProcReaddir:
		// (counts that cut the listing of the export root - 11 entries - after one, a few or most entries)
		return nfsx.ArgsReaddir(obj, uint64(r.Var%3), [8]byte{}, []uint32{4096, 0, 100, 160, 250, 400, 800}[(r.Var+r.Cut)%7])
	case nfsx.ProcReaddirplus:
		return nfsx.ArgsReaddirplus(obj, uint64(r.Var%3), [8]byte{}, 4096, []uint32{8192, 0, 100, 300, 450, 700, 1200}[(r.Var+r.Cut)%7])
	case nfsx.ProcCommit:
		return nfsx.ArgsCommit(obj, 0, 0)
	}
	return nfsx.ArgsFh(obj)
}

// c14Judge strictly decodes a reply for the call it answers.
func c14Judge(wire []byte, xid uint32, r c14Req) (sig, msg string, nonOK bool) {
	rp, err := nfsx.ParseReply(wire)
	name := fmt.Sprintf("prog %d vers %d proc %d", r.Prog, r.Vers, r.Proc)
	if r.Prog == nfsx.ProgNFS {
		name = "NFS v" + fmt.Sprint(r.Vers) + " " + nfsx.ProcNames[r.Proc]
	}
	if err != nil {
		return "rpc-reply-malformed", fmt.Sprintf("%s: reply is not a well-formed RFC 1831 reply: %v (%d bytes)", name, err, len(wire)), true
	}
	if rp.Xid != xid {
		return "xid-not-echoed", fmt.Sprintf("%s: reply xid %d, call xid %d", name, rp.Xid, xid), true
	}
	if rp.Stat != nfsx.MsgAccepted || rp.AcceptStat != nfsx.AcceptSuccess {
		return "", "", true
	}
	known := r.Prog == nfsx.ProgNFS && r.Vers == 3 && r.Proc <= 21 || r.Prog == nfsx.ProgMount && (r.Vers == 3 || r.Vers == 1) && r.Proc <= 5
	if !known {
		return "success-for-unknown-program-version-or-procedure", fmt.Sprintf("%s answered accept_stat SUCCESS", name), true
	}
	if r.Prog == nfsx.ProgMount {
		if r.Vers == 1 {
			return "", "", false // MOUNT v1 bodies are not judged
		}
		res, err := nfsx.DecodeMount3(r.Proc, rp.Body)
		if err != nil {
			if res != nil && strings.Contains(err.Error(), "mountstat3") {
				return fmt.Sprintf("status-not-in-mountstat3:%d", res.Status), fmt.Sprintf("MOUNT v3 proc %d: %v", r.Proc, err), true
			}
			return fmt.Sprintf("mount-reply-malformed:proc%d", r.Proc), fmt.Sprintf("MOUNT v3 proc %d: %v (body %d bytes)", r.Proc, err, len(rp.Body)), true
		}
		return "", "", res.Status != 0
	}
	res, err := nfsx.DecodeNFS3(r.Proc, rp.Body)
	if err != nil {
		if res != nil && strings.Contains(err.Error(), "nfsstat3") {
			return fmt.Sprintf("status-not-in-nfsstat3:%d", res.Status), fmt.Sprintf("%s: %v", name, err), true
		}
		st := "?"
		if res != nil {
			st = statusName(res.Status)
		}
		return fmt.Sprintf("nfs-reply-malformed:%s", nfsx.ProcNames[r.Proc]), fmt.Sprintf("%s status %s: %v (body %d bytes)", name, st, err, len(rp.Body)), true
	}
	return "", "", res.Status != nfsx.OK
}

func runC14(tb stat.TB, c c14Case) {
	const id, check = "C14", "TestC14"
	v := vfs.New()
	v.SeedFile("/f", 0644, 0, 0, []byte("file data"))
	v.SeedDir("/d", 0755, 0, 0)
	v.SeedFile("/d/child", 0644, 0, 0, []byte("c"))
	v.SeedSymlink("/l", "f", 0, 0)
	for i := 0; i < 8; i++ {
		v.SeedFile(fmt.Sprintf("/e%d", i), 0644, 0, 0, []byte("e"))
	}
	if c.Odd > 0 {
		v.SetRawMode("/e7", []os.FileMode{0, os.ModeIrregular, os.ModeCharDevice, os.ModeNamedPipe, os.ModeSocket, os.ModeDevice}[c.Odd]|0644)
	}
	opts := absnfs.ExportOptions{AttrCacheTimeout: 1, AttrCacheSize: 4, ReadOnly: c.State == "readonly"}
	if c.State == "ratelimited" || c.State == "connlimited" {
		opts.EnableRateLimiting = true
		rc := absnfs.DefaultRateLimiterConfig()
		rc.ReadLargeOpsPerSecond, rc.WriteLargeOpsPerSecond, rc.ReaddirOpsPerSecond, rc.MountOpsPerMinute = 0, 0, 0, 0
		if c.State == "connlimited" {
			rc.PerIPRequestsPerSecond, rc.PerIPBurstSize = 0, 1
		}
		opts.RateLimitConfig = &rc
		opts.TransferSize = 1 << 20
	}
	opts.Timeouts = drv.FastTimeouts(5 * time.Second)
	var faulty *vfs.Faulty
	var s *session
	if c.State == "faulty" {
		faulty = vfs.NewFaulty(v)
		s = newSessionOn(tb, faulty, v, opts)
	} else {
		s = newSession(tb, v, opts)
	}
	defer s.close()
	var h c14H
	nt := false
	known := false

	var gate chan struct{}
	var parkedOnce sync.Once
	parked := make(chan struct{})
	drainDone := make(chan error, 1)
	reqDone := make(chan struct{})
	draining := false
	release := func() {
		if draining {
			close(gate)
			<-reqDone
			select {
			case <-drainDone:
			case <-time.After(20 * time.Second):
				tb.Fatalf("harness: policy update did not finish after the gate opened")
			}
			draining = false
		}
	}
	defer release()

	judge := func(wire []byte, xid uint32, r c14Req, via string) bool {
		sig, msg, nonOK := c14Judge(wire, xid, r)
		if nonOK || c.State != "normal" {
			nt = true
		}
		if sig != "" {
			if stat.Violate(tb, id, check, sig, c, "[state %s, %s, shape %s] %s", c.State, via, r.Shape, msg) {
				known = true
			}
			return true
		}
		return false
	}

	abandoned := guard(func() {
		// setup uses a tolerant path: replies to setup calls are judged like all others
		h.root = s.mount()
		look := func(n string) []byte {
			r, err := s.e.NFS3(drv.Root(), nfsx.ProcLookup, nfsx.ArgsDirop(h.root, n))
			if err != nil || r.Status != nfsx.OK {
				tb.Fatalf("harness: setup lookup %s: %v", n, err)
			}
			return r.Fh
		}
		h.f, h.d, h.l = look("f"), look("d"), look("l")
		h.stale = nfsx.Fh8(987654)

		if c.State == "ratelimited" {
			// exhaust the per-operation buckets (bursts 10/5/5/2, rate 0)
			for i := 0; i < 12; i++ {
				s.e.Call(drv.Root(), nfsx.ProgNFS, 3, nfsx.ProcRead, nfsx.ArgsRead(h.f, 0, 100000))
				s.e.Call(drv.Root(), nfsx.ProgNFS, 3, nfsx.ProcReaddir, nfsx.ArgsReaddir(h.root, 0, [8]byte{}, 4096))
				s.e.Call(drv.Root(), nfsx.ProgMount, 3, nfsx.MountMnt, (&nfsx.W{}).Str("/").B)
				s.e.Call(drv.Root(), nfsx.ProgNFS, 3, nfsx.ProcWrite, nfsx.ArgsWrite(h.f, 0, 70000, 2, make([]byte, 70000)))
			}
		}
		if c.State == "drain" {
			gate = make(chan struct{})
			v.SetBefore(func(call *vfs.Call) {
				if call.Op == "Lstat" && len(call.Paths) == 1 && call.Paths[0] == "/d/child" {
					parkedOnce.Do(func() { close(parked) })
					<-gate
				}
			})
			go func() {
				defer close(reqDone)
				s.e.Call(drv.Root(), nfsx.ProgNFS, 3, nfsx.ProcLookup, nfsx.ArgsDirop(h.d, "child"))
			}()
			select {
			case <-parked:
			case <-time.After(10 * time.Second):
				tb.Fatalf("harness: request did not park")
			}
			draining = true
			go func() {
				drainDone <- s.e.NFS.UpdatePolicyOptions(absnfs.PolicyOptions{ReadOnly: false})
			}()
			// wait until the writer is queued: probes start being refused
			deadline := time.Now().Add(10 * time.Second)
			for {
				rp, err := s.e.Call(drv.Root(), nfsx.ProgNFS, 3, nfsx.ProcGetattr, nfsx.ArgsFh(h.root))
				if err == nil && rp.Stat == nfsx.MsgAccepted && rp.AcceptStat == 0 && len(rp.Body) >= 4 && (&nfsx.R{B: rp.Body}).U32() == nfsx.ErrJukebox {
					break
				}
				if err != nil && drv.IsMalformed(err) {
					break // a malformed refusal also proves the drain is in progress
				}
				if time.Now().After(deadline) {
					stat.Inconclusive("C14: drain state could not be established")
					release()
					panic(abandon{"drain not observable"})
				}
				time.Sleep(200 * time.Microsecond)
			}
		}

		var pc *drv.PipeConn
		if c.State == "connlimited" {
			pc = s.e.Pipe("10.1.2.3", 700)
			defer pc.Close()
		}
		for _, r := range c.Reqs {
			args := c14Args(h, r)
			switch r.Shape {
			case "trunc":
				if 4*r.Cut < len(args) {
					args = args[:4*r.Cut]
				}
			case "random":
				args = r.Rnd
			case "long":
				args = append(args, make([]byte, 4*r.Cut+4)...)
			}
			if faulty != nil {
				at, ferr := r.FaultAt, c14Faults[r.FaultErr%len(c14Faults)]
				faulty.Arm(func(op string, paths []string, n int) error {
					if n != at {
						return nil
					}
					stat.Label("backend_fault_injected", 1)
					p := ""
					if len(paths) > 0 {
						p = paths[0]
					}
					if n%2 == 0 {
						return ferr // bare error
					}
					return &os.PathError{Op: strings.ToLower(op), Path: p, Err: ferr}
				})
			}
			xid := s.e.NextXid()
			cl := drv.Root()
			msg := nfsx.Call(xid, r.Prog, r.Vers, r.Proc, cl.Cred, nfsx.AuthNone(), args)
			if pc != nil {
				if err := pc.Send(msg); err != nil {
					return
				}
				wire, err := pc.Recv(5 * time.Second)
				if err != nil {
					// the server may close the connection on a handler error; that is C15's business
					stat.Label("pipe_closed", 1)
					return
				}
				if judge(wire, xid, r, "record-marking connection") {
					return
				}
				continue
			}
			wire, err := s.e.CallWire(cl, msg)
			if err != nil {
				if errors.Is(err, drv.ErrTimeout) {
					stat.Label("handlecall_timeout", 1)
					continue
				}
				tb.Fatalf("harness: %v", err)
			}
			via := "HandleCall"
			if faulty != nil && r.FaultAt > 0 && faulty.Count() >= r.FaultAt {
				via = fmt.Sprintf("HandleCall, backend call #%d of the request failed with %q", r.FaultAt, c14Faults[r.FaultErr%len(c14Faults)])
			}
			if judge(wire, xid, r, via) {
				return
			}
		}
	})
	release()
	if abandoned {
		return
	}
	if known {
		stat.Case(c, false, "ended_at_known_finding", "state_"+c.State)
		return
	}
	stat.Case(c, nt, "state_"+c.State)
}

var propC14 = defProp("C14", "TestC14", genC14, runC14)

func TestC14(t *testing.T) { propC14.Test(t) }

// ---- concurrent phase: replies must stay well-formed (and READ data must be the requested file's) when calls overlap

type c14CCase struct {
	Clients [][]c14Req `json:"clients"`
}

func genC14C(t *rapid.T) c14CCase {
	var c c14CCase
	nc := rapid.IntRange(2, 6).Draw(t, "nclients")
	for i := 0; i < nc; i++ {
		var rs []c14Req
		n := rapid.IntRange(5, 40).Draw(t, "n")
		for j := 0; j < n; j++ {
			rs = append(rs, c14Req{Prog: nfsx.ProgNFS, Vers: 3, Proc: pick(t, "proc", uint32(nfsx.ProcRead), nfsx.ProcRead, nfsx.ProcRead, nfsx.ProcGetattr, nfsx.ProcLookup, nfsx.ProcReaddir, nfsx.ProcReaddirplus, nfsx.ProcAccess, nfsx.ProcReadlink, nfsx.ProcFsinfo, nfsx.ProcWrite),
				Var: rapid.IntRange(0, 5).Draw(t, "var"), Shape: "ok"})
		}
		c.Clients = append(c.Clients, rs)
	}
	return c
}

func runC14C(tb stat.TB, c c14CCase) {
	const id, check = "C14", "TestC14Concurrent"
	v := vfs.New()
	sizes := []int{777, 8224, 100, 0, 4096, 33}
	for i, sz := range sizes {
		b := make([]byte, sz)
		for j := range b {
			b[j] = byte(i + 1)
		}
		v.SeedFile(fmt.Sprintf("/r%d", i), 0644, 0, 0, b)
	}
	v.SeedSymlink("/l", "r0", 0, 0)
	s := newSession(tb, v, absnfs.ExportOptions{AttrCacheTimeout: time.Hour, AttrCacheSize: 100, TransferSize: 65536, MaxWorkers: 4})
	defer s.close()
	root := s.e.MustMount(tb)
	var fhs [][]byte
	for i := range sizes {
		r, err := s.e.NFS3(drv.Root(), nfsx.ProcLookup, nfsx.ArgsDirop(root, fmt.Sprintf("r%d", i)))
		if err != nil || r.Status != nfsx.OK {
			tb.Fatalf("harness: setup lookup: %v", err)
		}
		fhs = append(fhs, r.Fh)
	}
	lr, err := s.e.NFS3(drv.Root(), nfsx.ProcLookup, nfsx.ArgsDirop(root, "l"))
	if err != nil || lr.Status != nfsx.OK {
		tb.Fatalf("harness: setup lookup l: %v", err)
	}
	var mu sync.Mutex
	var firstSig, firstMsg string
	var wg sync.WaitGroup
	for ci, reqs := range c.Clients {
		wg.Add(1)
		go func(ci int, reqs []c14Req) {
			defer wg.Done()
			for _, r := range reqs {
				fi := (r.Var + ci) % len(sizes)
				var args []byte
				switch r.Proc {
				case nfsx.ProcRead:
					args = nfsx.ArgsRead(fhs[fi], 0, 65536)
				case nfsx.ProcWrite:
					if sizes[fi] == 0 {
						fi = 0 // never grow the empty file: its READs are judged by size
					}
					args = nfsx.ArgsWrite(fhs[fi], 0, 1, nfsx.FileSync, []byte{byte(fi + 1)})
				case nfsx.ProcGetattr, nfsx.ProcAccess, nfsx.ProcFsinfo:
					args = nfsx.ArgsFh(fhs[fi])
					if r.Proc == nfsx.ProcAccess {
						args = nfsx.ArgsAccess(fhs[fi], 0x3f)
					}
				case nfsx.ProcLookup:
					args = nfsx.ArgsDirop(root, fmt.Sprintf("r%d", fi))
				case nfsx.ProcReaddir:
					args = nfsx.ArgsReaddir(root, 0, [8]byte{}, 4096)
				case nfsx.ProcReaddirplus:
					args = nfsx.ArgsReaddirplus(root, 0, [8]byte{}, 4096, 8192)
				case nfsx.ProcReadlink:
					args = nfsx.ArgsFh(lr.Fh)
				}
				xid := s.e.NextXid()
				wire, err := s.e.CallWire(drv.Root(), nfsx.Call(xid, r.Prog, r.Vers, r.Proc, drv.Root().Cred, nfsx.AuthNone(), args))
				if err != nil {
					continue
				}
				sig, msg, _ := c14Judge(wire, xid, r)
				if sig == "" && r.Proc == nfsx.ProcRead {
					if rp, perr := nfsx.ParseReply(wire); perr == nil {
						if res, derr := nfsx.DecodeNFS3(nfsx.ProcRead, rp.Body); derr == nil && res.Status == nfsx.OK {
							if len(res.Data) != sizes[fi] || (len(res.Data) > 0 && (res.Data[0] != byte(fi+1) || res.Data[len(res.Data)-1] != byte(fi+1))) {
								sig, msg = "read-reply-carries-another-requests-data", fmt.Sprintf("READ of r%d (%d bytes of %#x) returned %d bytes starting with %#x", fi, sizes[fi], fi+1, len(res.Data), first(res.Data))
							}
						}
					}
				}
				if sig != "" {
					mu.Lock()
					if firstSig == "" {
						firstSig, firstMsg = sig, msg
					}
					mu.Unlock()
					return
				}
			}
		}(ci, reqs)
	}
	wg.Wait()
	if firstSig != "" {
		stat.Violate(tb, id, check, firstSig, c, "[concurrent clients] %s", firstMsg)
		return
	}
	stat.Case(c, true)
}

func first(b []byte) byte {
	if len(b) == 0 {
		return 0
	}
	return b[0]
}

var propC14C = defProp("C14", "TestC14Concurrent", genC14C, runC14C)

func TestC14Concurrent(t *testing.T) { propC14C.Test(t) }
