package checks

// C15, replies larger than one record-marking fragment (1 MiB): a listing of a big directory with a huge
// count is the one reply the server has to split into fragments. Generated call sequences mix such listings
// with small calls on one connection; the client reassembles fragments as RFC 1831 says. Oracle: one reply per
// call, in order, with the call's XID, each decoding strictly, and the listing complete.

import (
	"fmt"
	"strings"
	"testing"
	"time"

	"github.com/absfs/absnfs"
	"pgregory.net/rapid"

	"verif/harness/drv"
	"verif/harness/nfsx"
	"verif/harness/stat"
	"verif/harness/vfs"
)

type c15BigCase struct {
	Entries int      `json:"entries"`
	NameLen int      `json:"name_len"`
	Calls   []string `json:"calls"` // readdirplus readdir null getattr
}

func genC15Big(t *rapid.T) c15BigCase {
	c := c15BigCase{Entries: pick(t, "entries", 2800, 3500, 4200), NameLen: pick(t, "name_len", 200, 255)}
	n := rapid.IntRange(3, 7).Draw(t, "ncalls")
	for i := 0; i < n; i++ {
		c.Calls = append(c.Calls, pick(t, "call", "readdirplus", "readdirplus", "readdir", "null", "getattr"))
	}
	c.Calls = append(c.Calls, "null")
	return c
}

func runC15Big(tb stat.TB, c c15BigCase) {
	const id, check = "C15", "TestC15Big"
	v := vfs.New()
	v.SeedDir("/big", 0755, 0, 0)
	for i := 0; i < c.Entries; i++ {
		v.SeedFile(fmt.Sprintf("/big/%05d%s", i, strings.Repeat("n", c.NameLen-5)), 0644, 0, 0, nil)
	}
	s := newSession(tb, v, absnfs.ExportOptions{AttrCacheTimeout: time.Hour, AttrCacheSize: 100000, Timeouts: drv.FastTimeouts(60 * time.Second)})
	defer s.close()
	root := s.e.MustMount(tb)
	lr, err := s.e.NFS3(drv.Root(), nfsx.ProcLookup, nfsx.ArgsDirop(root, "big"))
	if err != nil || lr.Status != nfsx.OK {
		tb.Fatalf("harness: lookup big: %v", err)
	}
	pc := s.e.Pipe("10.9.8.5", 700)
	defer pc.Close()
	cred := nfsx.AuthSys(1, "h", 0, 0, nil)
	big := false
	for i, call := range c.Calls {
		xid := uint32(8000 + i)
		var proc uint32
		var args []byte
		switch call {
		case "readdirplus":
			proc, args = nfsx.ProcReaddirplus, nfsx.ArgsReaddirplus(lr.Fh, 0, [8]byte{}, 1<<32-1, 1<<32-1)
		case "readdir":
			proc, args = nfsx.ProcReaddir, nfsx.ArgsReaddir(lr.Fh, 0, [8]byte{}, 1<<32-1)
		case "getattr":
			proc, args = nfsx.ProcGetattr, nfsx.ArgsFh(lr.Fh)
		default:
			proc, args = nfsx.ProcNull, nil
		}
		what := fmt.Sprintf("call#%d %s (xid %d) on one connection, directory of %d entries with %d-byte names", i, call, xid, c.Entries, c.NameLen)
		if err := pc.Send(nfsx.Call(xid, nfsx.ProgNFS, 3, proc, cred, nfsx.AuthNone(), args)); err != nil {
			stat.Violate(tb, id, check, "connection-broken-after-large-reply", c, "%s: cannot send: %v", what, err)
			return
		}
		rec, err := pc.Recv(60 * time.Second)
		if err != nil {
			stat.Violate(tb, id, check, "connection-broken-after-large-reply", c, "%s: no well-framed reply record: %v", what, err)
			return
		}
		if len(rec) > 1<<20 {
			big = true
		}
		rp, perr := nfsx.ParseReply(rec)
		if perr != nil || rp.Xid != xid {
			got := uint32(0)
			if rp != nil {
				got = rp.Xid
			}
			stat.Violate(tb, id, check, "reply-for-no-decodable-call-or-out-of-order", c, "%s: reply record of %d bytes: parse error %v, xid %d", what, len(rec), perr, got)
			return
		}
		if rp.Stat != nfsx.MsgAccepted || rp.AcceptStat != nfsx.AcceptSuccess || proc == nfsx.ProcNull {
			continue
		}
		res, derr := nfsx.DecodeNFS3(proc, rp.Body)
		if derr != nil {
			stat.Violate(tb, id, check, "large-reply-does-not-decode", c, "%s: reply of %d bytes does not decode as the procedure's result: %v", what, len(rec), derr)
			return
		}
		if (proc == nfsx.ProcReaddirplus || proc == nfsx.ProcReaddir) && res.Status == nfsx.OK && res.EOF && len(res.Entries) != c.Entries {
			stat.Violate(tb, id, check, "large-listing-incomplete", c, "%s: eof with %d of %d entries", what, len(res.Entries), c.Entries)
			return
		}
	}
	var ls []string
	if big {
		ls = append(ls, "reply_above_one_fragment")
	}
	stat.Case(c, big, ls...)
}

var propC15Big = defProp("C15", "TestC15Big", genC15Big, runC15Big)

func TestC15Big(t *testing.T) { propC15Big.Test(t) }
