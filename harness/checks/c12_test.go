package checks

// C12 ACCESS decisions follow UNIX permission rules and never over-grant.
//
// The finite space is enumerated: modes x {file, directory} x caller relation
// x 64 request masks x read-only {off,on}; quick tier: the 512 rwx modes and 40 modes with setuid/setgid/sticky bits,
// thorough tier: all 4096 twelve-bit modes. A rapid property adds masks above
// 0x3F and boundary ids. Oracle: a decision table written from the statement.

import (
	"os"
	"time"
	"strings"
	"encoding/json"
	"fmt"
	"testing"

	"github.com/absfs/absnfs"
	"pgregory.net/rapid"

	"verif/harness/drv"
	"verif/harness/nfsx"
	"verif/harness/stat"
	"verif/harness/vfs"
)

type c12Caller struct {
	Name     string   `json:"name"`
	Uid, Gid uint32   `json:"-"`
	Aux      []uint32 `json:"-"`
}

const c12FileUid, c12FileGid = 1000, 2000

var c12Callers = []c12Caller{
	{"owner", c12FileUid, 9, nil},
	{"group", 5, c12FileGid, nil},
	{"aux-group-only", 5, 9, []uint32{7, c12FileGid}},
	{"other", 5, 9, []uint32{7}},
	{"owner-and-group", c12FileUid, c12FileGid, []uint32{c12FileGid}},
	{"root", 0, 0, nil},
}

// accessTable is the reference decision.
func accessTable(mode uint32, isDir bool, fileUid, fileGid, uid, gid uint32, aux []uint32, mask uint32, readOnly bool) uint32 {
	var bits uint32
	switch {
	case uid == 0:
		bits = 7
	case uid == fileUid:
		bits = mode >> 6 & 7
	default:
		member := gid == fileGid
		for _, g := range aux {
			if g == fileGid {
				member = true
			}
		}
		if member {
			bits = mode >> 3 & 7
		} else {
			bits = mode & 7
		}
	}
	var out uint32
	if bits&4 != 0 {
		out |= nfsx.AccessRead
	}
	if bits&2 != 0 && !readOnly {
		out |= nfsx.AccessModify | nfsx.AccessExtend
		if isDir {
			out |= nfsx.AccessDelete
		}
	}
	if bits&1 != 0 {
		out |= nfsx.AccessExecute
		if isDir {
			out |= nfsx.AccessLookup
		}
	}
	return out & mask
}

type c12Point struct {
	Mode     uint32 `json:"mode"`
	Dir      bool   `json:"dir"`
	Caller   string `json:"caller"`
	Mask     uint32 `json:"mask"`
	ReadOnly bool   `json:"read_only"`
}

type c12Env struct {
	s      *session
	fh     map[bool][]byte
	policy absnfs.PolicyOptions
}

func newC12Env(tb stat.TB) *c12Env {
	v := vfs.New()
	v.SeedFile("/f", 0644, 0, 0, []byte("x"))
	v.SeedDir("/d", 0755, 0, 0)
	s := newSession(tb, v, absnfs.ExportOptions{Squash: "none", AttrCacheTimeout: 1, AttrCacheSize: 2})
	e := &c12Env{s: s, fh: map[bool][]byte{}}
	root := s.mount()
	for dir, n := range map[bool]string{false: "f", true: "d"} {
		r := s.nfs(nfsx.ProcLookup, nfsx.ArgsDirop(root, n))
		if r.Status != nfsx.OK {
			tb.Fatalf("harness: lookup: %s", statusName(r.Status))
		}
		e.fh[dir] = r.Fh
		sr := s.nfs(nfsx.ProcSetattr, nfsx.ArgsSetattr(r.Fh, nfsx.Sattr{Uid: nfsx.U32p(c12FileUid), Gid: nfsx.U32p(c12FileGid)}, nil))
		if sr.Status != nfsx.OK {
			tb.Fatalf("harness: chown: %s", statusName(sr.Status))
		}
	}
	return e
}

func (e *c12Env) setRO(tb stat.TB, ro bool) {
	cur := e.s.e.NFS.GetExportOptions()
	p := absnfs.PolicyOptions{ReadOnly: ro, Squash: cur.Squash}
	if err := e.s.e.NFS.UpdatePolicyOptions(p); err != nil {
		tb.Fatalf("harness: %v", err)
	}
}

func (e *c12Env) setMode(tb stat.TB, dir bool, mode uint32) bool {
	r := e.s.nfs(nfsx.ProcSetattr, nfsx.ArgsSetattr(e.fh[dir], nfsx.Sattr{Mode: nfsx.U32p(mode)}, nil))
	if r.Status == nfsx.OK && mode&0o7000 != 0 {
		// The export hands only the nine permission bits to the backend's Chmod, so an object carrying setuid, setgid or
		// sticky bits is one the backend already had (a /tmp-like directory): those bits are planted in the backend.
		perm := os.FileMode(mode & 0o777)
		if mode&0o4000 != 0 {
			perm |= os.ModeSetuid
		}
		if mode&0o2000 != 0 {
			perm |= os.ModeSetgid
		}
		if mode&0o1000 != 0 {
			perm |= os.ModeSticky
		}
		path := "/f"
		if dir {
			path = "/d"
		}
		e.s.v.SetOwnerMode(path, perm, c12FileUid, c12FileGid)
	}
	return r.Status == nfsx.OK
}

func (e *c12Env) access(dir bool, c c12Caller, mask uint32) (uint32, bool) {
	cl := drv.Client{IP: "127.0.0.1", Port: 700, Cred: nfsx.AuthSys(1, "h", c.Uid, c.Gid, c.Aux)}
	r := e.s.nfsAs(cl, nfsx.ProcAccess, nfsx.ArgsAccess(e.fh[dir], mask))
	if r.Status != nfsx.OK {
		return 0, false
	}
	return r.Access, true
}

func c12Judge(tb stat.TB, check string, p c12Point, c c12Caller, got uint32) bool {
	want := accessTable(p.Mode, p.Dir, c12FileUid, c12FileGid, c.Uid, c.Gid, c.Aux, p.Mask, p.ReadOnly)
	if got == want {
		return false
	}
	sig := "access-under-grants"
	switch {
	case got&^p.Mask != 0:
		sig = "access-grants-unrequested-bits"
	case p.ReadOnly && got&(nfsx.AccessModify|nfsx.AccessExtend|nfsx.AccessDelete) != 0:
		sig = "access-grants-write-bits-read-only"
	case !p.Dir && got&(nfsx.AccessLookup|nfsx.AccessDelete) != 0:
		sig = "access-grants-lookup-or-delete-on-file"
	case got&^want != 0:
		sig = "access-over-grants"
	}
	return stat.Violate(tb, "C12", check, sig, p, "mode %#o dir=%v caller=%s mask=%#x read_only=%v: granted %#x, UNIX rules give %#x", p.Mode, p.Dir, p.Caller, p.Mask, p.ReadOnly, got, want)
}

func init() {
	registry["TestC12"] = func(tb stat.TB, raw json.RawMessage) error {
		var p c12Point
		if err := json.Unmarshal(raw, &p); err != nil {
			return err
		}
		guard(func() {
			e := newC12Env(tb)
			defer e.s.close()
			e.setMode(tb, p.Dir, p.Mode)
			e.setRO(tb, p.ReadOnly)
			for _, c := range c12Callers {
				if c.Name == p.Caller {
					if got, ok := e.access(p.Dir, c, p.Mask); ok {
						c12Judge(tb, "TestC12", p, c, got)
					}
				}
			}
		})
		return nil
	}
}

func TestC12(t *testing.T) {
	stat.SetProperty("C12")
	maxMode := uint32(0o777)
	if thorough() {
		maxMode = 0o7777
	}
	stat.SetDisjoint(true)
	abandoned := guard(func() {
		e := newC12Env(t)
		defer e.s.close()
		modes := make([]uint32, 0, int(maxMode)+64)
		for mode := uint32(0); mode <= maxMode; mode++ {
			modes = append(modes, mode)
		}
		if maxMode < 0o7777 {
			// quick tier: the 512 rwx modes and a sample of modes carrying setuid / setgid / sticky bits
			for _, special := range []uint32{0o1000, 0o2000, 0o4000, 0o7000} {
				for _, m := range []uint32{0o777, 0o770, 0o707, 0o077, 0o733, 0o373, 0o337, 0o020, 0o002, 0o200} {
					modes = append(modes, special|m)
				}
			}
		}
		for mi, mode := range modes {
			if mi%nshards != shard {
				continue
			}
			for _, dir := range []bool{false, true} {
				if !e.setMode(t, dir, mode) {
					t.Fatalf("harness: SETATTR mode %#o failed", mode)
				}
			}
			for _, ro := range []bool{false, true} {
				e.setRO(t, ro)
				for _, dir := range []bool{false, true} {
					for _, c := range c12Callers {
						for mask := uint32(0); mask < 64; mask++ {
							got, ok := e.access(dir, c, mask)
							p := c12Point{Mode: mode, Dir: dir, Caller: c.Name, Mask: mask, ReadOnly: ro}
							if !ok {
								t.Fatalf("harness: ACCESS failed at %+v", p)
							}
							if c12Judge(t, "TestC12", p, c, got) {
								continue
							}
							var ci uint64
							for i := range c12Callers {
								if c12Callers[i].Name == c.Name {
									ci = uint64(i)
								}
							}
							key := uint64(mode)<<20 | uint64(mask)<<8 | ci<<4
							if dir {
								key |= 2
							}
							if ro {
								key |= 1
							}
							stat.CaseKey(key, true, func() any { return p })
						}
					}
				}
			}
			e.setRO(t, false)
		}
	})
	if abandoned {
		t.Fatalf("harness: enumeration abandoned (malformed reply)")
	}
}

// ---- rapid part: masks above 0x3F, arbitrary owners and ids

type c12RCase struct {
	Mode             uint32   `json:"mode"`
	Dir              bool     `json:"dir"`
	FileUid, FileGid uint32   `json:"-"`
	FU               uint32   `json:"file_uid"`
	FG               uint32   `json:"file_gid"`
	Uid              uint32   `json:"uid"`
	Gid              uint32   `json:"gid"`
	Aux              []uint32 `json:"aux"`
	Mask             uint32   `json:"mask"`
	ReadOnly         bool     `json:"read_only"`
	// Squash: the export's squash mode ("" = none). The decision is made for the effective identity, i.e. uid, gid
	// and auxiliary list after squashing; object mode and owner are then planted directly in the backend because a
	// squashed root cannot install them through SETATTR.
	Squash string `json:"squash,omitempty"`
	Conn   bool   `json:"conn,omitempty"` // requests travel over the record-marking connection loop
	// Relook: the attribute cache keeps entries for an hour, and between installing owner and mode and asking ACCESS the
	// client reads the attributes (GETATTR, READDIRPLUS of the parent) and looks the name up again; ACCESS goes through
	// the handle that second LOOKUP returned. The object's owner is what it was made to be, however often it is looked at.
	Relook bool `json:"relook,omitempty"`
	// AuthNone: ACCESS is asked with an AUTH_NONE credential; such a caller is nobody/nobody (65534/65534, no
	// supplementary groups) whatever the squash mode
	AuthNone bool `json:"auth_none,omitempty"`
}

func genC12R(t *rapid.T) c12RCase {
	ids := []uint32{0, 1, 5, 1000, 2000, 65534, 1<<32 - 1}
	c := c12RCase{Mode: uint32(rapid.IntRange(0, 0o7777).Draw(t, "mode")), Dir: rapid.Bool().Draw(t, "dir"),
		FU: rapid.SampledFrom(ids).Draw(t, "fu"), FG: rapid.SampledFrom(ids).Draw(t, "fg"),
		Uid: rapid.SampledFrom(ids).Draw(t, "uid"), Gid: rapid.SampledFrom(ids).Draw(t, "gid"),
		Mask: pick(t, "mask", uint32(0x3f), 0x40, 0x7f, 0xffffffff, 0x80000001, rapid.Uint32().Draw(t, "rmask")), ReadOnly: rapid.Bool().Draw(t, "ro")}
	c.Aux = rapid.SliceOfN(rapid.SampledFrom(ids), 0, 16).Draw(t, "aux")
	c.Squash = pick(t, "squash", "", "", "none", "root", "all", "ALL", "Root")
	c.Conn = rapid.IntRange(0, 3).Draw(t, "conn") == 0
	c.Relook = rapid.IntRange(0, 2).Draw(t, "relook") == 0
	c.AuthNone = rapid.IntRange(0, 7).Draw(t, "authnone") == 0
	return c
}

func runC12R(tb stat.TB, c c12RCase) {
	v := vfs.New()
	v.SeedFile("/f", 0644, 0, 0, []byte("x"))
	v.SeedDir("/d", 0755, 0, 0)
	squashed := c.Squash != "" && strings.ToLower(c.Squash) != "none"
	sq := c.Squash
	if sq == "" {
		sq = "none"
	}
	eo := absnfs.ExportOptions{Squash: sq, AttrCacheTimeout: 1, AttrCacheSize: 2}
	if c.Relook {
		eo.AttrCacheTimeout, eo.AttrCacheSize = time.Hour, 10000
	}
	s := newSession(tb, v, eo)
	defer s.close()
	s.e.ViaConn = c.Conn
	fu, fg := c.FU, c.FG
	abandoned := guard(func() {
		root := s.mount()
		name := "f"
		if c.Dir {
			name = "d"
		}
		var r *nfsx.Res
		if !squashed {
			r = s.nfs(nfsx.ProcLookup, nfsx.ArgsDirop(root, name))
			sr := s.nfs(nfsx.ProcSetattr, nfsx.ArgsSetattr(r.Fh, nfsx.Sattr{Mode: nfsx.U32p(c.Mode), Uid: nfsx.U32p(c.FU), Gid: nfsx.U32p(c.FG)}, nil))
			if sr.Status != nfsx.OK {
				stat.Discard(false)
				panic(abandon{"setattr refused"})
			}
		} else {
			// A squashed root cannot assign owners, and absnfs knows an object's owner only from what it recorded
			// itself (absfs reports none). The object is therefore made through the server by caller (FU, FG) - it
			// gets that caller's effective identity - and the owner the server reports for it in GETATTR is the
			// owner the decision is judged against. The mode is judged against the backend.
			maker := drv.User(c.FU, c.FG)
			if c.Dir {
				r = s.nfsAs(maker, nfsx.ProcMkdir, nfsx.ArgsMkdir(root, "made", nfsx.Sattr{Mode: nfsx.U32p(c.Mode)}))
			} else {
				r = s.nfsAs(maker, nfsx.ProcCreate, nfsx.ArgsCreate(root, "made", nfsx.Unchecked, nfsx.Sattr{Mode: nfsx.U32p(c.Mode)}, [8]byte{}))
			}
			if r.Status != nfsx.OK || len(r.Fh) == 0 {
				stat.Discard(false)
				panic(abandon{"setup create refused"})
			}
			s.nfsAs(maker, nfsx.ProcSetattr, nfsx.ArgsSetattr(r.Fh, nfsx.Sattr{Mode: nfsx.U32p(c.Mode)}, nil))
			ga := s.nfs(nfsx.ProcGetattr, nfsx.ArgsFh(r.Fh))
			ent, ok := v.PeekLstat("/made")
			if ga.Status != nfsx.OK || ga.Attr == nil || !ok || ent.Perm&0o777 != c.Mode&0o777 {
				stat.Discard(false)
				panic(abandon{"setup mode not installed"})
			}
			fu, fg = ga.Attr.Uid, ga.Attr.Gid
		}
		if c.ReadOnly {
			if err := s.e.NFS.UpdatePolicyOptions(absnfs.PolicyOptions{ReadOnly: true, Squash: sq}); err != nil {
				tb.Fatalf("harness: %v", err)
			}
		}
		if c.Relook {
			lname := name
			if squashed {
				lname = "made"
			}
			s.nfs(nfsx.ProcGetattr, nfsx.ArgsFh(r.Fh))
			s.nfs(nfsx.ProcReaddirplus, nfsx.ArgsReaddirplus(root, 0, [8]byte{}, 4096, 8192))
			s.nfs(nfsx.ProcGetattr, nfsx.ArgsFh(r.Fh))
			if r2 := s.nfs(nfsx.ProcLookup, nfsx.ArgsDirop(root, lname)); r2.Status == nfsx.OK && len(r2.Fh) > 0 {
				r = r2
			}
		}
		cl := drv.Client{IP: "127.0.0.1", Port: 700, Cred: nfsx.AuthSys(1, "h", c.Uid, c.Gid, c.Aux)}
		if c.AuthNone {
			cl.Cred = nfsx.AuthNone()
		}
		ar := s.nfsAs(cl, nfsx.ProcAccess, nfsx.ArgsAccess(r.Fh, c.Mask))
		if ar.Status != nfsx.OK {
			stat.Discard(false)
			panic(abandon{"access failed"})
		}
		eu, eg, eaux, _ := refSquash(sq, c.Uid, c.Gid, c.Aux)
		if c.AuthNone {
			eu, eg, eaux = 65534, 65534, nil
		}
		want := accessTable(c.Mode, c.Dir, fu, fg, eu, eg, eaux, c.Mask, c.ReadOnly)
		if ar.Access != want {
			sig := "access-under-grants"
			if ar.Access&^c.Mask != 0 {
				sig = "access-grants-unrequested-bits"
			} else if ar.Access&^want != 0 {
				sig = "access-over-grants"
			}
			stat.Violate(tb, "C12", "TestC12Rapid", sig, c, "%+v (object owner %d/%d, effective caller %d/%d aux %v): granted %#x, UNIX rules give %#x", c, fu, fg, eu, eg, eaux, ar.Access, want)
		}
	})
	if abandoned {
		return
	}
	ls := []string{"squash_" + strings.ToLower(sq)}
	if c.Conn {
		ls = append(ls, "over_connection_loop")
	}
	if c.Relook {
		ls = append(ls, "attributes_cached_and_name_looked_up_again")
	}
	if c.AuthNone {
		ls = append(ls, "access_asked_with_auth_none")
	}
	stat.Case(c, true, ls...)
}

var propC12R = defProp("C12", "TestC12Rapid", genC12R, runC12R)

func TestC12Rapid(t *testing.T) { propC12R.Test(t) }

var _ = fmt.Sprint
