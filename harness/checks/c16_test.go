package checks

// C16 Policy updates are atomic with respect to requests (drain-and-swap).
//
// The harness owns the schedule as far as Go allows: requests are parked inside
// the reference backend on gates, updates are started at generated points, the
// drain is proven to be in progress by probing until the first retry-later
// reply, gates are opened in a generated order. Oracle: policy-version
// invariants I1-I5, I7 (DESIGN.md) and, in the race variant, the race detector.

import (
	"errors"
	"fmt"
	"strconv"
	"strings"
	"sync"
	"testing"
	"time"

	"github.com/absfs/absnfs"
	"pgregory.net/rapid"

	"verif/harness/drv"
	"verif/harness/nfsx"
	"verif/harness/stat"
	"verif/harness/vfs"
)

type c16Step struct {
	Kind  string `json:"kind"` // req update open probe fresh conn
	Write bool   `json:"write,omitempty"`
	K     int    `json:"k,omitempty"`
	Via   string `json:"via,omitempty"` // update: policy | export
}

type c16Case struct {
	ShortTimeout bool      `json:"short_timeout"`
	Steps        []c16Step `json:"steps"`
	// ProbeConn: the probes that prove a drain (and the probe steps) travel over an established record-marking
	// connection, the way real clients' requests arrive, instead of a direct HandleCall. A request that arrives
	// mid-drain must be answered (retry later) while the drain lasts, not parked until the update returns.
	ProbeConn bool `json:"probe_conn,omitempty"`
}

func genC16(t *rapid.T) c16Case {
	c := c16Case{ShortTimeout: rapid.IntRange(0, 4).Draw(t, "short") == 0, ProbeConn: rapid.Bool().Draw(t, "probeconn")}
	n := rapid.IntRange(3, 14).Draw(t, "n")
	for i := 0; i < n; i++ {
		st := c16Step{Kind: pick(t, "kind", "req", "req", "req", "update", "update", "open", "open", "probe", "fresh", "conn")}
		st.Write = rapid.Bool().Draw(t, "write")
		st.K = rapid.IntRange(0, 5).Draw(t, "k")
		st.Via = pick(t, "via", "policy", "policy", "export")
		c.Steps = append(c.Steps, st)
	}
	return c
}

// c16Policy is policy number k: the version is stamped into MaxFileSize.
func c16Policy(k int) absnfs.PolicyOptions {
	// consecutive numbers 4j..4j+1 and 4j+2..4j+3 differ in nothing but the stamp
	// (an update that changes a single harmless-looking field must drain too)
	p := absnfs.PolicyOptions{MaxFileSize: int64(1000 + k), ReadOnly: (k/2)%2 == 1}
	if k%3 == 2 {
		p.AllowedIPs = []string{"10.0.0.1"}
	}
	if k%3 == 1 {
		// an allow-list that admits the harness' address: the next policy may drop it again
		p.AllowedIPs = []string{"10.0.0.2", "127.0.0.1"}
	}
	if k%4 == 3 {
		p.EnableRateLimiting = true
		rc := absnfs.DefaultRateLimiterConfig()
		rc.PerConnectionRequestsPerSecond, rc.PerConnectionBurstSize = 1, 1
		p.RateLimitConfig = &rc
	}
	return p
}

type c16Req struct {
	id       int
	write    bool
	admitted int64 // policy version in force at admission
	parked   chan struct{}
	gate     chan struct{}
	done     chan struct{}
	open     bool
	once     sync.Once
}

type c16Upd struct {
	k        int
	done     chan error
	returned bool
}

func runC16(tb stat.TB, c c16Case) {
	const id, check = "C16", "TestC16"
	v := vfs.New()
	v.SeedDir("/d", 0755, 0, 0)
	v.SeedFile("/f", 0644, 0, 0, []byte("x"))
	to := 3 * time.Second
	if c.ShortTimeout {
		to = 40 * time.Millisecond
	}
	opts := absnfs.ExportOptions{AttrCacheTimeout: 1, AttrCacheSize: 4, Timeouts: drv.FastTimeouts(to), MaxFileSize: 1000}
	s := newSession(tb, v, opts)
	defer s.close()
	s.tolerateMalformed = true

	var mu sync.Mutex
	var events []string
	logf := func(f string, a ...any) {
		mu.Lock()
		events = append(events, fmt.Sprintf(f, a...))
		mu.Unlock()
	}
	reqs := map[int]*c16Req{}
	type sample struct {
		req     int
		version int64
		op      string
	}
	var samples []sample
	v.SetBefore(func(call *vfs.Call) {
		if len(call.Paths) == 0 || !strings.HasPrefix(call.Paths[len(call.Paths)-1], "/d/g") {
			return
		}
		n, err := strconv.Atoi(strings.TrimPrefix(call.Paths[len(call.Paths)-1], "/d/g"))
		if err != nil {
			return
		}
		mu.Lock()
		r := reqs[n]
		mu.Unlock()
		if r == nil {
			return
		}
		r.once.Do(func() { close(r.parked) })
		<-r.gate
		ver := s.e.NFS.GetExportOptions().MaxFileSize
		mu.Lock()
		samples = append(samples, sample{n, ver, call.Op})
		mu.Unlock()
	})

	version := 0     // policy number in force
	nextPolicy := 1
	var pending []*c16Upd
	var parked []*c16Req
	nreq := 0
	nt := false
	var viol func(sig, f string, a ...any) bool
	stop := false
	viol = func(sig, f string, a ...any) bool {
		mu.Lock()
		ev := strings.Join(events, " | ")
		mu.Unlock()
		stop = true
		return stat.Violate(tb, id, check, sig, c, f+"  [history: %s]", append(a, ev)...)
	}
	inconclusive := func(why string) {
		stat.Inconclusive("C16: " + why)
		stop = true
	}

	var root, dfh []byte
	if guard(func() {
		// (with the 40 ms request timeout the harness' own setup calls can time out on a starved machine: such a case
		// is discarded, not judged)
		root = s.mount()
		dr := s.nfs(nfsx.ProcLookup, nfsx.ArgsDirop(root, "d"))
		if dr.Status != nfsx.OK {
			stat.Discard(false)
			panic(abandon{"setup lookup not served"})
		}
		dfh = dr.Fh
	}) {
		return
	}

	cleanup := func() {
		for _, r := range parked {
			if !r.open {
				close(r.gate)
				r.open = true
			}
		}
		for _, r := range reqs {
			select {
			case <-r.done:
			case <-time.After(20 * time.Second):
			}
		}
		for _, u := range pending {
			if !u.returned {
				select {
				case <-u.done:
					u.returned = true
				case <-time.After(30 * time.Second):
					viol("update-never-returns", "UpdatePolicyOptions(P%d) did not return within 30 s although every in-flight request finished", u.k)
				}
			}
		}
	}
	defer cleanup()

	drainActive := func() bool {
		for _, u := range pending {
			if !u.returned {
				return true
			}
		}
		return false
	}
	// reapUpdates notes updates that have returned and checks I2 at that moment.
	reapUpdates := func(wait time.Duration) {
		for _, u := range pending {
			if u.returned {
				continue
			}
			select {
			case err := <-u.done:
				u.returned = true
				if err != nil {
					tb.Fatalf("harness: update P%d failed: %v", u.k, err)
				}
				version = u.k
				logf("update P%d returned", u.k)
				for _, r := range parked {
					if !r.open && r.admitted < int64(1000+u.k) {
						viol("update-returns-while-old-request-in-backend", "UpdatePolicyOptions(P%d) returned while request g%d, admitted under version %d, is still parked inside the backend", u.k, r.id, r.admitted)
						return
					}
				}
			case <-time.After(wait):
			}
		}
	}
	var probePipe *drv.PipeConn
	defer func() {
		if probePipe != nil {
			probePipe.Close()
		}
	}()
	probeUnanswered := 0
	probeCall := func() (*nfsx.Reply, error) {
		if !c.ProbeConn {
			return s.e.Call(drv.Root(), nfsx.ProgNFS, 3, nfsx.ProcGetattr, nfsx.ArgsFh(root))
		}
		if probePipe == nil {
			probePipe = s.e.Pipe("127.0.0.1", 700)
		}
		xid := s.e.NextXid()
		err := probePipe.Send(nfsx.Call(xid, nfsx.ProgNFS, 3, nfsx.ProcGetattr, drv.Root().Cred, nfsx.AuthNone(), nfsx.ArgsFh(root)))
		var rec []byte
		if err == nil {
			rec, err = probePipe.Recv(4 * time.Second)
		}
		if err != nil {
			// no answer: a late one would desynchronise the next probe, so the connection is replaced
			probeUnanswered++
			probePipe.Close()
			probePipe = nil
			return nil, drv.ErrTimeout
		}
		rp, perr := nfsx.ParseReply(rec)
		if perr != nil || rp.Xid != xid {
			return nil, &drv.MalformedError{Proc: nfsx.ProcGetattr, Err: errors.New("probe reply undecodable or wrong xid"), Wire: rec}
		}
		return rp, nil
	}
	probeRefused := func() (refused bool, well bool) {
		rp, err := probeCall()
		if err != nil {
			return drv.IsMalformed(err), false
		}
		if rp.Stat == nfsx.MsgAccepted && rp.AcceptStat == 0 && len(rp.Body) >= 4 && (&nfsx.R{B: rp.Body}).U32() == nfsx.ErrJukebox {
			return true, true
		}
		return false, true
	}

	if c.ProbeConn {
		probeCall() // the probes' connection exists, and has been served, before the first update of the case
	}
	for si, st := range c.Steps {
		if stop {
			break
		}
		reapUpdates(0)
		if stop {
			break
		}
		pol := c16Policy(version)
		denied := len(pol.AllowedIPs) > 0
		for _, a := range pol.AllowedIPs {
			if a == "127.0.0.1" {
				denied = false
			}
		}
		switch st.Kind {
		case "req":
			if len(parked) >= 4 {
				continue
			}
			r := &c16Req{id: nreq, write: st.Write, parked: make(chan struct{}), gate: make(chan struct{}), done: make(chan struct{}), admitted: int64(1000 + version)}
			nreq++
			mu.Lock()
			reqs[r.id] = r
			mu.Unlock()
			draining := drainActive()
			logf("start g%d write=%v (in force P%d, draining=%v)", r.id, r.write, version, draining)
			var wire []byte
			var cerr error
			go func() {
				defer close(r.done)
				name := fmt.Sprintf("g%d", r.id)
				xid := s.e.NextXid()
				args := nfsx.ArgsDirop(dfh, name)
				proc := uint32(nfsx.ProcLookup)
				if r.write {
					proc, args = nfsx.ProcMkdir, nfsx.ArgsMkdir(dfh, name, nfsx.Sattr{})
				}
				wire, cerr = s.e.CallWire(drv.Root(), nfsx.Call(xid, nfsx.ProgNFS, 3, proc, drv.Root().Cred, nfsx.AuthNone(), args))
			}()
			select {
			case <-r.parked:
				logf("g%d parked", r.id)
				if draining {
					// admitted although an update was pending: only legal if that update had in fact already completed
					reapUpdates(2 * time.Second)
					if drainActive() && !stop {
						viol("request-admitted-during-drain", "request g%d entered the backend while UpdatePolicyOptions was draining", r.id)
					}
					r.admitted = int64(1000 + version)
				}
				if denied || (r.write && pol.ReadOnly) {
					if !draining {
						viol("request-not-judged-under-policy-in-force", "request g%d (write=%v) reached the backend although policy P%d (read_only=%v allowed=%v) forbids it", r.id, r.write, version, pol.ReadOnly, pol.AllowedIPs)
					}
				}
				parked = append(parked, r)
				if c.ShortTimeout {
					// let the request time out at the RPC level while its backend call stays parked:
					// the update must still wait for the backend work (drain), not for HandleCall
					select {
					case <-r.done:
						logf("g%d timed out in HandleCall, backend call still parked", r.id)
					case <-time.After(3 * time.Second):
					}
				}
			case <-r.done:
				// not admitted: refused, denied or ROFS
				r.open = true
				close(r.gate)
				logf("g%d answered without reaching the backend", r.id)
				if cerr == nil && !draining && !denied && !(r.write && pol.ReadOnly) {
					if rp, err := nfsx.ParseReply(wire); err == nil && rp.Stat == nfsx.MsgAccepted && rp.AcceptStat == 0 && len(rp.Body) >= 4 {
						if stw := (&nfsx.R{B: rp.Body}).U32(); stw == nfsx.ErrJukebox {
							viol("retry-later-without-drain", "request g%d was refused with JUKEBOX although no update is in progress (P%d in force)", r.id, version)
						}
					}
				}
			case <-time.After(10 * time.Second):
				inconclusive("request neither parked nor answered within 10 s")
			}
		case "update":
			if drainActive() {
				continue // one update at a time: policyMu serialises them anyway
			}
			k := nextPolicy
			nextPolicy++
			u := &c16Upd{k: k, done: make(chan error, 1)}
			pending = append(pending, u)
			holders := 0
			for _, r := range parked {
				if !r.open {
					holders++
				}
			}
			logf("start update P%d via %s (%d request(s) parked)", k, st.Via, holders)
			go func() {
				p := c16Policy(k)
				var err error
				if st.Via == "export" {
					o := s.e.NFS.GetExportOptions()
					o.ReadOnly, o.AllowedIPs, o.MaxFileSize, o.EnableRateLimiting, o.RateLimitConfig = p.ReadOnly, p.AllowedIPs, p.MaxFileSize, p.EnableRateLimiting, p.RateLimitConfig
					err = s.e.NFS.UpdateExportOptions(o)
				} else {
					err = s.e.NFS.UpdatePolicyOptions(p)
				}
				// The caller goes on using its own struct: what it does to it after the call is not an update. The
				// allow-list is turned into one that admits 127.0.0.1 and the limits into generous ones; the policy in
				// force must stay the one that was passed.
				for i := range p.AllowedIPs {
					p.AllowedIPs[i] = "127.0.0.1"
				}
				if p.RateLimitConfig != nil {
					p.RateLimitConfig.PerConnectionRequestsPerSecond, p.RateLimitConfig.PerConnectionBurstSize = 1000000, 1000000
				}
				u.done <- err
			}()
			if holders > 0 {
				nt = true
				// I3: prove the drain is in progress: probes must start being refused
				deadline := time.Now().Add(8 * time.Second)
				seen := false
				for time.Now().Before(deadline) {
					if ref, _ := probeRefused(); ref {
						seen = true
						break
					}
					reapUpdates(0)
					if !drainActive() || stop {
						break
					}
					time.Sleep(200 * time.Microsecond)
				}
				if stop {
					break
				}
				if !seen && drainActive() {
					viol("no-retry-later-during-drain", "update P%d is waiting for %d in-flight request(s) but probes are still being served (or, over a connection, left unanswered: %d)", k, holders, probeUnanswered)
				}
				if seen {
					logf("drain observed for P%d", k)
				}
			} else {
				reapUpdates(5 * time.Second)
				if drainActive() && !stop {
					viol("update-blocks-without-inflight-requests", "update P%d did not return although no request is in flight", k)
				}
			}
		case "open":
			var cand []*c16Req
			for _, r := range parked {
				if !r.open {
					cand = append(cand, r)
				}
			}
			if len(cand) == 0 {
				continue
			}
			r := cand[st.K%len(cand)]
			logf("open gate g%d", r.id)
			r.open = true
			close(r.gate)
			select {
			case <-r.done:
			case <-time.After(10 * time.Second):
				inconclusive("request did not finish after its gate opened")
			}
			// if that was the last holder, the pending update must now return
			left := 0
			for _, q := range parked {
				if !q.open {
					left++
				}
			}
			if left == 0 && drainActive() {
				reapUpdates(10 * time.Second)
				if drainActive() && !stop {
					viol("update-never-returns", "every in-flight request finished but the pending update did not return within 10 s")
				}
			}
		case "probe":
			if drainActive() {
				holders := 0
				for _, r := range parked {
					if !r.open {
						holders++
					}
				}
				if holders > 0 {
					if ref, _ := probeRefused(); !ref {
						reapUpdates(0)
						if drainActive() && !stop {
							viol("request-served-during-drain", "a probe was served while update was draining %d in-flight request(s)", holders)
						}
					}
				}
			}
		case "fresh":
			if drainActive() {
				continue
			}
			// I7: judged under the policy in force
			name := fmt.Sprintf("fresh%d", si)
			rp, err := s.e.Call(drv.Root(), nfsx.ProgNFS, 3, nfsx.ProcMkdir, nfsx.ArgsMkdir(root, name, nfsx.Sattr{}))
			if err != nil {
				if errors.Is(err, drv.ErrTimeout) {
					continue
				}
				if drv.IsMalformed(err) {
					continue
				}
				tb.Fatalf("harness: %v", err)
			}
			gotDenied := rp.Stat == nfsx.MsgDenied
			if gotDenied != denied {
				viol("request-not-judged-under-policy-in-force", "after update P%d returned (allowed=%v) a request from 127.0.0.1 got reply_stat=%d", version, pol.AllowedIPs, rp.Stat)
				break
			}
			if c.ProbeConn && !pol.EnableRateLimiting {
				// the same question over the connection the probes have been using since before the update: a host that
				// was served on it earlier is judged against the allow-list now in force like anybody else (policies
				// with rate limiting are left out: a refusal by the limiter is a MSG_DENIED reply too)
				if prp, perr := probeCall(); perr == nil {
					if (prp.Stat == nfsx.MsgDenied) != denied {
						viol("request-not-judged-under-policy-in-force", "after update P%d returned (allowed=%v) a request from 127.0.0.1 over a connection established before the update got reply_stat=%d", version, pol.AllowedIPs, prp.Stat)
						break
					}
					stat.Label("fresh_request_over_established_connection_judged", 1)
				}
			}
			if !gotDenied && rp.Stat == nfsx.MsgAccepted && rp.AcceptStat == 0 && len(rp.Body) >= 4 {
				stw := (&nfsx.R{B: rp.Body}).U32()
				if (stw == nfsx.ErrROFS) != pol.ReadOnly {
					viol("request-not-judged-under-policy-in-force", "after update P%d returned (read_only=%v) MKDIR replied %s", version, pol.ReadOnly, statusName(stw))
				}
			}
		case "conn":
			// I5: a connection opened before rate limiting is enabled must be limited afterwards
			if drainActive() || len(pol.AllowedIPs) > 0 || pol.EnableRateLimiting {
				continue
			}
			open := 0
			for _, r := range parked {
				if !r.open {
					open++
				}
			}
			if open > 0 {
				continue
			}
			pc := s.e.Pipe("127.0.0.1", 700)
			call := func() (*nfsx.Reply, error) {
				xid := s.e.NextXid()
				if err := pc.Send(nfsx.Call(xid, nfsx.ProgNFS, 3, 0, nfsx.AuthNone(), nfsx.AuthNone(), nil)); err != nil {
					return nil, err
				}
				rec, err := pc.Recv(5 * time.Second)
				if err != nil {
					return nil, err
				}
				return nfsx.ParseReply(rec)
			}
			if rp, err := call(); err != nil || rp.Stat != nfsx.MsgAccepted {
				pc.Close()
				inconclusive("pipe connection not served")
				break
			}
			if st.Write {
				// first an update that enables rate limiting with generous limits, so that the strict limits below
				// arrive as a change of configuration while limiting stays enabled
				k0 := nextPolicy
				nextPolicy++
				p0 := c16Policy(k0)
				p0.AllowedIPs = nil
				p0.EnableRateLimiting = true
				rc0 := absnfs.DefaultRateLimiterConfig()
				rc0.PerConnectionRequestsPerSecond, rc0.PerConnectionBurstSize = 100000, 100000
				rc0.GlobalRequestsPerSecond, rc0.PerIPRequestsPerSecond, rc0.PerIPBurstSize = 100000, 100000, 100000
				p0.RateLimitConfig = &rc0
				if err := s.e.NFS.UpdatePolicyOptions(p0); err != nil {
					tb.Fatalf("harness: %v", err)
				}
				logf("rate limiting enabled with generous limits by P%d", k0)
				if rp, err := call(); err != nil || rp.Stat != nfsx.MsgAccepted {
					pc.Close()
					inconclusive("pipe connection not served under generous limits")
					break
				}
			}
			// enable rate limiting: burst 1, 1 request/s per connection
			k := nextPolicy
			nextPolicy++
			p := c16Policy(k)
			p.AllowedIPs = nil
			p.ReadOnly = k%2 == 1
			p.EnableRateLimiting = true
			rc := absnfs.DefaultRateLimiterConfig()
			rc.PerConnectionRequestsPerSecond, rc.PerConnectionBurstSize = 1, 1
			p.RateLimitConfig = &rc
			if err := s.e.NFS.UpdatePolicyOptions(p); err != nil {
				tb.Fatalf("harness: %v", err)
			}
			logf("rate limiting enabled by P%d on an open connection", k)
			refused := false
			t0 := time.Now()
			for i := 0; i < 4; i++ {
				rp, err := call()
				if err != nil {
					break
				}
				if rp.Stat == nfsx.MsgDenied {
					refused = true
					break
				}
			}
			if !refused && time.Since(t0) > 800*time.Millisecond {
				// at 1 token/s a starved machine can stretch four calls over enough time to refill: not judged
				refused = true
				stat.Label("rate_limit_probe_too_slow_to_judge", 1)
			}
			pc.Close()
			nt = true
			// restore an unlimited policy with the same visible settings
			k2 := nextPolicy
			nextPolicy++
			p2 := absnfs.PolicyOptions{MaxFileSize: int64(1000 + k2), ReadOnly: p.ReadOnly}
			if err := s.e.NFS.UpdatePolicyOptions(p2); err != nil {
				tb.Fatalf("harness: %v", err)
			}
			// record what is now in force in terms of c16Policy numbering
			version = -1
			if !refused {
				viol("established-connection-not-rate-limited-after-update", "4 immediate calls on a connection opened before rate limiting (burst 1, 1/s) was enabled were all served")
			}
			// continue the case with explicit policy k2 semantics
			forced := p2
			_ = forced
			// from here on, use a synthetic version whose expectations equal p2
			version = c16Synth(p2.ReadOnly)
			nextPolicy = version + 1
			if err := s.e.NFS.UpdatePolicyOptions(c16Policy(version)); err != nil {
				tb.Fatalf("harness: %v", err)
			}
		}
	}
	cleanup()
	// I1: every backend call of a request saw the version it was admitted under
	if !stop {
		mu.Lock()
		ss := append([]sample(nil), samples...)
		mu.Unlock()
		for _, sm := range ss {
			r := reqs[sm.req]
			if r != nil && sm.version != r.admitted {
				viol("backend-call-under-different-policy-than-admission", "request g%d was admitted under version %d but its backend call %s ran with version %d in force", sm.req, r.admitted, sm.op, sm.version)
				break
			}
		}
	}
	var ls []string
	if c.ShortTimeout {
		ls = append(ls, "requests_time_out_while_parked")
	}
	if c.ProbeConn {
		ls = append(ls, "probes_over_connection")
	}
	stat.Case(c, nt, ls...)
}

// c16Synth returns a small policy number without AllowedIPs / rate limiting and the wanted read-only flag.
func c16Synth(ro bool) int {
	for k := 12; ; k++ {
		if k%3 == 0 && k%4 != 3 && ((k/2)%2 == 1) == ro {
			return k
		}
	}
}

var propC16 = defProp("C16", "TestC16", genC16, runC16)

func TestC16(t *testing.T) { propC16.Test(t) }
