package checks

// C23 READ and WRITE within the advertised FSINFO limits are served.
//
// Real record-marking TCP connection. For every configured TransferSize
// (construction and runtime) the client asks FSINFO and then issues WRITE and
// READ with counts up to the advertised maxima. Oracle: FSINFO-relative
// acceptance (never INVAL, never a dropped connection, at least one byte).

import (
	"bytes"
	"errors"
	"fmt"
	"net"
	"strings"
	"sync/atomic"
	"testing"
	"time"

	"github.com/absfs/absnfs"
	"pgregory.net/rapid"

	"verif/harness/drv"
	"verif/harness/nfsx"
	"verif/harness/stat"
	"verif/harness/vfs"
)

type c23Case struct {
	TS        int   `json:"transfer_size"`
	RuntimeTS int   `json:"runtime_transfer_size"` // 0: not changed at runtime
	Sel       []int `json:"sel"`                   // count selectors
	// ShrinkDuring > 0: a WRITE of the advertised wtmax is parked at its first backend call, TransferSize is set to
	// this value at runtime, then the WRITE goes on: it may store fewer bytes but has to say so
	ShrinkDuring int `json:"shrink_during,omitempty"`
	// RuntimeZero: a runtime update that leaves TransferSize unset (0 = "the default") follows; the limits FSINFO
	// advertises afterwards must still be served
	RuntimeZero bool `json:"runtime_zero,omitempty"`
	// FragBytes > 0: every call is sent as a record of fragments of that many bytes (a client may fragment as it likes;
	// a WRITE of wtmax in 256 KiB fragments is still one record within the record limit)
	FragBytes int `json:"frag_bytes,omitempty"`
	// OtherTS > 0: a second, unrelated export with this TransferSize is created in the same process after the one under
	// test (and retuned once more); exports do not share limits
	OtherTS int `json:"other_transfer_size,omitempty"`
	// BigCred: the client identifies itself with the largest AUTH_SYS credential the protocol allows (255-byte machine
	// name, 16 supplementary groups); a WRITE of the advertised wtmax must fit into a record all the same
	BigCred bool `json:"big_cred,omitempty"`
	// RateLimit: the export runs with rate limiting enabled (default configuration). A large READ or WRITE may then be
	// told to come back later (JUKEBOX); the client does, up to four times 1.2 s apart - a transfer within the
	// advertised maximum that is never admitted is not served
	RateLimit bool `json:"rate_limit,omitempty"`
}

var c23Sizes = []int{1, 7, 512, 4096, 65536, 100000, 1 << 20, 1 << 22, 0}

func genC23(t *rapid.T) c23Case {
	c := c23Case{TS: rapid.SampledFrom(c23Sizes).Draw(t, "ts")}
	if rapid.Bool().Draw(t, "runtime") {
		c.RuntimeTS = rapid.SampledFrom(c23Sizes[:8]).Draw(t, "rts")
		c.RuntimeZero = rapid.IntRange(0, 3).Draw(t, "rzero") == 0
	}
	c.Sel = rapid.SliceOfN(rapid.IntRange(0, 30), 3, 10).Draw(t, "sel")
	if rapid.IntRange(0, 2).Draw(t, "shrink") == 0 {
		c.ShrinkDuring = pick(t, "shrink_to", 1, 7, 512, 4096, 65536)
	}
	if rapid.IntRange(0, 2).Draw(t, "other") == 0 {
		c.OtherTS = pick(t, "other_ts", 1, 512, 4096, 65536, 1<<20)
	}
	if rapid.Bool().Draw(t, "fragmented") {
		c.FragBytes = pick(t, "frag_bytes", 100, 4096, 65536, 262144, 524288, 1000000)
	}
	c.BigCred = rapid.Bool().Draw(t, "bigcred")
	c.RateLimit = rapid.IntRange(0, 3).Draw(t, "ratelimit") == 0
	return c
}

type c23Conn struct {
	cl   *drv.TCPClient
	xid  uint32
	frag int
	big  bool
	// patience: how long a reply is waited for (0 = 10 s). A call that got no reply in time is repeated once, on a
	// fresh connection, with 90 s: on a starved machine a 1 MiB record takes its time, and only a request that is
	// not answered then either counts as unanswered.
	patience time.Duration
}

func c23Jukebox(rp *nfsx.Reply) bool {
	return rp != nil && rp.Stat == nfsx.MsgAccepted && rp.AcceptStat == nfsx.AcceptSuccess && len(rp.Body) >= 4 && (&nfsx.R{B: rp.Body}).U32() == nfsx.ErrJukebox
}

func c23Timeout(err error) bool {
	var ne net.Error
	return errors.As(err, &ne) && ne.Timeout()
}

var c23BigGids = []uint32{1, 2, 3, 4, 5, 6, 7, 8, 9, 10, 11, 12, 13, 14, 15, 16}

func (c *c23Conn) call(proc uint32, prog uint32, args []byte) (*nfsx.Reply, error) {
	c.xid++
	cred := nfsx.AuthSys(1, "h", 0, 0, nil)
	if c.big {
		cred = nfsx.AuthSys(1, strings.Repeat("h", 255), 0, 0, c23BigGids)
	}
	msg := nfsx.Call(c.xid, prog, 3, proc, cred, nfsx.AuthNone(), args)
	var frags []int
	if c.frag > 0 {
		for n := c.frag; n < len(msg); n += c.frag {
			frags = append(frags, c.frag)
		}
	}
	wait := 10 * time.Second
	if c.patience > 0 {
		wait = c.patience
	}
	rec, err := c.cl.RoundTrip(msg, wait, frags...)
	if err != nil {
		return nil, err
	}
	rp, err := nfsx.ParseReply(rec)
	if err != nil {
		return nil, err
	}
	if rp.Xid != c.xid {
		return nil, fmt.Errorf("xid mismatch")
	}
	return rp, nil
}

func c23Counts(max, pref uint32, sel []int) []uint32 {
	var all []uint32
	add := func(v uint32) {
		if v >= 1 && v <= max {
			all = append(all, v)
		}
	}
	add(1)
	add(pref)
	add(max - 1)
	add(max)
	add(pref + 1)
	add(65537)
	add(70000)
	for p := uint32(1); p != 0 && p <= max; p <<= 1 {
		add(p)
	}
	var out []uint32
	for _, s := range sel {
		out = append(out, all[s%len(all)])
	}
	out = append(out, max)
	return out
}

func runC23(tb stat.TB, c c23Case) {
	const id, check = "C23", "TestC23"
	v := vfs.New()
	eo := absnfs.ExportOptions{TransferSize: c.TS, AttrCacheTimeout: 1, AttrCacheSize: 4, MaxWorkers: 2}
	if c.RateLimit {
		rlc := absnfs.DefaultRateLimiterConfig()
		eo.EnableRateLimiting, eo.RateLimitConfig = true, &rlc
	}
	n, err := absnfs.New(v, eo)
	if err != nil {
		tb.Fatalf("harness: %v", err)
	}
	defer n.Close()
	if c.OtherTS > 0 {
		other, err := absnfs.New(vfs.New(), absnfs.ExportOptions{TransferSize: c.OtherTS, MaxWorkers: 1})
		if err != nil {
			tb.Fatalf("harness: second export: %v", err)
		}
		defer other.Close()
		other.UpdateTuningOptions(func(o *absnfs.TuningOptions) { o.TransferSize = c.OtherTS })
	}
	srv, err := absnfs.NewServer(absnfs.ServerOptions{Port: 0, Hostname: "127.0.0.1", UseRecordMarking: true})
	if err != nil {
		tb.Fatalf("harness: %v", err)
	}
	srv.SetHandler(n)
	if err := srv.Listen(); err != nil {
		tb.Fatalf("harness: %v", err)
	}
	defer srv.Stop()
	addr := fmt.Sprintf("127.0.0.1:%d", srv.GetPort())
	nt := false
	dial := func() *c23Conn {
		cl, err := drv.Dial(addr, 3*time.Second)
		if err != nil {
			tb.Fatalf("harness: dial: %v", err)
		}
		return &c23Conn{cl: cl, xid: 100, frag: c.FragBytes, big: c.BigCred}
	}
	conn := dial()
	defer func() { conn.cl.Close() }()
	rp, err := conn.call(nfsx.MountMnt, nfsx.ProgMount, (&nfsx.W{}).Str("/").B)
	if err != nil {
		tb.Fatalf("harness: MNT: %v", err)
	}
	m, err := nfsx.DecodeMount3(nfsx.MountMnt, rp.Body)
	if err != nil || m.Status != 0 {
		tb.Fatalf("harness: MNT: %v", err)
	}
	root := m.Fh
	rp, err = conn.call(nfsx.ProcCreate, nfsx.ProgNFS, nfsx.ArgsCreate(root, "data", nfsx.Unchecked, nfsx.Sattr{}, [8]byte{}))
	if err != nil {
		tb.Fatalf("harness: CREATE: %v", err)
	}
	cr, err := nfsx.DecodeNFS3(nfsx.ProcCreate, rp.Body)
	if err != nil || cr.Status != nfsx.OK || cr.Fh == nil {
		stat.Discard(true)
		return
	}
	fh := cr.Fh

	wseq := 0
	round := func(label string, ts int) bool {
		rp, err := conn.call(nfsx.ProcFsinfo, nfsx.ProgNFS, nfsx.ArgsFh(root))
		if err != nil {
			tb.Fatalf("harness: FSINFO: %v", err)
		}
		fi, err := nfsx.DecodeNFS3(nfsx.ProcFsinfo, rp.Body)
		if err != nil || fi.Status != nfsx.OK {
			stat.Discard(true)
			return true
		}
		f := fi.Fsinfo
		what := fmt.Sprintf("[%s TransferSize=%d; FSINFO rtmax=%d rtpref=%d wtmax=%d wtpref=%d]", label, ts, f.Rtmax, f.Rtpref, f.Wtmax, f.Wtpref)
		if f.Rtpref > f.Rtmax || f.Wtpref > f.Wtmax || f.Rtmax == 0 || f.Wtmax == 0 {
			return stat.Violate(tb, id, check, "fsinfo-preferred-exceeds-maximum", c, "%s preferred sizes exceed the maxima (or a maximum is 0)", what)
		}
		for _, cnt := range c23Counts(f.Wtmax, f.Wtpref, c.Sel) {
			if cnt >= f.Wtpref || cnt == f.Wtmax {
				nt = true
			}
			wseq++
			data := make([]byte, cnt)
			for i := range data {
				data[i] = byte(i%251+wseq*17) | 1
			}
			rp, err := conn.call(nfsx.ProcWrite, nfsx.ProgNFS, nfsx.ArgsWrite(fh, 0, cnt, nfsx.FileSync, data))
			for try := 0; c.RateLimit && err == nil && c23Jukebox(rp) && try < 4; try++ {
				stat.Label("transfer_told_to_come_back_later_and_repeated", 1)
				time.Sleep(1200 * time.Millisecond)
				rp, err = conn.call(nfsx.ProcWrite, nfsx.ProgNFS, nfsx.ArgsWrite(fh, 0, cnt, nfsx.FileSync, data))
			}
			if err != nil && c23Timeout(err) {
				// no reply within 10 s and the connection still open: the same (idempotent) WRITE once more, patiently
				stat.Label("write_repeated_with_90s_patience_after_10s_without_reply", 1)
				conn.cl.Close()
				conn = dial()
				conn.patience = 90 * time.Second
				rp, err = conn.call(nfsx.ProcWrite, nfsx.ProgNFS, nfsx.ArgsWrite(fh, 0, cnt, nfsx.FileSync, data))
				conn.patience = 0
			}
			if err != nil {
				conn.cl.Close()
				conn = dial()
				return stat.Violate(tb, id, check, "connection-dropped-on-write-within-wtmax", c, "%s WRITE of %d bytes (<= wtmax): no reply, the connection broke: %v", what, cnt, err)
			}
			if rp.Stat != nfsx.MsgAccepted || rp.AcceptStat != nfsx.AcceptSuccess {
				return stat.Violate(tb, id, check, "write-within-wtmax-rejected-by-rpc-layer", c, "%s WRITE of %d bytes: reply_stat=%d accept_stat=%d", what, cnt, rp.Stat, rp.AcceptStat)
			}
			wr, err := nfsx.DecodeNFS3(nfsx.ProcWrite, rp.Body)
			if err != nil {
				stat.Discard(true)
				return true
			}
			if wr.Status == nfsx.ErrInval {
				return stat.Violate(tb, id, check, "write-within-wtmax-refused-as-invalid", c, "%s WRITE of %d bytes (<= wtmax) replied NFS3ERR_INVAL", what, cnt)
			}
			if wr.Status != nfsx.OK || wr.Count < 1 || wr.Count > cnt {
				return stat.Violate(tb, id, check, "write-within-wtmax-not-served", c, "%s WRITE of %d bytes replied %s count=%d", what, cnt, statusName(wr.Status), wr.Count)
			}
			if got, _, _ := v.PeekRead("/data", 0, int(wr.Count)); !bytes.Equal(got, data[:wr.Count]) {
				return stat.Violate(tb, id, check, "write-count-claims-more-than-stored", c, "%s WRITE of %d bytes replied count=%d, but the first %d bytes of the backend file are not those bytes (first difference at %d)", what, cnt, wr.Count, wr.Count, firstDiff(got, data[:wr.Count]))
			}
		}
		for _, cnt := range c23Counts(f.Rtmax, f.Rtpref, c.Sel) {
			rp, err := conn.call(nfsx.ProcRead, nfsx.ProgNFS, nfsx.ArgsRead(fh, 0, cnt))
			for try := 0; c.RateLimit && err == nil && c23Jukebox(rp) && try < 4; try++ {
				stat.Label("transfer_told_to_come_back_later_and_repeated", 1)
				time.Sleep(1200 * time.Millisecond)
				rp, err = conn.call(nfsx.ProcRead, nfsx.ProgNFS, nfsx.ArgsRead(fh, 0, cnt))
			}
			if err != nil && c23Timeout(err) {
				stat.Label("read_repeated_with_90s_patience_after_10s_without_reply", 1)
				conn.cl.Close()
				conn = dial()
				conn.patience = 90 * time.Second
				rp, err = conn.call(nfsx.ProcRead, nfsx.ProgNFS, nfsx.ArgsRead(fh, 0, cnt))
				conn.patience = 0
			}
			if err != nil {
				conn.cl.Close()
				conn = dial()
				return stat.Violate(tb, id, check, "connection-dropped-on-read-within-rtmax", c, "%s READ of %d bytes (<= rtmax): no reply: %v", what, cnt, err)
			}
			if rp.Stat != nfsx.MsgAccepted || rp.AcceptStat != nfsx.AcceptSuccess {
				return stat.Violate(tb, id, check, "read-within-rtmax-rejected-by-rpc-layer", c, "%s READ of %d bytes: reply_stat=%d accept_stat=%d", what, cnt, rp.Stat, rp.AcceptStat)
			}
			rr, err := nfsx.DecodeNFS3(nfsx.ProcRead, rp.Body)
			if err != nil {
				stat.Discard(true)
				return true
			}
			if rr.Status != nfsx.OK || len(rr.Data) < 1 {
				return stat.Violate(tb, id, check, "read-within-rtmax-not-served", c, "%s READ of %d bytes at offset 0 of a non-empty file replied %s with %d bytes", what, cnt, statusName(rr.Status), len(rr.Data))
			}
		}
		return false
	}
	if round("construction", c.TS) {
		return
	}
	if c.ShrinkDuring > 0 {
		rp, err := conn.call(nfsx.ProcFsinfo, nfsx.ProgNFS, nfsx.ArgsFh(root))
		if err != nil {
			tb.Fatalf("harness: FSINFO: %v", err)
		}
		if fi, err := nfsx.DecodeNFS3(nfsx.ProcFsinfo, rp.Body); err == nil && fi.Status == nfsx.OK && int(fi.Fsinfo.Wtmax) > c.ShrinkDuring {
			cnt := fi.Fsinfo.Wtmax
			var armed atomic.Bool
			parked, gate := make(chan struct{}), make(chan struct{})
			v.SetBefore(func(call *vfs.Call) {
				if armed.CompareAndSwap(true, false) {
					close(parked)
					<-gate
				}
			})
			wseq++
			data := make([]byte, cnt)
			for i := range data {
				data[i] = byte(i%251+wseq*17) | 1
			}
			type wres struct {
				rp  *nfsx.Reply
				err error
			}
			done := make(chan wres, 1)
			armed.Store(true)
			go func() {
				rp, err := conn.call(nfsx.ProcWrite, nfsx.ProgNFS, nfsx.ArgsWrite(fh, 0, cnt, nfsx.FileSync, data))
				done <- wres{rp, err}
			}()
			select {
			case <-parked:
				n.UpdateTuningOptions(func(t *absnfs.TuningOptions) { t.TransferSize = c.ShrinkDuring })
				close(gate)
			case r := <-done:
				armed.Store(false)
				done <- r
			case <-time.After(60 * time.Second):
				close(gate)
				tb.Fatalf("harness: WRITE neither parked nor finished")
			}
			r := <-done
			v.SetBefore(nil)
			what := fmt.Sprintf("[WRITE of wtmax=%d parked at its first backend call while TransferSize was set to %d at runtime]", cnt, c.ShrinkDuring)
			if r.err != nil && c23Timeout(r.err) {
				// (the connection is still open, the reply did not come within the harness' wait: not judged)
				stat.Label("parked_write_not_answered_in_time_not_judged", 1)
				return
			}
			if r.err != nil {
				stat.Violate(tb, id, check, "connection-dropped-on-write-within-wtmax", c, "%s no reply: %v", what, r.err)
				return
			}
			if wr, err := nfsx.DecodeNFS3(nfsx.ProcWrite, r.rp.Body); err == nil && r.rp.Stat == nfsx.MsgAccepted && r.rp.AcceptStat == nfsx.AcceptSuccess {
				nt = true
				if wr.Status == nfsx.OK {
					if got, _, _ := v.PeekRead("/data", 0, int(wr.Count)); wr.Count > cnt || !bytes.Equal(got, data[:wr.Count]) {
						stat.Violate(tb, id, check, "write-count-claims-more-than-stored", c, "%s replied count=%d, but the first %d bytes of the backend file are not those bytes (first difference at %d)", what, wr.Count, wr.Count, firstDiff(got, data[:min(int(wr.Count), len(data))]))
						return
					}
				}
				stat.Label("write_overlapped_runtime_shrink_"+statusName(wr.Status), 1)
			}
			c.TS = c.ShrinkDuring
		}
	}
	if c.RuntimeTS > 0 {
		n.UpdateTuningOptions(func(t *absnfs.TuningOptions) { t.TransferSize = c.RuntimeTS })
		if round("runtime", c.RuntimeTS) {
			return
		}
	}
	if c.RuntimeZero {
		o := n.GetExportOptions()
		o.TransferSize = 0
		if err := n.UpdateExportOptions(o); err != nil {
			tb.Fatalf("harness: UpdateExportOptions(TransferSize 0): %v", err)
		}
		if round("runtime, TransferSize left unset", 0) {
			return
		}
	}
	if c.BigCred {
		stat.Label("largest_auth_sys_credential", 1)
	}
	stat.Case(c, nt)
}

var propC23 = defProp("C23", "TestC23", genC23, runC23)

func TestC23(t *testing.T) { propC23.Test(t) }
