package checks

// C26 Directory listings page completely and respect the client's size limit.
//
// Directories of 0-80 entries with name lengths over 1..255 are populated
// directly in the backend; the client follows cookies to completion with
// count / (dircount, maxcount) drawn from boundary values.
// Oracle: set equality with the directory, fileids agree with GETATTR, the XDR
// size of every resok (bytes after the status word - the lenient reading of
// RFC 1813) fits the limit or the status is TOOSMALL, and progress is made
// whenever an entry fits.

import (
	"fmt"
	"sort"
	"strings"
	"testing"
	"time"

	"pgregory.net/rapid"

	"verif/harness/drv"
	"verif/harness/nfsx"
	"verif/harness/stat"
	"verif/harness/vfs"
)

type c26Case struct {
	NameLens []int    `json:"name_lens"`
	Plus     bool     `json:"plus"`
	Count    uint32   `json:"count"`    // READDIR count / READDIRPLUS maxcount
	DirCount uint32   `json:"dircount"` // READDIRPLUS only
	Cache    cacheCfg `json:"cache"`
	// Tight, when non-empty, replaces Count call by call: call i asks for exactly the size of the header, the
	// next K not yet listed entries and the trailer, plus Delta bytes (the boundary the size limit is about).
	Tight []c26Tight `json:"tight,omitempty"`
	// SlowUs > 0: every backend Lstat takes that many microseconds and ReaddirTimeout is 5 ms, so that the
	// deadline of the listing passes while its entries are still being looked up. A listing may then fail with
	// a retry-later status, but it may not be cut short and flagged complete.
	SlowUs int `json:"slow_us,omitempty"`
	// Where: the directory that is listed - 0 "/dir", 1 the export root itself, 2 "/dir/deep/er" (two more levels)
	Where int `json:"where,omitempty"`
	// Entry kinds: every third entry is a directory and every fifth a symlink when Mixed (regular files otherwise)
	Mixed bool `json:"mixed,omitempty"`
}

type c26Tight struct {
	K     int `json:"k"`
	Delta int `json:"delta"`
}

var c26Counts = []uint32{0, 1, 100, 103, 104, 127, 128, 129, 131, 132, 200, 300, 332, 400, 512, 1024, 4096, 8192, 65536, 1<<32 - 1}

func genC26(t *rapid.T) c26Case {
	c := c26Case{Plus: rapid.Bool().Draw(t, "plus"), Count: rapid.SampledFrom(c26Counts).Draw(t, "count"), DirCount: rapid.SampledFrom(c26Counts).Draw(t, "dircount")}
	n := pick(t, "n", 0, 1, 2, 3, 10, 40, 80, rapid.IntRange(0, 80).Draw(t, "nn"))
	for i := 0; i < n; i++ {
		c.NameLens = append(c.NameLens, pick(t, "len", 1, 2, 3, 4, 5, 200, 255, 255, 255, rapid.IntRange(1, 255).Draw(t, "l")))
	}
	c.Cache = cacheCfg{AttrTTLns: pick(t, "ttl", int64(1), int64(3600e9)), AttrSize: 10000, DirCache: rapid.Bool().Draw(t, "dc")}
	c.Where = pick(t, "where", 0, 0, 1, 1, 2)
	c.Mixed = rapid.Bool().Draw(t, "mixed")
	if rapid.IntRange(0, 9).Draw(t, "slow") == 0 {
		// (kept small: every page looks all entries up again, each lookup sleeps)
		c.SlowUs = pick(t, "slow_us", 300, 600)
		if len(c.NameLens) > 30 {
			c.NameLens = c.NameLens[:30]
		}
		c.Count, c.DirCount = pick(t, "slowcount", uint32(1024), 4096, 65536), 4096
		return c
	}
	switch pick(t, "countmode", "fixed", "fixed", "random", "tight", "tight", "tight") {
	case "random":
		c.Count = uint32(rapid.IntRange(0, 6000).Draw(t, "rcount"))
	case "tight":
		nt := rapid.IntRange(1, 4).Draw(t, "ntight")
		for i := 0; i < nt; i++ {
			c.Tight = append(c.Tight, c26Tight{K: pick(t, "k", 1, 2, 2, 3, 3, 4, 7, rapid.IntRange(1, 20).Draw(t, "kk")), Delta: rapid.IntRange(-5, 5).Draw(t, "delta")})
		}
	}
	return c
}

// c26Lead: first characters of generated names; they include the characters of the directory's own path
// ("/dir") and of "." and "..", so that name handling that confuses prefixes with character sets shows.
const c26Lead = "dir.DIR-_ax0/"

func c26Names(lens []int) []string {
	out := make([]string, len(lens))
	for i, l := range lens {
		base := fmt.Sprintf("%d", i)
		if lead := c26Lead[i%len(c26Lead)]; lead != '/' && l > len(base)+1 {
			base = string(lead) + base
		}
		if l < len(base) {
			// very short names: use distinct single characters / short codes where possible
			base = string(rune('A' + i%26))
			if l >= 2 {
				base += string(rune('a' + (i/26)%26))
			}
		}
		if l == 2 && i%3 == 0 {
			base = "." + string(rune('a'+i%26)) // a two-character dot-file: neither "." nor ".."
		}
		if l == 3 && i%4 == 1 {
			base = ".." + string(rune('a'+i%26)) // begins like ".." and is an ordinary name
		}
		name := base
		if len(name) < l {
			name += strings.Repeat("x", l-len(name))
		}
		out[i] = name
	}
	// de-duplicate (short names may collide): keep first occurrences
	seen := map[string]bool{}
	var uniq []string
	for _, n := range out {
		if !seen[n] {
			seen[n] = true
			uniq = append(uniq, n)
		}
	}
	return uniq
}

func pad4(n int) int { return (n + 3) &^ 3 }

func runC26(tb stat.TB, c c26Case) {
	const id, check = "C26", "TestC26"
	v := vfs.New()
	base, walk := "/dir", []string{"dir"}
	switch c.Where {
	case 1:
		base, walk = "", nil
	case 2:
		base, walk = "/dir/deep/er", []string{"dir", "deep", "er"}
	}
	for i := range walk {
		v.SeedDir("/"+strings.Join(walk[:i+1], "/"), 0755, 0, 0)
	}
	names := c26Names(c.NameLens)
	for i, n := range names {
		switch {
		case c.Mixed && i%3 == 1:
			v.SeedDir(base+"/"+n, 0755, 0, 0)
		case c.Mixed && i%5 == 2:
			v.SeedSymlink(base+"/"+n, "nowhere", 0, 0)
		default:
			v.SeedFile(base+"/"+n, 0644, 0, 0, []byte("x"))
		}
	}
	opts := newOpts(c.Cache)
	if c.SlowUs > 0 {
		opts.Timeouts = drv.FastTimeouts(10 * time.Second)
		opts.Timeouts.ReaddirTimeout = 5 * time.Millisecond
		d := time.Duration(c.SlowUs) * time.Microsecond
		v.SetBefore(func(call *vfs.Call) {
			if call.Op == "Lstat" {
				time.Sleep(d)
			}
		})
	}
	s := newSession(tb, v, opts)
	defer s.close()
	pages := 0
	tooSmallSeen := false
	knownTooSmall := false
	abandoned := guard(func() {
		root := s.mount()
		dr := &nfsx.Res{Fh: root}
		for _, comp := range walk {
			dr = s.nfs(nfsx.ProcLookup, nfsx.ArgsDirop(dr.Fh, comp))
			if dr.Status != nfsx.OK {
				tb.Fatalf("harness: lookup %s", comp)
			}
		}
		proc := uint32(nfsx.ProcReaddir)
		pname := "READDIR"
		if c.Plus {
			proc, pname = nfsx.ProcReaddirplus, "READDIRPLUS"
		}
		var cookie uint64
		var verf [8]byte
		var got []nfsx.Entry
		seen := map[string]bool{}
		remaining := func() []string { // names not yet returned, in directory (sorted) order as vfs lists them
			var r []string
			srt := append([]string(nil), names...)
			sort.Strings(srt)
			for _, n := range srt {
				if !seen[n] {
					r = append(r, n)
				}
			}
			return r
		}
		complete := false
		for call := 0; call <= len(names)+2; call++ {
			var args []byte
			if len(c.Tight) > 0 {
				// the boundary count for this call (the resok header is 96 bytes: post_op_attr with attributes + cookieverf)
				tg := c.Tight[call%len(c.Tight)]
				want := 4 + 84 + 8 + 8
				for j, n := range remaining() {
					if j >= tg.K {
						break
					}
					sz := 4 + 8 + 4 + pad4(len(n)) + 8
					if c.Plus {
						sz += 4 + 84 + 4 + 4 + 8
					}
					want += sz
				}
				want += tg.Delta
				if want < 0 {
					want = 0
				}
				c.Count = uint32(want)
			}
			if c.Plus {
				args = nfsx.ArgsReaddirplus(dr.Fh, cookie, verf, c.DirCount, c.Count)
			} else {
				args = nfsx.ArgsReaddir(dr.Fh, cookie, verf, c.Count)
			}
			res := s.nfs(proc, args)
			what := fmt.Sprintf("%s call#%d cookie=%d count=%d on a directory of %d entries", pname, call, cookie, c.Count, len(names))
			hdr := 4 + 8 // attributes_follow + cookieverf
			if res.DirAttr != nil {
				hdr += 84
			}
			entrySize := func(name string) int {
				sz := 4 + 8 + 4 + pad4(len(name)) + 8
				if c.Plus {
					sz += 4 + 84 + 4 + 4 + 8
				}
				return sz
			}
			rem := remaining()
			if res.Status == nfsx.ErrTooSmall {
				tooSmallSeen = true
				if len(rem) == 0 {
					return // nothing left: the header alone did not fit; not judged
				}
				// cookies are positions in the backend's listing order (vfs lists sorted by name), so the
				// entry that has to fit is the first remaining one in that order
				next := entrySize(rem[0])
				if 4+84+8+next+8 <= int(c.Count) || uint64(c.Count) >= 1<<20 {
					if stat.Violate(tb, id, check, "toosmall-although-an-entry-fits", c, "%s replied NFS3ERR_TOOSMALL although header (96) + the next entry %q (%d) + trailer (8) fits", what, rem[0][:min(len(rem[0]), 12)], next) {
						return
					}
				}
				return
			}
			if res.Status == nfsx.ErrJukebox && c.SlowUs > 0 {
				stat.Label("slow_backend_listing_refused_retry_later", 1)
				return
			}
			if res.Status != nfsx.OK {
				if stat.Violate(tb, id, check, "listing-fails", c, "%s replied %s", what, statusName(res.Status)) {
					return
				}
				return
			}
			pages++
			resokSize := res.BodyLen - 4
			if len(rem) > 0 && uint64(hdr+entrySize(rem[0])+8) > uint64(c.Count) {
				// not even the next entry fits: the statement wants NFS3ERR_TOOSMALL
				tooSmallSeen = true
				if len(res.Entries) > 1 {
					// (the known finding is one entry in an oversized reply; several entries ignore the limit altogether)
					if stat.Violate(tb, id, check, "count-below-one-entry-returns-several-entries", c, "%s: not even the next entry fits (header %d + entry %d + trailer 8 > %d) but the server replied OK with %d entries in %d bytes", what, hdr, entrySize(rem[0]), c.Count, len(res.Entries), resokSize) {
						return
					}
					return
				}
				if stat.Violate(tb, id, check, "count-below-one-entry-not-TOOSMALL", c, "%s: not even the next entry fits (header %d + entry %d + trailer 8 > %d) but the server replied OK with %d entries in %d bytes instead of NFS3ERR_TOOSMALL", what, hdr, entrySize(rem[0]), c.Count, len(res.Entries), resokSize) {
					knownTooSmall = true
				} else {
					return
				}
			} else if uint64(resokSize) > uint64(c.Count) && !(len(rem) == 0 && len(res.Entries) == 0 && res.EOF) {
				if stat.Violate(tb, id, check, "reply-exceeds-count", c, "%s: the encoded resok is %d bytes (with %d entries), the client allowed %d", what, resokSize, len(res.Entries), c.Count) {
					return
				}
			}
			if len(res.Entries) == 0 && !res.EOF {
				if stat.Violate(tb, id, check, "empty-page-without-eof", c, "%s returned no entry and eof=false: the client cannot make progress", what) {
					return
				}
				return
			}
			for _, e := range res.Entries {
				if seen[e.Name] {
					if stat.Violate(tb, id, check, "entry-listed-twice", c, "%s: %q returned again", what, e.Name) {
						return
					}
				}
				seen[e.Name] = true
				got = append(got, e)
				cookie = e.Cookie
			}
			verf = res.CookieVerf
			if res.EOF {
				complete = true
				break
			}
		}
		if !complete {
			if stat.Violate(tb, id, check, "listing-never-ends", c, "%s with count=%d did not reach eof within %d calls", pname, c.Count, len(names)+3) {
				return
			}
			return
		}
		var gotNames []string
		for _, e := range got {
			gotNames = append(gotNames, e.Name)
		}
		sort.Strings(gotNames)
		want := append([]string(nil), names...)
		sort.Strings(want)
		if strings.Join(gotNames, "\x00") != strings.Join(want, "\x00") {
			if stat.Violate(tb, id, check, "listing-incomplete-or-wrong", c, "%s with count=%d listed %d entries, the directory holds %d (eof was signalled)", pname, c.Count, len(gotNames), len(want)) {
				return
			}
		}
		// fileids agree with GETATTR (sample)
		for i, e := range got {
			if i%17 != 0 {
				continue
			}
			lr := s.nfs(nfsx.ProcLookup, nfsx.ArgsDirop(dr.Fh, e.Name))
			if lr.Status != nfsx.OK {
				continue
			}
			gr := s.nfs(nfsx.ProcGetattr, nfsx.ArgsFh(lr.Fh))
			if gr.Status == nfsx.OK && gr.Attr.Fileid != e.Fileid {
				if stat.Violate(tb, id, check, "entry-fileid-differs-from-getattr", c, "%s: entry %q has fileid %d, GETATTR of the child reports %d", pname, e.Name, e.Fileid, gr.Attr.Fileid) {
					return
				}
			}
		}
	})
	if abandoned {
		return
	}
	var ls []string
	if knownTooSmall {
		ls = append(ls, "known_count_below_one_entry")
	}
	ls = append(ls, []string{"lists_subdirectory", "lists_export_root", "lists_deep_directory"}[c.Where%3])
	if tooSmallSeen {
		ls = append(ls, "toosmall")
	}
	if pages >= 2 {
		ls = append(ls, "multi_page")
	}
	if len(c.Tight) > 0 {
		ls = append(ls, "tight_counts")
	}
	if c.SlowUs > 0 {
		ls = append(ls, "slow_backend_short_readdir_timeout")
	}
	stat.Case(c, pages >= 2 || tooSmallSeen, ls...)
}

var propC26 = defProp("C26", "TestC26", genC26, runC26)

func TestC26(t *testing.T) { propC26.Test(t) }
