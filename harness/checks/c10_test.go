package checks

// C10 Identity squashing maps every credential as configured.
//
// Oracle: a reference squash function compared with ValidateAuthentication's
// AuthResult, with AuthContext.Effective* after HandleCall, and with the
// auxiliary list ACCESS actually uses; the caller's auxiliary-gid slice is
// compared before/after (no mutation of shared data).

import (
	"fmt"
	"strings"
	"testing"

	"github.com/absfs/absnfs"
	"pgregory.net/rapid"

	"verif/harness/drv"
	"verif/harness/nfsx"
	"verif/harness/stat"
	"verif/harness/vfs"
)

type c10Case struct {
	Squash  string   `json:"squash"`
	Flavor  uint32   `json:"flavor"`
	Uid     uint32   `json:"uid"`
	Gid     uint32   `json:"gid"`
	Aux     []uint32 `json:"aux"`
	Machine string   `json:"machine"`
	Cut     int      `json:"cut"`      // -1 whole body, else truncate the AUTH_SYS body to Cut bytes
	Count   int64    `json:"count"`    // -1 = len(Aux), else the declared gid count
	Shared  bool     `json:"shared"`   // pass a pre-parsed credential whose aux slice the caller keeps
	// Conn: the end-to-end part runs over the server's record-marking connection loop, on a connection that other
	// users of the same client machine (uid 0 at MNT, uid 5 for the setup) have used before this credential
	Conn bool `json:"conn,omitempty"`
}

var c10IDs = []uint32{0, 1, 1000, 65533, 65534, 65535, 1 << 31, 1<<32 - 1}

func genC10(t *rapid.T) c10Case {
	id := func(l string) uint32 {
		if rapid.IntRange(0, 4).Draw(t, l+"rnd") == 0 {
			return rapid.Uint32().Draw(t, l)
		}
		return rapid.SampledFrom(c10IDs).Draw(t, l)
	}
	c := c10Case{
		Squash:  pick(t, "squash", "", "none", "root", "all", "Root", "ALL", "NoNe", "rOOt", "bogus", "all ", "root_squash"),
		Flavor:  pick(t, "flavor", uint32(1), 1, 1, 1, 1, 1, 1, 0, 2, 3, 6, 0xFFFFFFFF, 256, 257, 513, 0x10000, 0x10001, 0x01000001, 0x80000001),
		Uid:     id("uid"),
		Gid:     id("gid"),
		Machine: pick(t, "machine", "", "h", "host", strings.Repeat("m", 7), strings.Repeat("x", 255)),
		Cut:     -1,
		Count:   -1,
		Shared:  rapid.Bool().Draw(t, "shared"),
		Conn:    rapid.IntRange(0, 2).Draw(t, "conn") == 0,
	}
	n := pick(t, "naux", 0, 0, 1, 2, 3, 15, 16)
	for i := 0; i < n; i++ {
		c.Aux = append(c.Aux, id("aux"))
	}
	switch rapid.IntRange(0, 9).Draw(t, "shape") {
	case 0:
		c.Cut = rapid.IntRange(0, 60).Draw(t, "cut")
	case 1:
		c.Count = pick(t, "count", int64(17), 18, 1<<32-1, 1<<31, 100)
	}
	if len(c.Machine) > 200 && len(c.Aux) > 10 {
		c.Aux = c.Aux[:10] // keep the body below the 400 byte opaque_auth limit
	}
	return c
}

func (c c10Case) body() []byte {
	w := &nfsx.W{}
	w.U32(7).Str(c.Machine).U32(c.Uid).U32(c.Gid)
	cnt := uint32(len(c.Aux))
	if c.Count >= 0 {
		cnt = uint32(c.Count)
	}
	w.U32(cnt)
	for _, g := range c.Aux {
		w.U32(g)
	}
	b := w.B
	if c.Cut >= 0 && c.Cut < len(b) {
		b = b[:c.Cut]
	}
	return b
}

// refDecodable reports whether the AUTH_SYS body decodes per RFC 1831 appendix A.
func (c c10Case) refDecodable() bool {
	if c.Cut >= 0 && c.Cut < len((c10Case{Machine: c.Machine, Uid: c.Uid, Gid: c.Gid, Aux: c.Aux, Cut: -1, Count: c.Count}).body()) {
		return false
	}
	if c.Count >= 0 {
		return c.Count <= 16 && int(c.Count) <= len(c.Aux)
	}
	return len(c.Aux) <= 16
}

// refSquash is the reference mapping of the statement.
func refSquash(mode string, uid, gid uint32, aux []uint32) (uint32, uint32, []uint32, bool) {
	out := append([]uint32(nil), aux...)
	switch strings.ToLower(mode) {
	case "all":
		for i := range out {
			out[i] = 65534
		}
		return 65534, 65534, out, true
	case "root":
		if uid == 0 {
			uid, gid = 65534, 65534
		} else if gid == 0 {
			gid = 65534
		}
		for i := range out {
			if out[i] == 0 {
				out[i] = 65534
			}
		}
		return uid, gid, out, true
	case "none", "":
		return uid, gid, out, true
	}
	return 65534, 65534, out, false // unrecognised: ids to nobody, auxiliary list not specified
}

func runC10(tb stat.TB, c c10Case) {
	const id, check = "C10", "TestC10"
	body := c.body()
	if len(body) > 400 {
		stat.Discard(false)
		return
	}
	policy := &absnfs.PolicyOptions{Squash: c.Squash}
	ctx := &absnfs.AuthContext{ClientIP: "127.0.0.1", ClientPort: 700, Credential: &absnfs.RPCCredential{Flavor: c.Flavor, Body: body}}
	var sharedOrig, sharedCopy []uint32
	if c.Shared && c.Flavor == 1 {
		if as, err := absnfs.ParseAuthSysCredential(body); err == nil {
			ctx.AuthSys = as
			sharedOrig = as.AuxGIDs
			sharedCopy = append([]uint32(nil), as.AuxGIDs...)
		}
	}
	res := absnfs.ValidateAuthentication(ctx, policy)
	what := fmt.Sprintf("squash=%q flavor=%d uid=%d gid=%d aux=%v cut=%d count=%d", c.Squash, c.Flavor, c.Uid, c.Gid, c.Aux, c.Cut, c.Count)
	nontrivial := false
	switch {
	case c.Flavor == 0:
		if !res.Allowed || res.UID != 65534 || res.GID != 65534 {
			if stat.Violate(tb, id, check, "auth-none-not-nobody", c, "%s: AUTH_NONE gave allowed=%v %d/%d, want 65534/65534", what, res.Allowed, res.UID, res.GID) {
				return
			}
		}
		// the identity a request really runs under (end to end through HandleCall), in every squash mode
		lm := strings.ToLower(c.Squash)
		if lm == "" || lm == "none" || lm == "root" || lm == "all" {
			nontrivial = true
			if c10EndToEnd(tb, c, what, 65534, 65534, nil) {
				return
			}
		}
	case c.Flavor != 1:
		nontrivial = true
		if res.Allowed {
			if stat.Violate(tb, id, check, "unsupported-flavor-accepted", c, "%s: flavor %d accepted", what, c.Flavor) {
				return
			}
		}
		if c.Conn && c10ConnDenied(tb, c, what) {
			return
		}
	default:
		if !c.refDecodable() {
			nontrivial = true
			if res.Allowed {
				if stat.Violate(tb, id, check, "undecodable-authsys-accepted", c, "%s: undecodable AUTH_SYS body accepted as %d/%d", what, res.UID, res.GID) {
					return
				}
			}
			if c.Conn && c10ConnDenied(tb, c, what) {
				return
			}
			break
		}
		aux := c.Aux
		if c.Count >= 0 {
			aux = c.Aux[:c.Count]
		}
		wu, wg, waux, auxDefined := refSquash(c.Squash, c.Uid, c.Gid, aux)
		if wu != c.Uid || wg != c.Gid || fmt.Sprint(waux) != fmt.Sprint(aux) {
			nontrivial = true
		}
		if !res.Allowed {
			if stat.Violate(tb, id, check, "valid-authsys-denied", c, "%s: denied (%s)", what, res.Reason) {
				return
			}
			break
		}
		if res.UID != wu || res.GID != wg {
			if stat.Violate(tb, id, check, "squash-maps-ids-wrongly", c, "%s: effective %d/%d, reference %d/%d", what, res.UID, res.GID, wu, wg) {
				return
			}
		}
		if auxDefined && ctx.AuthSys != nil && fmt.Sprint(ctx.AuthSys.AuxGIDs) != fmt.Sprint(waux) && !(len(waux) == 0 && len(ctx.AuthSys.AuxGIDs) == 0) {
			if stat.Violate(tb, id, check, "squash-maps-aux-gids-wrongly", c, "%s: auxiliary gids after squashing %v, reference %v", what, ctx.AuthSys.AuxGIDs, waux) {
				return
			}
		}
		if sharedOrig != nil && fmt.Sprint(sharedOrig) != fmt.Sprint(sharedCopy) {
			if stat.Violate(tb, id, check, "squash-mutates-shared-aux-gids", c, "%s: the caller's auxiliary gid slice changed from %v to %v", what, sharedCopy, sharedOrig) {
				return
			}
		}
		// end to end through HandleCall on a server that accepts this squash mode
		lm := strings.ToLower(c.Squash)
		if lm == "" || lm == "none" || lm == "root" || lm == "all" {
			if c10EndToEnd(tb, c, what, wu, wg, waux) {
				return
			}
		}
	}
	stat.Case(c, nontrivial, "squash_"+strings.ToLower(c.Squash))
}

// c10EndToEnd checks AuthContext after HandleCall and the auxiliary list ACCESS uses.
func c10EndToEnd(tb stat.TB, c c10Case, what string, wu, wg uint32, waux []uint32) (stop bool) {
	const id, check = "C10", "TestC10"
	v := vfs.New()
	v.SeedFile("/g", 0070, 0, 0, []byte("x"))
	s := newSession(tb, v, absnfs.ExportOptions{Squash: c.Squash, AttrCacheTimeout: 1, AttrCacheSize: 2})
	defer s.close()
	s.e.ViaConn = c.Conn
	abandoned := guard(func() {
		root := s.mount()
		lr := s.nfsAs(drv.Client{IP: "127.0.0.1", Port: 700, Cred: nfsx.AuthSys(1, "h", 5, 5, nil)}, nfsx.ProcLookup, nfsx.ArgsDirop(root, "g"))
		if lr.Status != nfsx.OK {
			tb.Fatalf("harness: lookup g: %s", statusName(lr.Status))
		}
		// make the mode 0070 known to the server (anyone may chmod: no permission enforcement in absnfs)
		s.nfsAs(drv.Client{IP: "127.0.0.1", Port: 700, Cred: nfsx.AuthSys(1, "h", 5, 5, nil)}, nfsx.ProcSetattr, nfsx.ArgsSetattr(lr.Fh, nfsx.Sattr{Mode: nfsx.U32p(0070)}, nil))
		cl := drv.Client{IP: "127.0.0.1", Port: 700, Cred: nfsx.Auth{Flavor: 1, Body: c.body()}}
		if c.Flavor == 0 {
			cl.Cred = nfsx.AuthNone()
		}
		xid := s.e.NextXid()
		var wire []byte
		var actx *absnfs.AuthContext
		var err error
		if c.Conn {
			wire, err = s.e.CallWire(cl, nfsx.Call(xid, nfsx.ProgNFS, 3, nfsx.ProcAccess, cl.Cred, nfsx.AuthNone(), nfsx.ArgsAccess(lr.Fh, 0x3f)))
		} else {
			wire, actx, err = s.e.CallCtx(cl, nfsx.Call(xid, nfsx.ProgNFS, 3, nfsx.ProcAccess, cl.Cred, nfsx.AuthNone(), nfsx.ArgsAccess(lr.Fh, 0x3f)))
		}
		if err != nil {
			stat.Discard(false)
			panic(abandon{err.Error()})
		}
		if actx != nil && (actx.EffectiveUID != wu || actx.EffectiveGID != wg) {
			stop = stat.Violate(tb, id, check, "handlecall-effective-ids-wrong", c, "%s: AuthContext effective ids %d/%d after HandleCall, reference %d/%d", what, actx.EffectiveUID, actx.EffectiveGID, wu, wg)
			if stop {
				return
			}
		}
		rp, perr := nfsx.ParseReply(wire)
		if perr != nil || rp.Stat != nfsx.MsgAccepted || rp.AcceptStat != nfsx.AcceptSuccess {
			return
		}
		res, derr := nfsx.DecodeNFS3(nfsx.ProcAccess, rp.Body)
		if derr != nil || res.Status != nfsx.OK {
			return
		}
		// the file is owned 0/0 mode 0070: group bits apply iff the caller's (squashed) gid or aux list contains 0
		inGroup := wg == 0
		for _, g := range waux {
			if g == 0 {
				inGroup = true
			}
		}
		var want uint32
		switch {
		case wu == 0:
			want = 0x3f &^ (nfsx.AccessLookup | nfsx.AccessDelete) // root: everything that applies to a file
		case inGroup:
			want = nfsx.AccessRead | nfsx.AccessModify | nfsx.AccessExtend | nfsx.AccessExecute
		}
		if res.Access != want && c.Conn {
			stop = stat.Violate(tb, id, check, "request-over-connection-runs-under-wrong-identity", c, "%s, sent on a connection other users (uid 0, uid 5) used before: ACCESS on a 0/0 mode 0070 file granted %#x, reference identity (%d/%d aux %v) gives %#x", what, res.Access, wu, wg, waux, want)
		} else if res.Access != want {
			stop = stat.Violate(tb, id, check, "access-uses-unsquashed-aux-gids", c, "%s: ACCESS on a 0/0 mode 0070 file granted %#x, reference identity (%d/%d aux %v) gives %#x", what, res.Access, wu, wg, waux, want)
		}
	})
	_ = abandoned
	return stop
}

// c10ConnDenied: a credential the server must deny is sent over a connection that well-formed AUTH_SYS requests of
// other users have used before; the call may not be executed (no MSG_ACCEPTED / SUCCESS reply).
func c10ConnDenied(tb stat.TB, c c10Case, what string) (stop bool) {
	const id, check = "C10", "TestC10"
	lm := strings.ToLower(c.Squash)
	if !(lm == "" || lm == "none" || lm == "root" || lm == "all") {
		return false
	}
	v := vfs.New()
	v.SeedFile("/g", 0070, 0, 0, []byte("x"))
	s := newSession(tb, v, absnfs.ExportOptions{Squash: c.Squash, AttrCacheTimeout: 1, AttrCacheSize: 2})
	defer s.close()
	s.e.ViaConn = true
	guard(func() {
		root := s.mount()
		lr := s.nfsAs(drv.Client{IP: "127.0.0.1", Port: 700, Cred: nfsx.AuthSys(1, "h", 5, 5, nil)}, nfsx.ProcLookup, nfsx.ArgsDirop(root, "g"))
		if lr.Status != nfsx.OK {
			tb.Fatalf("harness: lookup g: %s", statusName(lr.Status))
		}
		cl := drv.Client{IP: "127.0.0.1", Port: 700, Cred: nfsx.Auth{Flavor: c.Flavor, Body: c.body()}}
		xid := s.e.NextXid()
		wire, err := s.e.CallWire(cl, nfsx.Call(xid, nfsx.ProgNFS, 3, nfsx.ProcAccess, cl.Cred, nfsx.AuthNone(), nfsx.ArgsAccess(lr.Fh, 0x3f)))
		if err != nil {
			return // no reply / connection closed: not executed
		}
		if rp, perr := nfsx.ParseReply(wire); perr == nil && rp.Stat == nfsx.MsgAccepted && rp.AcceptStat == nfsx.AcceptSuccess {
			stop = stat.Violate(tb, id, check, "deniable-credential-executed-over-connection", c, "%s, sent on a connection other users used before: the call was accepted and executed", what)
		}
	})
	return stop
}

var propC10 = defProp("C10", "TestC10", genC10, runC10)

func TestC10(t *testing.T) { propC10.Test(t) }
