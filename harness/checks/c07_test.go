package checks

// C07 The backend only sees clean in-export paths; symlink targets stay contained.
//
// Generator: bounded-exhaustive names/targets over an adversarial alphabet in
// every name-taking procedure, long names, random byte strings after a random
// namespace history; a native fuzz target in the thorough tier.
// Oracle: the backend call recorder.

import (
	"fmt"
	"os"
	"path"
	"strings"
	"testing"

	"github.com/absfs/absnfs"
	"pgregory.net/rapid"

	"verif/harness/drv"
	"verif/harness/nfsx"
	"verif/harness/stat"
	"verif/harness/vfs"
)

func validComponent(n string) bool {
	return n != "" && len(n) <= 255 && !strings.ContainsAny(n, "/\\\x00") && n != "." && n != ".."
}

// c07Bases accumulates every path the server ever tracked a handle for.
type c07Bases map[string]bool

func (b c07Bases) absorb(n *absnfs.AbsfsNFS) {
	for _, p := range n.VerifFileMap().VerifHandlePaths() {
		b[p] = true
	}
}

// c07Judge inspects the backend calls one request caused.
func c07Judge(calls []vfs.Call, bases c07Bases, isMount bool) (sig, msg string) {
	for _, c := range calls {
		for _, p := range c.Paths {
			if !strings.HasPrefix(p, "/") {
				return "backend-path-not-absolute", fmt.Sprintf("backend call %s got the non-absolute path %q", c.Op, p)
			}
			if path.Clean(p) != p {
				return "backend-path-not-normalized", fmt.Sprintf("backend call %s got the unnormalized path %q", c.Op, p)
			}
			if strings.ContainsRune(p, 0) {
				return "backend-path-contains-nul", fmt.Sprintf("backend call %s got a path with a NUL byte %q", c.Op, p)
			}
			if isMount || bases[p] {
				continue
			}
			d, b := path.Split(p)
			if d != "/" {
				d = strings.TrimSuffix(d, "/")
			}
			if !bases[d] {
				return "backend-path-outside-handle-plus-component", fmt.Sprintf("backend call %s got %q: neither a handle's path nor a handle's path plus one component", c.Op, p)
			}
			if !validComponent(b) {
				return "backend-path-invalid-component", fmt.Sprintf("backend call %s got %q whose last component %q is not a validated name", c.Op, p, b)
			}
		}
		if c.Op == "Symlink" {
			if strings.HasPrefix(c.Target, "/") {
				return "symlink-absolute-target-created", fmt.Sprintf("backend Symlink created %q -> absolute target %q", c.Paths, c.Target)
			}
			for _, comp := range strings.Split(c.Target, "/") {
				if comp == ".." {
					return "symlink-dotdot-target-created", fmt.Sprintf("backend Symlink created %q -> target %q with a '..' component", c.Paths, c.Target)
				}
			}
		}
	}
	return "", ""
}

var c07Procs = []string{"lookup", "create", "mkdir", "symlink_name", "symlink_target", "mknod", "remove", "rmdir", "rename_from", "rename_to", "link", "mnt", "readlink"}

type c07Req struct {
	Proc string `json:"proc"`
	Name []byte `json:"name"` // raw bytes of the hostile string
	InD  bool   `json:"in_d"` // use the handle of /d (else the root handle) as directory
}

type c07Case struct {
	Prefix []c02Op  `json:"prefix"`
	Reqs   []c07Req `json:"reqs"`
}

// c07Seed pre-populates hostile symlinks directly in the backend.
func c07Seed(v *vfs.FS) {
	v.SeedDir("/d", 0755, 0, 0)
	v.SeedFile("/d/f", 0644, 0, 0, []byte("x"))
	v.SeedSymlink("/abs", "/d/f", 0, 0)
	v.SeedSymlink("/up", "../etc/passwd", 0, 0)
	v.SeedSymlink("/mid", "d/../d/f", 0, 0)
	v.SeedSymlink("/ok", "d/f", 0, 0)
	v.SeedSymlink("/dots", "d/..hidden", 0, 0)
}

func runC07(tb stat.TB, c c07Case) {
	const id, check = "C07", "TestC07"
	v := vfs.New()
	c07Seed(v)
	s := newSession(tb, v, absnfs.ExportOptions{AttrCacheTimeout: 1, AttrCacheSize: 2})
	defer s.close()
	s.tolerateMalformed = true // the oracle is the backend recorder, not the reply
	bases := c07Bases{}
	nt := false
	known := false
	planted := 0
	// judge checks the backend calls of the request(s) just made; used lists the
	// paths of the handles those requests named (a path must be one of them or
	// one of them plus a single validated component).
	judge := func(what string, isMount bool, used ...string) bool {
		bases.absorb(s.e.NFS)
		calls := v.Calls()
		v.ResetCalls()
		if os.Getenv("VERIF_DEBUG") != "" {
			fmt.Printf("DEBUG %s used=%v calls=%v\n", what, used, calls)
		}
		allowed := c07Bases{}
		for _, u := range used {
			if !bases[u] && u != "/" {
				continue // not a path the server ever tracked a handle for
			}
			allowed[u] = true
		}
		if sig, msg := c07Judge(calls, allowed, isMount); sig != "" {
			if stat.Violate(tb, id, check, sig, c, "%s: %s", what, msg) {
				known = true
			}
			return true
		}
		return false
	}
	abandoned := guard(func() {
		v.SetRecording(true)
		cl := newNsClient(s, v)
		cl.lenient = true
		cl.m = newMtree()
		seedModelC07(cl.m)
		if judge("MNT /", true, "/") {
			return
		}
		for _, op := range c.Prefix {
			bases.absorb(s.e.NFS)
			if viol := cl.exec(op); viol != nil {
				stat.Discard(false)
				panic(abandon{"prefix diverged"})
			}
			var used []string
			for _, p := range []string{op.Dir, op.Dir2, op.objPath()} {
				for p != "" {
					used = append(used, p)
					if p == "/" {
						break
					}
					p = path.Dir(p)
				}
			}
			if judge(fmt.Sprintf("prefix %s %s/%s", op.Kind, op.Dir, op.Name), false, used...) {
				return
			}
		}
		root := cl.held["/"].fh
		dfh, _, _ := cl.handleFor("/d")
		v.ResetCalls()
		haveD := dfh != nil && cl.m.get("/d") != nil && cl.m.get("/d").kind == 'd' 
		for _, rq := range c.Reqs {
			name := string(rq.Name)
			if !validComponent(name) {
				nt = true
			}
			bases.absorb(s.e.NFS)
			isMount := false
			dir, dirPath := root, "/"
			if rq.InD && haveD {
				dir, dirPath = dfh, "/d"
			}
			used := []string{dirPath}
			switch rq.Proc {
			case "rename_from", "rename_to", "link", "readlink":
				used = append(used, "/")
			}
			switch rq.Proc {
			case "lookup":
				r := s.nfs(nfsx.ProcLookup, nfsx.ArgsDirop(dir, name))
				if r.Status == nfsx.OK {
					if judge(fmt.Sprintf("%s with %q", rq.Proc, name), false, used...) {
						return
					}
					if !validComponent(name) {
						if stat.Violate(tb, id, check, "lookup-accepts-invalid-component", c, "LOOKUP of the invalid component %q in %s replied OK", name, dirPath) {
							known = true
						}
						return
					}
					// follow up with READLINK through the new handle
					used = append(used, path.Join(dirPath, name))
					bases.absorb(s.e.NFS)
					rl := s.nfs(nfsx.ProcReadlink, nfsx.ArgsFh(r.Fh))
					if rl.Status == nfsx.OK && c07BadRelTarget(rl.Link) {
						if stat.Violate(tb, id, check, "readlink-returns-dotdot-target", c, "READLINK of %q returned the relative target %q", name, rl.Link) {
							known = true
						}
						return
					}
				}
			case "create":
				s.nfs(nfsx.ProcCreate, nfsx.ArgsCreate(dir, name, nfsx.Unchecked, nfsx.Sattr{}, [8]byte{}))
			case "mkdir":
				s.nfs(nfsx.ProcMkdir, nfsx.ArgsMkdir(dir, name, nfsx.Sattr{}))
			case "symlink_name":
				s.nfs(nfsx.ProcSymlink, nfsx.ArgsSymlink(dir, name, nfsx.Sattr{}, "d/f"))
			case "symlink_target":
				lname := fmt.Sprintf("l%d", len(bases))
				r := s.nfs(nfsx.ProcSymlink, nfsx.ArgsSymlink(dir, lname, nfsx.Sattr{}, name))
				if r.Status == nfsx.OK && r.Fh != nil {
					if judge(fmt.Sprintf("%s with %q", rq.Proc, name), false, used...) {
						return
					}
					used = append(used, path.Join(dirPath, lname))
					bases.absorb(s.e.NFS)
					rl := s.nfs(nfsx.ProcReadlink, nfsx.ArgsFh(r.Fh))
					if rl.Status == nfsx.OK && c07BadRelTarget(rl.Link) {
						if stat.Violate(tb, id, check, "readlink-returns-dotdot-target", c, "READLINK of a link created with target %q returned %q", name, rl.Link) {
							known = true
						}
						return
					}
				}
			case "mknod":
				s.nfs(nfsx.ProcMknod, nfsx.ArgsMknod(dir, name, nfsx.TypeFifo, nfsx.Sattr{}))
			case "remove":
				s.nfs(nfsx.ProcRemove, nfsx.ArgsDirop(dir, name))
			case "rmdir":
				s.nfs(nfsx.ProcRmdir, nfsx.ArgsDirop(dir, name))
			case "rename_from":
				s.nfs(nfsx.ProcRename, nfsx.ArgsRename(dir, name, root, "dst"))
			case "rename_to":
				s.nfs(nfsx.ProcRename, nfsx.ArgsRename(root, "ok", dir, name))
			case "link":
				s.nfs(nfsx.ProcLink, nfsx.ArgsLink(root, dir, name))
			case "mnt":
				isMount = true
				s.e.Mount(drv.Root(), name)
			case "readlink":
				// READLINK of the pre-seeded hostile links, selected by the first byte
				links := []string{"abs", "up", "mid", "ok", "dots"}
				ln := links[0]
				if len(rq.Name) > 0 {
					ln = links[int(rq.Name[0])%len(links)]
				}
				if len(rq.Name) >= 2 && !strings.ContainsRune(name, 0) {
					// plant the hostile string itself, out of band, as the target of a link in the backend
					cand := fmt.Sprintf("planted%d", planted)
					planted++
					if _, exists := v.PeekLstat("/" + cand); !exists {
						ln = cand
						v.SeedSymlink("/"+ln, name, 0, 0)
						if c07BadRelTarget(name) {
							nt = true
						}
					}
				}
				r := s.nfs(nfsx.ProcLookup, nfsx.ArgsDirop(root, ln))
				if r.Status == nfsx.OK {
					used = append(used, "/"+ln)
					bases.absorb(s.e.NFS)
					rl := s.nfs(nfsx.ProcReadlink, nfsx.ArgsFh(r.Fh))
					if rl.Status == nfsx.OK && c07BadRelTarget(rl.Link) {
						if stat.Violate(tb, id, check, "readlink-returns-dotdot-target", c, "READLINK of /%s (link planted in the backend) returned the relative target %q", ln, rl.Link) {
							known = true
						}
						return
					}
					nt = true
				}
			}
			if judge(fmt.Sprintf("%s with %q", rq.Proc, name), isMount, used...) {
				return
			}
		}
	})
	if abandoned {
		return
	}
	if known {
		stat.Case(c, false, "ended_at_known_finding")
		return
	}
	stat.Case(c, nt)
}

func c07BadRelTarget(t string) bool {
	if strings.HasPrefix(t, "/") {
		return false
	}
	for _, comp := range strings.Split(t, "/") {
		if comp == ".." {
			return true
		}
	}
	return false
}

func seedModelC07(m *mtree) {
	d := m.mk('d', "")
	m.root.children["d"] = d
	d.children["f"] = m.mk('f', "")
	m.root.children["abs"] = m.mk('l', "/d/f")
	m.root.children["up"] = m.mk('l', "../etc/passwd")
	m.root.children["mid"] = m.mk('l', "d/../d/f")
	m.root.children["ok"] = m.mk('l', "d/f")
	m.root.children["dots"] = m.mk('l', "d/..hidden")
}

var c07Alphabet = []byte{'.', '/', '\\', 0, 'a', ' ', 0x80, 0xFF}

func c07EnumNames() [][]byte {
	var out [][]byte
	var rec func(prefix []byte, n int)
	rec = func(prefix []byte, n int) {
		if len(prefix) > 0 {
			out = append(out, append([]byte(nil), prefix...))
		}
		if n == 0 {
			return
		}
		for _, b := range c07Alphabet {
			rec(append(prefix, b), n-1)
		}
	}
	rec(nil, 3)
	out = append(out, []byte{})
	for _, n := range []int{254, 255, 256, 1024, 8191, 8192, 8193} {
		out = append(out, []byte(strings.Repeat("n", n)))
		out = append(out, []byte(strings.Repeat("../", n/3)+"x"))
	}
	// the 255 limit is on bytes: multi-byte names around it (runes < bytes)
	for _, s := range []string{strings.Repeat("é", 127) + "a", strings.Repeat("é", 128), strings.Repeat("€", 85), strings.Repeat("€", 86), strings.Repeat("é", 200),
		strings.Repeat("\xff", 255), strings.Repeat("\xff", 256), strings.Repeat("\u00e9", 127) + "ab", strings.Repeat("𝄞", 64), strings.Repeat("𝄞", 63) + "abc"} {
		out = append(out, []byte(s))
	}
	for _, s := range []string{"a/../b", "a/./b", "a//b", "../../etc/passwd", "..\\..\\x", "d/../../x", "/etc/passwd", "//", "/d/f", "d/..", "..a", "a..", "...", "d/..hidden", "a\x00/../b"} {
		out = append(out, []byte(s))
	}
	return out
}

func TestC07Enum(t *testing.T) {
	stat.SetProperty("C07")
	stat.SetDisjoint(true)
	names := c07EnumNames()
	k := 0
	for _, n := range names {
		k++
		if k%nshards != shard {
			continue
		}
		// every procedure with this string on one fresh server
		var reqs []c07Req
		for _, p := range c07Procs {
			reqs = append(reqs, c07Req{Proc: p, Name: n, InD: true}, c07Req{Proc: p, Name: n})
		}
		runC07(t, c07Case{Reqs: reqs})
	}
	stat.Extra("enumerated_strings", len(names))
	stat.Extra("procedures_per_string", len(c07Procs))
}

func genC07(t *rapid.T) c07Case {
	c := c07Case{}
	if rapid.Bool().Draw(t, "withprefix") {
		c.Prefix = genC02OpsFrom07(t)
	}
	n := rapid.IntRange(1, 8).Draw(t, "nreqs")
	for i := 0; i < n; i++ {
		rq := c07Req{Proc: rapid.SampledFrom(c07Procs).Draw(t, "proc"), InD: rapid.Bool().Draw(t, "ind")}
		switch rapid.IntRange(0, 3).Draw(t, "namekind") {
		case 0:
			rq.Name = rapid.SliceOfN(rapid.SampledFrom(c07Alphabet), 0, 12).Draw(t, "alpha")
		case 1:
			rq.Name = rapid.SliceOfN(rapid.Byte(), 0, 300).Draw(t, "rnd")
			if rapid.IntRange(0, 3).Draw(t, "multibyte") == 0 {
				unit := pick(t, "unit", "é", "€", "𝄞", "a")
				rq.Name = []byte(strings.Repeat(unit, rapid.IntRange(60, 260).Draw(t, "reps")) + pick(t, "tail", "", "a", "ab", "abc"))
			}
		case 2:
			parts := rapid.SliceOfN(rapid.SampledFrom([]string{"..", ".", "a", "d", "f", "", "etc", "..a", "\\", "ok", "up"}), 1, 6).Draw(t, "parts")
			rq.Name = []byte(strings.Join(parts, "/"))
		default:
			rq.Name = rapid.SampledFrom(c07EnumNames()).Draw(t, "enum")
		}
		c.Reqs = append(c.Reqs, rq)
	}
	return c
}

// genC02OpsFrom07 draws a namespace history whose shadow model starts from the C07 seed tree.
func genC02OpsFrom07(t *rapid.T) []c02Op {
	return genC02OpsSeed(t, 12, []string{"lookup", "create", "mkdir", "symlink", "remove", "rename", "readdirplus", "getattr", "readlink"}, seedModelC07)
}

var propC07 = defProp("C07", "TestC07", genC07, runC07)

func TestC07(t *testing.T) { propC07.Test(t) }

// FuzzC07: native fuzzing of (procedure, name) pairs; the oracle is the same recorder judge.
func FuzzC07(f *testing.F) {
	stat.SetProperty("C07")
	for i, n := range [][]byte{[]byte(".."), []byte("a/b"), []byte("../x"), []byte("a\\b"), []byte("d/../../x"), {0x80, 0xff}} {
		f.Add(uint8(i), n)
	}
	f.Fuzz(func(t *testing.T, proc uint8, name []byte) {
		if len(name) > 9000 {
			return
		}
		runC07(t, c07Case{Reqs: []c07Req{{Proc: c07Procs[int(proc)%len(c07Procs)], Name: name, InD: proc&0x80 == 0}}})
	})
}
