package checks

// C21 Attribute and directory caches behave as bounded TTL LRU maps.
//
// cache.go is compiled against the virtual clock. Two regimes: histories
// without clock advance are compared with an exact reference LRU (hit/miss,
// value, size, eviction victim); histories with expiry are judged by validity
// predicates only, so an implementation that purges expired entries earlier or
// later is not accused. A concurrent variant runs under the race detector.

import (
	"fmt"
	"io/fs"
	"os"
	"strings"
	"sync"
	"testing"
	"time"

	"github.com/absfs/absnfs"
	"pgregory.net/rapid"

	"verif/harness/stat"
)

type c21Op struct {
	Kind  string `json:"kind"` // put putneg get inval invalnegdir subtree resize ttl negcfg clear advance
	Key   int    `json:"key"`
	N     int    `json:"n"`
	Dms   int64  `json:"dms"` // milliseconds
	Flag  bool   `json:"flag"`
	Mut   bool   `json:"mut"` // mutate the value after put / after get (copy isolation)
}

type c21Case struct {
	Cache   string  `json:"cache"` // attr | dir
	Cap     int     `json:"cap"`
	TTLms   int64   `json:"ttl_ms"`
	Expiry  bool    `json:"expiry"`
	NegOn   bool    `json:"neg_on"`
	MaxDir  int     `json:"max_dir"`
	Ops     []c21Op `json:"ops"`
}

var c21Keys = []string{"/", "/a", "/a/b", "/a/b/c", "/ab", "/a/bb", "/b", "/a/c"}

func refIsChild(p, d string) bool {
	if d == "/" {
		return p != "/" && strings.Count(p, "/") == 1 && len(p) > 1
	}
	return strings.HasPrefix(p, d+"/") && len(p) > len(d)+1 && !strings.Contains(p[len(d)+1:], "/")
}

func genC21(t *rapid.T) c21Case {
	c := c21Case{Cache: pick(t, "cache", "attr", "attr", "dir"), Cap: rapid.IntRange(1, 5).Draw(t, "cap"), TTLms: pick(t, "ttl", int64(1000), 5000, 60000),
		Expiry: rapid.Bool().Draw(t, "expiry"), NegOn: rapid.Bool().Draw(t, "neg"), MaxDir: pick(t, "maxdir", 2, 4, 100)}
	kinds := []string{"put", "put", "put", "get", "get", "get", "inval", "resize", "ttl", "clear", "advance", "advance"}
	if c.Cache == "attr" {
		kinds = append(kinds, "putneg", "putneg", "invalnegdir", "negcfg", "subtree")
	}
	n := rapid.IntRange(3, 40).Draw(t, "n")
	for i := 0; i < n; i++ {
		op := c21Op{Kind: rapid.SampledFrom(kinds).Draw(t, "kind"), Key: rapid.IntRange(0, len(c21Keys)-1).Draw(t, "key"), N: rapid.IntRange(-1, 6).Draw(t, "n"),
			Flag: rapid.Bool().Draw(t, "flag"), Mut: rapid.IntRange(0, 3).Draw(t, "mut") == 0}
		op.Dms = pick(t, "dms", int64(0), 1, 500, 999, 1000, 1001, 4999, 5000, 5001, 70000, -5)
		if op.Kind == "clear" && rapid.IntRange(0, 3).Draw(t, "rare") != 0 {
			op.Kind = "get"
		}
		c.Ops = append(c.Ops, op)
	}
	return c
}

type fakeInfo struct {
	name string
	id   int64
}

func (f fakeInfo) Name() string       { return f.name }
func (f fakeInfo) Size() int64        { return f.id }
func (f fakeInfo) Mode() fs.FileMode  { return 0644 }
func (f fakeInfo) ModTime() time.Time { return time.Time{} }
func (f fakeInfo) IsDir() bool        { return false }
func (f fakeInfo) Sys() any           { return nil }

// mEntry is the model's knowledge about a key.
type mEntry struct {
	present  bool
	neg      bool
	val      int64
	expireAt time.Time
	// expiry regime bookkeeping
	others map[string]bool // distinct other keys used since this key's last use
	minCap int
}

func runC21(tb stat.TB, c c21Case) {
	const id, check = "C21", "TestC21"
	requireVirtualClock(tb)
	start := time.Unix(1_800_000_000, 0)
	vclockMu.Lock()
	vclock = start
	vclockMu.Unlock()
	ttl := time.Duration(c.TTLms) * time.Millisecond
	negTTL := 5 * time.Second
	capNow := c.Cap
	negOn := false
	var ac *absnfs.AttrCache
	var dc *absnfs.DirCache
	if c.Cache == "attr" {
		ac = absnfs.NewAttrCache(ttl, c.Cap)
		ac.ConfigureNegativeCaching(c.NegOn, 0)
		negOn = c.NegOn
	} else {
		dc = absnfs.NewDirCache(ttl, c.Cap, c.MaxDir)
	}
	model := map[string]*mEntry{}
	for _, k := range c21Keys {
		model[k] = &mEntry{others: map[string]bool{}}
	}
	var order []string // MRU first; exact regime only
	nextVal := int64(1)
	sawEvictOrExpiry, ntGet := false, false
	affected := map[string]bool{}

	touch := func(k string) {
		for i, x := range order {
			if x == k {
				order = append(order[:i], order[i+1:]...)
				break
			}
		}
		order = append([]string{k}, order...)
		for kk, e := range model {
			if kk != k && e.present {
				e.others[k] = true
			}
		}
		model[k].others = map[string]bool{}
		model[k].minCap = capNow
	}
	remove := func(k string) {
		for i, x := range order {
			if x == k {
				order = append(order[:i], order[i+1:]...)
				break
			}
		}
		model[k].present = false
	}
	evictTo := func(limit int) {
		for len(order) > limit {
			victim := order[len(order)-1]
			remove(victim)
			sawEvictOrExpiry = true
			affected[victim] = true
		}
	}
	store := func(k string, neg bool, val int64, ttlNow time.Duration) {
		if !model[k].present {
			if !c.Expiry {
				evictTo(capNow - 1)
			}
		}
		e := model[k]
		e.present, e.neg, e.val, e.expireAt = true, neg, val, vnow().Add(ttlNow)
		touch(k)
	}
	size := func() int {
		if ac != nil {
			return ac.Size()
		}
		return dc.Size()
	}
	viol := func(sig, f string, a ...any) bool { return stat.Violate(tb, id, check, sig, c, f, a...) }

	// get performs a lookup and judges it; returns true if the case must stop.
	get := func(i int, k string, mut bool) bool {
		var hit, negHit bool
		var val int64
		if ac != nil {
			attrs, found := ac.Get(k)
			hit = found && attrs != nil
			negHit = found && attrs == nil
			if hit {
				val = attrs.Size
				if mut {
					attrs.Size = -777
				}
			}
		} else {
			ents, found := dc.Get(k)
			hit = found
			if hit {
				if len(ents) > 0 {
					val = ents[0].Size()
					if mut {
						ents[0] = fakeInfo{"mutated", -777}
					}
				} else {
					val = 0
				}
			}
		}
		e := model[k]
		now := vnow()
		what := fmt.Sprintf("op#%d Get(%s) at +%v", i, k, now.Sub(start))
		if affected[k] {
			ntGet = true
		}
		if negHit && !negOn {
			return viol("negative-entry-served-while-disabled", "%s returned a negative hit although negative caching is disabled", what)
		}
		if !c.Expiry {
			// exact regime
			wantHit := e.present
			if wantHit != (hit || negHit) {
				return viol("lru-hit-miss-differs", "%s: cache says hit=%v, reference LRU (capacity %d, order %v) says %v", what, hit || negHit, capNow, order, wantHit)
			}
			if wantHit {
				if e.neg != negHit {
					return viol("wrong-entry-kind", "%s: negative=%v, model negative=%v", what, negHit, e.neg)
				}
				if hit && val != e.val {
					return viol("stale-or-foreign-value", "%s returned value %d, the most recent value stored is %d", what, val, e.val)
				}
				touch(k)
			}
			return false
		}
		// expiry regime: validity predicates
		if hit || negHit {
			if !e.present {
				return viol("hit-after-invalidate-or-never-stored", "%s hit, but the key was invalidated/cleared or never stored", what)
			}
			if now.After(e.expireAt) {
				return viol("expired-entry-served", "%s hit, but the entry expired at +%v", what, e.expireAt.Sub(start))
			}
			if e.neg != negHit {
				return viol("wrong-entry-kind", "%s: negative=%v, model negative=%v", what, negHit, e.neg)
			}
			if hit && val != e.val {
				return viol("stale-or-foreign-value", "%s returned value %d, the most recent value stored is %d", what, val, e.val)
			}
			touch(k)
			return false
		}
		// miss
		if e.present && now.Before(e.expireAt) && len(e.others) < e.minCap && e.minCap > 0 {
			return viol("live-entry-missing", "%s missed although the entry is unexpired (until +%v), was not invalidated and only %d other keys (capacity >= %d) were used since its last use", what, e.expireAt.Sub(start), len(e.others), e.minCap)
		}
		if e.present {
			sawEvictOrExpiry = true
			remove(k) // expired entries are purged on access; evicted ones are gone
		}
		return false
	}

	for i, op := range c.Ops {
		k := c21Keys[op.Key]
		switch op.Kind {
		case "advance":
			if c.Expiry && op.Dms > 0 {
				vadvance(time.Duration(op.Dms) * time.Millisecond)
				for kk, e := range model {
					if e.present && !vnow().Before(e.expireAt) {
						affected[kk] = true
					}
				}
			}
		case "put":
			val := nextVal
			nextVal++
			if ac != nil {
				a := absnfs.NewVerifAttrs(0644, val, uint64(val), 1, 2)
				ac.Put(k, a)
				if op.Mut {
					a.Size = -555
				}
				store(k, false, val, ttl)
			} else {
				n := op.N
				if n < 0 {
					n = 0
				}
				ents := make([]os.FileInfo, n)
				for j := range ents {
					ents[j] = fakeInfo{fmt.Sprintf("e%d", j), val}
				}
				dc.Put(k, ents)
				if op.Mut && n > 0 {
					ents[0] = fakeInfo{"mutated", -555}
				}
				if n <= c.MaxDir {
					v := val
					if n == 0 {
						v = 0
					}
					store(k, false, v, ttl)
				}
			}
		case "putneg":
			ac.PutNegative(k)
			if negOn {
				store(k, true, 0, negTTL)
			}
		case "get":
			if get(i, k, op.Mut) {
				return
			}
		case "inval":
			if ac != nil {
				ac.Invalidate(k)
			} else {
				dc.Invalidate(k)
			}
			remove(k)
		case "subtree":
			ac.InvalidateSubtree(k)
			for _, kk := range c21Keys {
				if kk == k || strings.HasPrefix(kk, strings.TrimSuffix(k, "/")+"/") {
					remove(kk)
				}
			}
		case "invalnegdir":
			ac.InvalidateNegativeInDir(k)
			for _, kk := range c21Keys {
				if model[kk].present && model[kk].neg && refIsChild(kk, k) {
					remove(kk)
				}
			}
		case "resize":
			n := op.N
			eff := n
			if n <= 0 {
				eff = 10000
				if dc != nil {
					eff = 1000
				}
			}
			if ac != nil {
				ac.Resize(n)
			} else {
				dc.Resize(n)
			}
			capNow = eff
			if !c.Expiry {
				evictTo(capNow)
			} else {
				for _, e := range model {
					if e.minCap > capNow {
						e.minCap = capNow
					}
				}
			}
		case "ttl":
			d := time.Duration(op.Dms) * time.Millisecond
			if ac != nil {
				ac.UpdateTTL(d)
				if d <= 0 {
					d = 5 * time.Second
				}
			} else {
				dc.UpdateTTL(d)
				if d <= 0 {
					d = 10 * time.Second
				}
			}
			ttl = d
		case "negcfg":
			d := time.Duration(op.Dms) * time.Millisecond
			ac.ConfigureNegativeCaching(op.Flag, d)
			if d > 0 {
				negTTL = d
			}
			if !op.Flag && negOn {
				// negative entries exist only while negative caching is enabled
				for _, kk := range c21Keys {
					if model[kk].present && model[kk].neg {
						remove(kk)
					}
				}
			}
			negOn = op.Flag
		case "clear":
			if ac != nil {
				ac.Clear()
			} else {
				dc.Clear()
			}
			for _, kk := range c21Keys {
				remove(kk)
			}
		}
		if s := size(); s > capNow {
			if viol("cache-exceeds-capacity", "after op#%d %s: Size()=%d > capacity %d", i, op.Kind, s, capNow) {
				return
			}
		}
		if !c.Expiry {
			if s := size(); s != len(order) {
				if viol("size-differs-from-reference", "after op#%d %s %s: Size()=%d, reference LRU holds %d (%v)", i, op.Kind, k, s, len(order), order) {
					return
				}
			}
		}
	}
	// final sweep: every key, least recently used first (so the sweep itself does not evict)
	sweep := append([]string(nil), c21Keys...)
	for i, k := range sweep {
		if get(1000+i, k, false) {
			return
		}
	}
	var ls []string
	if c.Expiry {
		ls = append(ls, "expiry_regime")
	} else {
		ls = append(ls, "exact_lru_regime")
	}
	ls = append(ls, "cache_"+c.Cache)
	stat.Case(c, sawEvictOrExpiry && ntGet, ls...)
}

var propC21 = defProp("C21", "TestC21", genC21, runC21)

func TestC21(t *testing.T) { propC21.Test(t) }

// ---- concurrent variant (run under -race): size bound and provenance of returned values

type c21CCase struct {
	Cap int       `json:"cap"`
	Ops [][]c21Op `json:"ops"` // one list per goroutine
}

func genC21C(t *rapid.T) c21CCase {
	c := c21CCase{Cap: rapid.IntRange(1, 4).Draw(t, "cap")}
	for g := 0; g < 4; g++ {
		var ops []c21Op
		n := rapid.IntRange(5, 60).Draw(t, "n")
		for i := 0; i < n; i++ {
			ops = append(ops, c21Op{Kind: pick(t, "kind", "put", "put", "get", "get", "inval", "putneg", "invalnegdir", "resize", "clear"), Key: rapid.IntRange(0, len(c21Keys)-1).Draw(t, "key"), N: rapid.IntRange(1, 4).Draw(t, "n")})
		}
		c.Ops = append(c.Ops, ops)
	}
	return c
}

func runC21C(tb stat.TB, c c21CCase) {
	const id, check = "C21", "TestC21Concurrent"
	ac := absnfs.NewAttrCache(time.Hour, c.Cap)
	ac.ConfigureNegativeCaching(true, time.Hour)
	dc := absnfs.NewDirCache(time.Hour, c.Cap, 100)
	var wg sync.WaitGroup
	var mu sync.Mutex
	var bad string
	maxCap := 4
	for g, ops := range c.Ops {
		wg.Add(1)
		go func(g int, ops []c21Op) {
			defer wg.Done()
			for i, op := range ops {
				k := c21Keys[op.Key]
				tag := int64(op.Key)*1000000 + int64(g)*10000 + int64(i)
				switch op.Kind {
				case "put":
					ac.Put(k, absnfs.NewVerifAttrs(0644, tag, 0, 0, 0))
					dc.Put(k, []os.FileInfo{fakeInfo{"e", tag}})
				case "get":
					if a, ok := ac.Get(k); ok && a != nil && a.Size/1000000 != int64(op.Key) {
						mu.Lock()
						bad = fmt.Sprintf("AttrCache.Get(%s) returned value %d stored for key #%d", k, a.Size, a.Size/1000000)
						mu.Unlock()
					}
					if e, ok := dc.Get(k); ok && len(e) > 0 && e[0].Size()/1000000 != int64(op.Key) {
						mu.Lock()
						bad = fmt.Sprintf("DirCache.Get(%s) returned value %d stored for key #%d", k, e[0].Size(), e[0].Size()/1000000)
						mu.Unlock()
					}
				case "inval":
					ac.Invalidate(k)
					dc.Invalidate(k)
				case "putneg":
					ac.PutNegative(k)
				case "invalnegdir":
					ac.InvalidateNegativeInDir(k)
				case "resize":
					ac.Resize(op.N)
					dc.Resize(op.N)
				case "clear":
					ac.Clear()
					dc.Clear()
				}
				if s := ac.Size(); s > maxCap {
					mu.Lock()
					bad = fmt.Sprintf("AttrCache.Size()=%d exceeds every capacity configured (<= %d)", s, maxCap)
					mu.Unlock()
				}
				if s := dc.Size(); s > maxCap {
					mu.Lock()
					bad = fmt.Sprintf("DirCache.Size()=%d exceeds every capacity configured (<= %d)", s, maxCap)
					mu.Unlock()
				}
			}
		}(g, ops)
	}
	wg.Wait()
	if bad != "" {
		stat.Violate(tb, id, check, "concurrent-cache-invariant-broken", c, "%s", bad)
		return
	}
	stat.Case(c, true)
}

var propC21C = defProp("C21", "TestC21Concurrent", genC21C, runC21C)

func TestC21Concurrent(t *testing.T) { propC21C.Test(t) }

// ---- expiry racing a fresh Put (run under -race, real time)
//
// "A lookup returns a copy of the most recent value stored for the key if it has not expired, been invalidated or been
// evicted." K keys are stored with a TTL of a few milliseconds and left to expire; the TTL is then raised to an hour
// and, for every key at once, one goroutine looks the (expired) key up while another stores a fresh value. When both
// have returned the fresh value is the most recent one stored, it has not expired, nothing invalidates and the
// capacity is not reached: a lookup must return it. Cleaning up the expired entry may not take the fresh one with it.

type c21ECase struct {
	Keys   int `json:"keys"`
	Rounds int `json:"rounds"`
	TTLms  int `json:"ttl_ms"`
	Gets   int `json:"gets"` // concurrent lookups per key
}

func genC21E(t *rapid.T) c21ECase {
	return c21ECase{Keys: rapid.IntRange(4, 40).Draw(t, "keys"), Rounds: rapid.IntRange(1, 4).Draw(t, "rounds"), TTLms: rapid.IntRange(1, 3).Draw(t, "ttl"), Gets: rapid.IntRange(1, 3).Draw(t, "gets")}
}

func runC21E(tb stat.TB, c c21ECase) {
	const id, check = "C21", "TestC21Expiry"
	ttl := time.Duration(c.TTLms) * time.Millisecond
	ac := absnfs.NewAttrCache(ttl, 1000)
	dc := absnfs.NewDirCache(ttl, 1000, 100)
	var mu sync.Mutex
	var bad, sig string
	judged := 0
	for r := 0; r < c.Rounds && bad == ""; r++ {
		ac.UpdateTTL(ttl)
		dc.UpdateTTL(ttl)
		for k := 0; k < c.Keys; k++ {
			p := fmt.Sprintf("/e/k%d", k)
			ac.Put(p, absnfs.NewVerifAttrs(0644, int64(1000*r+1), 0, 0, 0))
			dc.Put(p, []os.FileInfo{fakeInfo{"old", int64(1000*r + 1)}})
		}
		time.Sleep(ttl + 2*time.Millisecond)
		ac.UpdateTTL(time.Hour)
		dc.UpdateTTL(time.Hour)
		var wg sync.WaitGroup
		start := make(chan struct{})
		for k := 0; k < c.Keys; k++ {
			p := fmt.Sprintf("/e/k%d", k)
			fresh := int64(1000*r + 2)
			for g := 0; g < c.Gets; g++ {
				wg.Add(1)
				go func() { defer wg.Done(); <-start; ac.Get(p); dc.Get(p) }()
			}
			wg.Add(1)
			go func() {
				defer wg.Done()
				<-start
				ac.Put(p, absnfs.NewVerifAttrs(0644, fresh, 0, 0, 0))
				dc.Put(p, []os.FileInfo{fakeInfo{"new", fresh}})
			}()
		}
		close(start)
		wg.Wait()
		for k := 0; k < c.Keys; k++ {
			p := fmt.Sprintf("/e/k%d", k)
			fresh := int64(1000*r + 2)
			judged++
			if a, ok := ac.Get(p); !ok || a == nil || a.Size != fresh {
				mu.Lock()
				sig, bad = "fresh-entry-lost-to-expiry-cleanup:attr", fmt.Sprintf("round %d: AttrCache.Get(%s) after a completed Put of a fresh value (TTL one hour, capacity 1000, no invalidation) returned (%v, %v); a lookup of the expired predecessor ran beside the Put", r, p, a, ok)
				mu.Unlock()
				break
			}
			if e, ok := dc.Get(p); !ok || len(e) != 1 || e[0].Size() != fresh {
				mu.Lock()
				sig, bad = "fresh-entry-lost-to-expiry-cleanup:dir", fmt.Sprintf("round %d: DirCache.Get(%s) after a completed Put of a fresh listing (TTL one hour, capacity 1000, no invalidation) returned (%d entries, %v); a lookup of the expired predecessor ran beside the Put", r, p, len(e), ok)
				mu.Unlock()
				break
			}
		}
	}
	if bad != "" {
		stat.Violate(tb, id, check, sig, c, "%s", bad)
		return
	}
	stat.Label("fresh_puts_judged", int64(judged))
	stat.Case(c, true)
}

var propC21E = defProp("C21", "TestC21Expiry", genC21E, runC21E)

func TestC21Expiry(t *testing.T) { propC21E.Test(t) }
