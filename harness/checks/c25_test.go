package checks

// C25 MaxFileSize is enforced.
//
// Differential against an unlimited twin server plus a size invariant: no
// request makes a file larger than MaxFileSize; requests that would are
// answered NFS3ERR_FBIG and change nothing; all other requests behave exactly
// as on the twin.

import (
	"fmt"
	"sync"
	"sync/atomic"
	"testing"
	"time"

	"github.com/absfs/absnfs"
	"pgregory.net/rapid"

	"verif/harness/drv"
	"verif/harness/nfsx"
	"verif/harness/stat"
	"verif/harness/vfs"
)

type c25Op struct {
	Kind string `json:"kind"` // write setsize create (UNCHECKED CREATE of the existing file with an explicit size)
	End  int    `json:"end"`  // selector of the resulting end offset / size relative to M
	Len  int    `json:"len"`
	// Guard (setsize): the SETATTR carries a sattrguard3 with the object's current ctime (fetched by GETATTR just before);
	// a guard that matches does not lift the limit
	Guard bool `json:"guard,omitempty"`
	// Mode (setsize): the same SETATTR also sets mode 0600 and mtime; a request refused for its size leaves all of the
	// file as it was
	Mode bool `json:"mode,omitempty"`
	// Under (write): the count field announces this many bytes fewer than the data opaque carries; whatever the server
	// makes of such a request, the file must not end up beyond the limit
	Under int `json:"under,omitempty"`
}

type c25Case struct {
	M       int64   `json:"max_file_size"`
	Runtime bool    `json:"set_at_runtime"`
	// PreGrow (only with Runtime): the file is grown to this many bytes beyond M before the limit is switched on,
	// so the limit arrives below the size of an existing file (0: the file is empty then)
	PreGrow int64   `json:"pre_grow,omitempty"`
	Ops     []c25Op `json:"ops"`
}

func genC25(t *rapid.T) c25Case {
	c := c25Case{M: pick(t, "m", int64(1), 2, 100, 4096, 65537, 1<<31, 1<<40), Runtime: rapid.Bool().Draw(t, "runtime")}
	if c.Runtime && c.M < 1<<31 {
		c.PreGrow = pick(t, "pregrow", int64(0), 0, 1, 7, 6000)
	}
	n := rapid.IntRange(2, 14).Draw(t, "n")
	for i := 0; i < n; i++ {
		c.Ops = append(c.Ops, c25Op{Kind: pick(t, "kind", "write", "write", "write", "setsize", "setsize", "create"), End: rapid.IntRange(0, 10).Draw(t, "end"), Len: pick(t, "len", 0, 1, 2, 3, 100, 5000), Guard: rapid.IntRange(0, 2).Draw(t, "guard") == 0, Mode: rapid.IntRange(0, 2).Draw(t, "mode") == 0, Under: pick(t, "under", 0, 0, 0, 0, 1, 3, 100)})
	}
	return c
}

// c25End maps a selector to an absolute end offset.
func c25End(m int64, sel int) uint64 {
	switch sel {
	case 0:
		return uint64(m - 1)
	case 1:
		return uint64(m)
	case 2:
		return uint64(m + 1)
	case 3:
		return uint64(2 * m)
	case 4:
		return 1 << 62
	case 5:
		return uint64(m / 2)
	case 6:
		return 1
	case 7:
		return uint64(m + 5000)
	case 9:
		return uint64(m + 3)
	case 10:
		return uint64(m + 2500)
	}
	return 0
}

func runC25(tb stat.TB, c c25Case) {
	const id, check = "C25", "TestC25"
	mk := func(limit int64) (*session, *vfs.FS) {
		v := vfs.New()
		s := newSession(tb, v, absnfs.ExportOptions{MaxFileSize: limit, TransferSize: 1 << 20, AttrCacheTimeout: 1, AttrCacheSize: 2})
		return s, v
	}
	initial := c.M
	if c.Runtime {
		initial = 0
	}
	lim, lv := mk(initial)
	defer lim.close()
	twin, tv := mk(0)
	defer twin.close()
	nt := false
	abandoned := guard(func() {
		setup := func(s *session) ([]byte, []byte) {
			root := s.mount()
			r := s.nfs(nfsx.ProcCreate, nfsx.ArgsCreate(root, "f", nfsx.Unchecked, nfsx.Sattr{}, [8]byte{}))
			if r.Status != nfsx.OK || r.Fh == nil {
				tb.Fatalf("harness: create: %s", statusName(r.Status))
			}
			return r.Fh, root
		}
		lfh, lroot := setup(lim)
		tfh, troot := setup(twin)
		if c.Runtime && c.PreGrow > 0 {
			for _, x := range []struct {
				s  *session
				fh []byte
			}{{lim, lfh}, {twin, tfh}} {
				if r := x.s.nfs(nfsx.ProcSetattr, nfsx.ArgsSetattr(x.fh, nfsx.Sattr{Size: nfsx.U64p(uint64(c.M + c.PreGrow))}, nil)); r.Status != nfsx.OK {
					tb.Fatalf("harness: pre-grow: %s", statusName(r.Status))
				}
			}
			nt = true
		}
		if c.Runtime {
			o := lim.e.NFS.GetExportOptions()
			o.MaxFileSize = c.M
			if err := lim.e.NFS.UpdateExportOptions(o); err != nil {
				tb.Fatalf("harness: %v", err)
			}
		}
		for i, op := range c.Ops {
			end := c25End(c.M, op.End)
			pre, _ := lv.PeekLstat("/f")
			var lres, tres *nfsx.Res
			what := ""
			lastOp := false
			switch op.Kind {
			case "write":
				ln := op.Len
				if uint64(ln) > end {
					ln = int(end)
				}
				off := end - uint64(ln)
				data := make([]byte, ln)
				for j := range data {
					data[j] = byte(i*31+j) | 1
				}
				what = fmt.Sprintf("op#%d WRITE offset=%d len=%d (end %d, limit %d)", i, off, ln, end, c.M)
				cnt := ln
				if op.Under > 0 && op.Under <= ln {
					cnt = ln - op.Under
					what += fmt.Sprintf(" announcing count=%d", cnt)
				}
				if cnt != ln {
					// count and data disagree: whatever the reply (also one the strict decoder rejects), only the size
					// invariant below is judged
					stat.Label("write_count_below_data_length", 1)
					r, rerr := lim.e.NFS3(lim.cl, nfsx.ProcWrite, nfsx.ArgsWrite(lfh, off, uint32(cnt), nfsx.FileSync, data))
					if rerr != nil {
						r = &nfsx.Res{Proc: nfsx.ProcWrite, Status: 0xFFFFFFFF}
					}
					lres = r
					if int64(end) <= c.M {
						// within the limit under either reading of the request: the twin receives it too
						lim2, terr := twin.e.NFS3(twin.cl, nfsx.ProcWrite, nfsx.ArgsWrite(tfh, off, uint32(cnt), nfsx.FileSync, data))
						if terr != nil {
							lim2 = &nfsx.Res{Proc: nfsx.ProcWrite, Status: 0xFFFFFFFF}
						}
						tres = lim2
					} else {
						lastOp = true // the twin cannot follow a request whose two readings fall on both sides of the limit
					}
					break
				}
				lres = lim.nfs(nfsx.ProcWrite, nfsx.ArgsWrite(lfh, off, uint32(cnt), nfsx.FileSync, data))
				exceeds := int64(end) > c.M && ln > 0
				if !exceeds {
					tres = twin.nfs(nfsx.ProcWrite, nfsx.ArgsWrite(tfh, off, uint32(ln), nfsx.FileSync, data))
				}
				if int64(end) >= c.M-1 && int64(end) <= c.M+1 {
					nt = true
				}
				if exceeds {
					if lres.Status != nfsx.ErrFBig {
						if stat.Violate(tb, id, check, "oversize-write-not-FBIG", c, "%s replied %s, want NFS3ERR_FBIG", what, statusName(lres.Status)) {
							return
						}
					}
				}
			case "create":
				what = fmt.Sprintf("op#%d CREATE UNCHECKED of the existing file with size=%d (limit %d)", i, end, c.M)
				lres = lim.nfs(nfsx.ProcCreate, nfsx.ArgsCreate(lroot, "f", nfsx.Unchecked, nfsx.Sattr{Size: nfsx.U64p(end)}, [8]byte{}))
				if int64(end) <= c.M {
					tres = twin.nfs(nfsx.ProcCreate, nfsx.ArgsCreate(troot, "f", nfsx.Unchecked, nfsx.Sattr{Size: nfsx.U64p(end)}, [8]byte{}))
				}
				// (CREATE is not named by the statement: only the size invariant and the twin comparison are judged)
			case "setsize":
				what = fmt.Sprintf("op#%d SETATTR size=%d (limit %d, matching sattrguard3: %v)", i, end, c.M, op.Guard)
				var lg, tg *nfsx.Time
				if op.Guard {
					if ga := lim.nfs(nfsx.ProcGetattr, nfsx.ArgsFh(lfh)); ga.Status == nfsx.OK && ga.Attr != nil {
						g := ga.Attr.Ctime
						lg = &g
					}
					if ga := twin.nfs(nfsx.ProcGetattr, nfsx.ArgsFh(tfh)); ga.Status == nfsx.OK && ga.Attr != nil {
						g := ga.Attr.Ctime
						tg = &g
					}
				}
				sa := nfsx.Sattr{Size: nfsx.U64p(end)}
				if op.Mode {
					sa.Mode = nfsx.U32p(uint32(0600 + i%8))
					sa.Mtime = nfsx.SetTime{How: 2, T: nfsx.Time{Sec: uint32(4000 + i), Nsec: 1}}
					what += " + mode + mtime"
				}
				lres = lim.nfs(nfsx.ProcSetattr, nfsx.ArgsSetattr(lfh, sa, lg))
				exceeds := int64(end) > c.M
				if !exceeds {
					tres = twin.nfs(nfsx.ProcSetattr, nfsx.ArgsSetattr(tfh, sa, tg))
				}
				if int64(end) >= c.M-1 && int64(end) <= c.M+1 {
					nt = true
				}
				if exceeds && lres.Status != nfsx.ErrFBig {
					if stat.Violate(tb, id, check, "oversize-setattr-not-FBIG", c, "%s replied %s, want NFS3ERR_FBIG", what, statusName(lres.Status)) {
						return
					}
				}
			}
			post, _ := lv.PeekLstat("/f")
			if post.Size > c.M && post.Size != pre.Size {
				if stat.Violate(tb, id, check, "file-exceeds-max-file-size", c, "%s (%s): the request took the file from %d to %d bytes, MaxFileSize is %d", what, statusName(lres.Status), pre.Size, post.Size, c.M) {
					return
				}
			}
			if lastOp {
				if lres.Status != nfsx.OK && post.Size != pre.Size {
					stat.Violate(tb, id, check, "refused-request-changes-file", c, "%s was refused but the size went from %d to %d", what, pre.Size, post.Size)
				}
				break
			}
			if tres == nil {
				// refused request: nothing may have changed
				if lres.Status != nfsx.OK && (post.Size != pre.Size || lv.Snapshot()["/f"].Hash != hashOf(lv, pre)) {
					_ = pre
				}
				if lres.Status != nfsx.OK && (post.Perm != pre.Perm || post.Uid != pre.Uid || post.Gid != pre.Gid) {
					if stat.Violate(tb, id, check, "refused-request-changes-file", c, "%s was refused (%s) but mode/owner went from %o %d/%d to %o %d/%d", what, statusName(lres.Status), pre.Perm, pre.Uid, pre.Gid, post.Perm, post.Uid, post.Gid) {
						return
					}
				}
				if lres.Status != nfsx.OK && post.Size != pre.Size {
					if stat.Violate(tb, id, check, "refused-request-changes-file", c, "%s was refused but the size went from %d to %d", what, pre.Size, post.Size) {
						return
					}
				}
				continue
			}
			// within the limit: identical behaviour to the unlimited twin
			if lres.Status != tres.Status || lres.Count != tres.Count {
				if stat.Violate(tb, id, check, "within-limit-request-behaves-differently", c, "%s: limited server replied %s count=%d, unlimited twin %s count=%d", what, statusName(lres.Status), lres.Count, statusName(tres.Status), tres.Count) {
					return
				}
			}
			ls, ts := lv.Snapshot()["/f"], tv.Snapshot()["/f"]
			if ls.Size != ts.Size || ls.Hash != ts.Hash {
				if stat.Violate(tb, id, check, "within-limit-request-behaves-differently", c, "%s: file is %d bytes (hash %x) on the limited server, %d bytes (hash %x) on the twin", what, ls.Size, ls.Hash, ts.Size, ts.Hash) {
					return
				}
			}
		}
	})
	if abandoned {
		return
	}
	var ls []string
	if c.Runtime {
		ls = append(ls, "limit_set_at_runtime")
	}
	if c.PreGrow > 0 {
		ls = append(ls, "limit_set_below_existing_size")
	}
	stat.Case(c, nt, ls...)
}

func hashOf(v *vfs.FS, e vfs.Entry) uint64 { return e.Hash }

var propC25 = defProp("C25", "TestC25", genC25, runC25)

func TestC25(t *testing.T) { propC25.Test(t) }

// ---- the limit lowered (or switched on) while a growing request is inside the backend
//
// Once the update has returned the limit is in force; a WRITE / SETATTR(size)
// admitted under the old limit must not grow the file beyond the new one after
// that point (the update has to wait for it).

type c25DCase struct {
	Old     int64  `json:"old"`     // limit at construction (0 = none)
	New     int64  `json:"new"`     // limit set at runtime
	End     int64  `json:"end"`     // size the parked request produces, New < End (<= Old if Old > 0)
	Setattr bool   `json:"setattr"` // SETATTR(size) instead of WRITE
	Via     string `json:"via"`     // policy export
	WaitMs  int    `json:"wait_ms"`
}

func genC25D(t *rapid.T) c25DCase {
	c := c25DCase{Old: pick(t, "old", int64(0), 1000, 5000), New: pick(t, "new", int64(1), 10, 100, 999), Setattr: rapid.Bool().Draw(t, "setattr"),
		Via: pick(t, "via", "policy", "export"), WaitMs: pick(t, "wait", 0, 5, 60, 120)}
	hi := c.Old
	if hi == 0 {
		hi = 5000
	}
	c.End = rapid.Int64Range(c.New+1, hi).Draw(t, "end")
	return c
}

func runC25D(tb stat.TB, c c25DCase) {
	const id, check = "C25", "TestC25Drain"
	v := vfs.New()
	v.SeedFile("/f", 0644, 0, 0, []byte("x"))
	s := newSession(tb, v, absnfs.ExportOptions{AttrCacheTimeout: 1, AttrCacheSize: 4, MaxFileSize: c.Old, Timeouts: drv.FastTimeouts(5 * time.Second)})
	defer s.close()
	s.tolerateMalformed = true
	root := s.mount()
	fr := s.nfs(nfsx.ProcLookup, nfsx.ArgsDirop(root, "f"))
	if fr.Status != nfsx.OK {
		tb.Fatalf("harness: lookup f")
	}
	gate := make(chan struct{})
	parked := make(chan struct{})
	var once sync.Once
	var inForce atomic.Bool
	var late []string
	var mu sync.Mutex
	v.SetBefore(func(call *vfs.Call) {
		if !call.Mutating {
			return
		}
		once.Do(func() { close(parked) })
		<-gate
		grows := (call.Op == "File.WriteAt" && call.Off+int64(call.N) > c.New) || ((call.Op == "Truncate" || call.Op == "File.Truncate") && call.Size > c.New)
		if inForce.Load() && grows {
			mu.Lock()
			late = append(late, call.String())
			mu.Unlock()
		}
	})
	done := make(chan struct{})
	go func() {
		defer close(done)
		proc, args := uint32(nfsx.ProcWrite), nfsx.ArgsWrite(fr.Fh, uint64(c.End-1), 1, nfsx.FileSync, []byte("Z"))
		if c.Setattr {
			proc, args = nfsx.ProcSetattr, nfsx.ArgsSetattr(fr.Fh, nfsx.Sattr{Size: nfsx.U64p(uint64(c.End))}, nil)
		}
		s.e.CallWire(drv.Root(), nfsx.Call(s.e.NextXid(), nfsx.ProgNFS, 3, proc, drv.Root().Cred, nfsx.AuthNone(), args))
	}()
	select {
	case <-parked:
	case <-done:
		stat.Discard(false)
		close(gate)
		return
	case <-time.After(10 * time.Second):
		close(gate)
		tb.Fatalf("harness: request neither parked nor returned")
	}
	upd := make(chan error, 1)
	go func() {
		var err error
		if c.Via == "policy" {
			err = s.e.NFS.UpdatePolicyOptions(absnfs.PolicyOptions{MaxFileSize: c.New})
		} else {
			o := s.e.NFS.GetExportOptions()
			o.MaxFileSize = c.New
			err = s.e.NFS.UpdateExportOptions(o)
		}
		inForce.Store(true)
		upd <- err
	}()
	select {
	case err := <-upd:
		upd <- err
	case <-time.After(time.Duration(c.WaitMs) * time.Millisecond):
	}
	close(gate)
	select {
	case err := <-upd:
		if err != nil {
			tb.Fatalf("harness: update failed: %v", err)
		}
	case <-time.After(20 * time.Second):
		stat.Violate(tb, id, check, "limit-update-never-returns", c, "the MaxFileSize update did not return within 20 s after the in-flight request was released")
		return
	}
	<-done
	time.Sleep(2 * time.Millisecond)
	v.SetBefore(nil)
	mu.Lock()
	defer mu.Unlock()
	if len(late) > 0 {
		stat.Violate(tb, id, check, "file-grows-beyond-limit-after-limit-update-returned", c, "MaxFileSize %d -> %d returned while a request admitted under the old limit was still inside the backend; it then issued %s", c.Old, c.New, late[0])
		return
	}
	stat.Case(c, true)
}

var propC25D = defProp("C25", "TestC25Drain", genC25D, runC25D)

func TestC25Drain(t *testing.T) { propC25D.Test(t) }
