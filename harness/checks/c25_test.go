package checks

// C25 MaxFileSize is enforced.
//
// Differential against an unlimited twin server plus a size invariant: no
// request makes a file larger than MaxFileSize; requests that would are
// answered NFS3ERR_FBIG and change nothing; all other requests behave exactly
// as on the twin.

import (
	"fmt"
	"testing"

	"github.com/absfs/absnfs"
	"pgregory.net/rapid"

	"verif/harness/nfsx"
	"verif/harness/stat"
	"verif/harness/vfs"
)

type c25Op struct {
	Kind string `json:"kind"` // write setsize
	End  int    `json:"end"`  // selector of the resulting end offset / size relative to M
	Len  int    `json:"len"`
}

type c25Case struct {
	M       int64   `json:"max_file_size"`
	Runtime bool    `json:"set_at_runtime"`
	Ops     []c25Op `json:"ops"`
}

func genC25(t *rapid.T) c25Case {
	c := c25Case{M: pick(t, "m", int64(1), 2, 100, 4096, 65537, 1<<31, 1<<40), Runtime: rapid.Bool().Draw(t, "runtime")}
	n := rapid.IntRange(2, 14).Draw(t, "n")
	for i := 0; i < n; i++ {
		c.Ops = append(c.Ops, c25Op{Kind: pick(t, "kind", "write", "write", "setsize"), End: rapid.IntRange(0, 8).Draw(t, "end"), Len: pick(t, "len", 0, 1, 2, 3, 100, 5000)})
	}
	return c
}

// c25End maps a selector to an absolute end offset.
func c25End(m int64, sel int) uint64 {
	switch sel {
	case 0:
		return uint64(m - 1)
	case 1:
		return uint64(m)
	case 2:
		return uint64(m + 1)
	case 3:
		return uint64(2 * m)
	case 4:
		return 1 << 62
	case 5:
		return uint64(m / 2)
	case 6:
		return 1
	case 7:
		return uint64(m + 5000)
	}
	return 0
}

func runC25(tb stat.TB, c c25Case) {
	const id, check = "C25", "TestC25"
	mk := func(limit int64) (*session, *vfs.FS) {
		v := vfs.New()
		s := newSession(tb, v, absnfs.ExportOptions{MaxFileSize: limit, TransferSize: 1 << 20, AttrCacheTimeout: 1, AttrCacheSize: 2})
		return s, v
	}
	initial := c.M
	if c.Runtime {
		initial = 0
	}
	lim, lv := mk(initial)
	defer lim.close()
	twin, tv := mk(0)
	defer twin.close()
	nt := false
	abandoned := guard(func() {
		setup := func(s *session) []byte {
			root := s.mount()
			r := s.nfs(nfsx.ProcCreate, nfsx.ArgsCreate(root, "f", nfsx.Unchecked, nfsx.Sattr{}, [8]byte{}))
			if r.Status != nfsx.OK || r.Fh == nil {
				tb.Fatalf("harness: create: %s", statusName(r.Status))
			}
			return r.Fh
		}
		lfh, tfh := setup(lim), setup(twin)
		if c.Runtime {
			o := lim.e.NFS.GetExportOptions()
			o.MaxFileSize = c.M
			if err := lim.e.NFS.UpdateExportOptions(o); err != nil {
				tb.Fatalf("harness: %v", err)
			}
		}
		for i, op := range c.Ops {
			end := c25End(c.M, op.End)
			pre, _ := lv.PeekLstat("/f")
			var lres, tres *nfsx.Res
			what := ""
			switch op.Kind {
			case "write":
				ln := op.Len
				if uint64(ln) > end {
					ln = int(end)
				}
				off := end - uint64(ln)
				data := make([]byte, ln)
				for j := range data {
					data[j] = byte(i*31+j) | 1
				}
				what = fmt.Sprintf("op#%d WRITE offset=%d len=%d (end %d, limit %d)", i, off, ln, end, c.M)
				lres = lim.nfs(nfsx.ProcWrite, nfsx.ArgsWrite(lfh, off, uint32(ln), nfsx.FileSync, data))
				exceeds := int64(end) > c.M && ln > 0
				if !exceeds {
					tres = twin.nfs(nfsx.ProcWrite, nfsx.ArgsWrite(tfh, off, uint32(ln), nfsx.FileSync, data))
				}
				if int64(end) >= c.M-1 && int64(end) <= c.M+1 {
					nt = true
				}
				if exceeds {
					if lres.Status != nfsx.ErrFBig {
						if stat.Violate(tb, id, check, "oversize-write-not-FBIG", c, "%s replied %s, want NFS3ERR_FBIG", what, statusName(lres.Status)) {
							return
						}
					}
				}
			case "setsize":
				what = fmt.Sprintf("op#%d SETATTR size=%d (limit %d)", i, end, c.M)
				lres = lim.nfs(nfsx.ProcSetattr, nfsx.ArgsSetattr(lfh, nfsx.Sattr{Size: nfsx.U64p(end)}, nil))
				exceeds := int64(end) > c.M
				if !exceeds {
					tres = twin.nfs(nfsx.ProcSetattr, nfsx.ArgsSetattr(tfh, nfsx.Sattr{Size: nfsx.U64p(end)}, nil))
				}
				if int64(end) >= c.M-1 && int64(end) <= c.M+1 {
					nt = true
				}
				if exceeds && lres.Status != nfsx.ErrFBig {
					if stat.Violate(tb, id, check, "oversize-setattr-not-FBIG", c, "%s replied %s, want NFS3ERR_FBIG", what, statusName(lres.Status)) {
						return
					}
				}
			}
			post, _ := lv.PeekLstat("/f")
			if post.Size > c.M {
				if stat.Violate(tb, id, check, "file-exceeds-max-file-size", c, "%s (%s): the file is now %d bytes, MaxFileSize is %d", what, statusName(lres.Status), post.Size, c.M) {
					return
				}
			}
			if tres == nil {
				// refused request: nothing may have changed
				if lres.Status != nfsx.OK && (post.Size != pre.Size || lv.Snapshot()["/f"].Hash != hashOf(lv, pre)) {
					_ = pre
				}
				if lres.Status != nfsx.OK && post.Size != pre.Size {
					if stat.Violate(tb, id, check, "refused-request-changes-file", c, "%s was refused but the size went from %d to %d", what, pre.Size, post.Size) {
						return
					}
				}
				continue
			}
			// within the limit: identical behaviour to the unlimited twin
			if lres.Status != tres.Status || lres.Count != tres.Count {
				if stat.Violate(tb, id, check, "within-limit-request-behaves-differently", c, "%s: limited server replied %s count=%d, unlimited twin %s count=%d", what, statusName(lres.Status), lres.Count, statusName(tres.Status), tres.Count) {
					return
				}
			}
			ls, ts := lv.Snapshot()["/f"], tv.Snapshot()["/f"]
			if ls.Size != ts.Size || ls.Hash != ts.Hash {
				if stat.Violate(tb, id, check, "within-limit-request-behaves-differently", c, "%s: file is %d bytes (hash %x) on the limited server, %d bytes (hash %x) on the twin", what, ls.Size, ls.Hash, ts.Size, ts.Hash) {
					return
				}
			}
		}
	})
	if abandoned {
		return
	}
	var ls []string
	if c.Runtime {
		ls = append(ls, "limit_set_at_runtime")
	}
	stat.Case(c, nt, ls...)
}

func hashOf(v *vfs.FS, e vfs.Entry) uint64 { return e.Hash }

var propC25 = defProp("C25", "TestC25", genC25, runC25)

func TestC25(t *testing.T) { propC25.Test(t) }
