package checks

// C01 File data read back through the server equals the data written.
//
// Generator: histories of CREATE / WRITE / READ / SETATTR(size) / GETATTR on up
// to three regular files with adversarial offsets and counts, under several
// attribute-cache settings and transfer sizes.
// Oracle: a log-replay byte model (independent of vfs' page map); after every
// mutating reply the backend bytes are compared with the model too.

import (
	"bytes"
	"fmt"
	"math"
	"testing"

	"github.com/absfs/absnfs"
	"pgregory.net/rapid"

	"verif/harness/nfsx"
	"verif/harness/stat"
	"verif/harness/vfs"
)

type c01Op struct {
	Kind   string `json:"kind"` // create write read setsize getattr
	File   int    `json:"file"`
	How    uint32 `json:"how,omitempty"`    // createmode
	OffSel string `json:"offsel,omitempty"` // abs eof inside
	OffArg int64  `json:"offarg,omitempty"`
	AbsOff uint64 `json:"absoff,omitempty"`
	Count  uint32 `json:"count,omitempty"`
	Len    int    `json:"len,omitempty"`  // write payload length
	Fill   byte   `json:"fill,omitempty"` // write payload pattern seed
	Stable uint32 `json:"stable,omitempty"`
	Guard  string `json:"guard,omitempty"` // setsize: "" no sattrguard3, "match" the current ctime, "stale" another ctime
	Data   []byte `json:"-"`
}

type c01Case struct {
	Transfer int      `json:"transfer"`
	Cache    cacheCfg `json:"cache"`
	Ops      []c01Op  `json:"ops"`
}

// byteModel replays a log of writes and truncations.
type c01Ev struct {
	trunc bool
	off   int64
	data  []byte
	size  int64 // for trunc
}
type byteModel struct {
	exists bool
	size   int64
	log    []c01Ev
}

func (m *byteModel) write(off int64, data []byte) {
	if len(data) == 0 {
		return
	}
	m.log = append(m.log, c01Ev{off: off, data: append([]byte(nil), data...)})
	if off+int64(len(data)) > m.size {
		m.size = off + int64(len(data))
	}
}
func (m *byteModel) truncate(sz int64) {
	m.log = append(m.log, c01Ev{trunc: true, size: sz})
	m.size = sz
}

// read returns the model bytes of [off, off+n) clipped to the size.
func (m *byteModel) read(off int64, n int64) []byte {
	if off >= m.size || n <= 0 {
		return []byte{}
	}
	if off+n > m.size || off+n < 0 {
		n = m.size - off
	}
	buf := make([]byte, n)
	for _, ev := range m.log {
		if ev.trunc {
			// bytes at positions >= ev.size become zero
			from := ev.size - off
			if from < 0 {
				from = 0
			}
			for i := from; i < n; i++ {
				buf[i] = 0
			}
			continue
		}
		lo, hi := ev.off, ev.off+int64(len(ev.data))
		a, b := lo, hi
		if a < off {
			a = off
		}
		if b > off+n {
			b = off + n
		}
		if a < b {
			copy(buf[a-off:b-off], ev.data[a-lo:b-lo])
		}
	}
	return buf
}

var c01HugeOffsets = []uint64{1<<31 - 1, 1 << 31, 1<<32 - 1, 1 << 32, 1<<32 + 1, 1 << 40, 1 << 62, math.MaxInt64 - 70000, math.MaxInt64 - 5, math.MaxInt64 - 1,
	math.MaxInt64, 1 << 63, 1<<63 + 1, math.MaxUint64 - 5, math.MaxUint64}

func genC01(t *rapid.T) c01Case {
	c := c01Case{
		Transfer: pick(t, "transfer", 7, 512, 65536),
		Cache:    cacheCfg{AttrTTLns: pick(t, "ttl", int64(1), int64(3600e9)), AttrSize: pick(t, "asize", 1, 10000), Conn: rapid.IntRange(0, 3).Draw(t, "conn") == 0, Verbose: rapid.IntRange(0, 5).Draw(t, "verbose") == 0, Limits: rapid.IntRange(0, 5).Draw(t, "limits") == 0},
	}
	maxOps := 25
	if thorough() {
		maxOps = 40
	}
	n := rapid.IntRange(2, maxOps).Draw(t, "nops")
	c.Ops = append(c.Ops, c01Op{Kind: "create", File: 0, How: nfsx.Unchecked})
	for i := 0; i < n; i++ {
		op := c01Op{File: rapid.IntRange(0, 2).Draw(t, "file")}
		if rapid.IntRange(0, 9).Draw(t, "file0bias") < 6 {
			op.File = 0
		}
		op.Kind = pick(t, "kind", "write", "write", "write", "write", "read", "read", "read", "read", "setsize", "create", "getattr", "roundtrip")
		switch op.Kind {
		case "create":
			op.How = pick(t, "how", uint32(nfsx.Unchecked), uint32(nfsx.Unchecked), uint32(nfsx.Guarded))
			if rapid.IntRange(0, 2).Draw(t, "createsize") == 0 {
				// CREATE with an explicit size in sattr3 (Len = size + 1; 0 = no size)
				op.Len = 1 + pick(t, "csize", 0, 1, 3, c.Transfer, 5000)
			}
		case "write", "read", "setsize":
			op.OffSel = pick(t, "offsel", "abs", "eof", "eof", "inside", "inside", "small", "small", "huge")
			switch op.OffSel {
			case "abs":
				op.AbsOff = rapid.Uint64().Draw(t, "absoff")
			case "huge":
				op.OffSel = "abs"
				op.AbsOff = pick(t, "hugeoff", c01HugeOffsets...)
			case "small":
				op.OffSel = "abs"
				op.AbsOff = uint64(rapid.IntRange(0, 3*c.Transfer+20).Draw(t, "smalloff"))
			case "eof":
				op.OffArg = int64(rapid.IntRange(-3, 9).Draw(t, "eofdelta"))
			case "inside":
				op.OffArg = int64(rapid.IntRange(0, 1000).Draw(t, "permille"))
			}
			if op.Kind == "read" {
				op.Count = pick(t, "count", uint32(0), 1, 2, 7, 8, uint32(c.Transfer-1), uint32(c.Transfer), uint32(c.Transfer+1), uint32(3*c.Transfer), 1<<20, math.MaxUint32,
					uint32(rapid.IntRange(0, 2*c.Transfer+5).Draw(t, "rcount")))
			}
			if op.Kind == "write" {
				ln := pick(t, "wlenclass", 0, 1, 3, 4, 5, c.Transfer-1, c.Transfer, c.Transfer+1, rapid.IntRange(0, c.Transfer+2).Draw(t, "wlen"))
				if c.Transfer <= 512 && rapid.IntRange(0, 9).Draw(t, "big") == 0 {
					ln = 3 * c.Transfer
				}
				if ln < 0 {
					ln = 0
				}
				op.Fill = rapid.Byte().Draw(t, "fill")
				op.Len = ln
				op.Stable = pick(t, "stable", uint32(0), 1, 2)
			}
			if op.Kind == "setsize" {
				op.Guard = pick(t, "guard", "", "", "", "match", "stale")
			}
		}
		c.Ops = append(c.Ops, op)
	}
	return c
}

// payload is the deterministic write payload of an op (never a zero byte, so stray bytes are visible).
func (op c01Op) payload() []byte {
	b := make([]byte, op.Len)
	for j := range b {
		b[j] = (op.Fill + byte(j*7)) | 1
	}
	return b
}

func c01Name(i int) string { return fmt.Sprintf("f%d", i) }

func runC01(tb stat.TB, c c01Case) {
	const id, check = "C01", "TestC01"
	v := vfs.New()
	opts := absnfs.ExportOptions{TransferSize: c.Transfer}
	c.Cache.apply(&opts)
	s := newSession(tb, v, opts)
	defer s.close()
	s.e.ViaConn = c.Cache.Conn

	var models [3]byteModel
	var fhs [3][]byte
	mutations := [3]int{}
	var sawOverlap, sawHole, sawShrink, sawShrinkExtend, ntRead bool
	var shrunk [3]bool
	labels := map[string]bool{}

	abandoned := guard(func() {
		root := s.mount()
		resolveOff := func(op c01Op, m *byteModel) uint64 {
			switch op.OffSel {
			case "eof":
				o := m.size + op.OffArg
				if o < 0 {
					o = 0
				}
				return uint64(o)
			case "inside":
				return uint64(m.size * op.OffArg / 1000)
			}
			return op.AbsOff
		}
		// compareBackend checks the backend file against the model around every logged extent.
		compareBackend := func(i int, after string) bool {
			m := &models[i]
			name := "/" + c01Name(i)
			ent, ok := v.PeekLstat(name)
			if !ok {
				if m.exists {
					return stat.Violate(tb, id, check, "backend-file-missing", c, "after %s: %s missing in backend but model has it", after, name)
				}
				return false
			}
			if !m.exists {
				return false
			}
			if ent.Size != m.size {
				return stat.Violate(tb, id, check, "backend-size-differs", c, "after %s: backend size of %s = %d, model %d", after, name, ent.Size, m.size)
			}
			covered := map[int64]bool{}
			for _, ev := range m.log {
				if ev.trunc {
					continue
				}
				lo := ev.off &^ 4095
				hi := (ev.off + int64(len(ev.data)) + 4095) &^ 4095
				if hi < 0 {
					hi = math.MaxInt64
				}
				for p := lo; p < hi && p >= 0; p += 4096 {
					covered[p/4096] = true
				}
				want := m.read(lo, hi-lo)
				got, _, _ := v.PeekRead(name, lo, int(hi-lo))
				if !bytes.Equal(got, want) {
					return stat.Violate(tb, id, check, "backend-bytes-differ", c, "after %s: backend bytes of %s in [%d,%d) differ from the model", after, name, lo, hi)
				}
			}
			for _, p := range v.NonZeroPages(name) {
				if !covered[p] {
					return stat.Violate(tb, id, check, "backend-stray-bytes", c, "after %s: backend %s has non-zero data in page %d that no acknowledged write put there", after, name, p)
				}
			}
			return false
		}

		for oi, op := range c.Ops {
			m := &models[op.File]
			name := c01Name(op.File)
			what := fmt.Sprintf("op#%d %s %s", oi, op.Kind, name)
			switch op.Kind {
			case "create":
				existed := m.exists
				var csa nfsx.Sattr
				if op.Len > 0 {
					csa.Size = nfsx.U64p(uint64(op.Len - 1))
				}
				res := s.nfs(nfsx.ProcCreate, nfsx.ArgsCreate(root, name, op.How, csa, [8]byte{}))
				if op.Len > 0 {
					// an explicit size may be honoured or not; what the file is afterwards must be the old bytes cut or
					// zero-extended to one of the two sizes, and only an UNCHECKED create that replied OK may change anything
					if ent, ok := v.PeekLstat("/" + name); ok {
						switch {
						case !existed && res.Status == nfsx.OK:
							m.exists, m.size, m.log = true, 0, nil
							if ent.Size == int64(op.Len-1) && ent.Size != 0 {
								m.truncate(ent.Size)
							}
						case existed && res.Status == nfsx.OK && op.How == nfsx.Unchecked && ent.Size == int64(op.Len-1) && ent.Size != m.size:
							if ent.Size < m.size {
								sawShrink = true
								shrunk[op.File] = true
							}
							m.truncate(ent.Size)
							mutations[op.File]++
							labels["create_with_size_resizes_existing"] = true
						}
					}
				} else if res.Status == nfsx.OK && !existed {
					m.exists = true
					m.size = 0
					m.log = nil
				}
				if res.Status == nfsx.OK {
					if existed {
						labels["create_on_existing"] = true
					}
					if res.Fh != nil {
						fhs[op.File] = res.Fh
					}
				}
				if fhs[op.File] == nil && m.exists {
					lr := s.nfs(nfsx.ProcLookup, nfsx.ArgsDirop(root, name))
					if lr.Status == nfsx.OK {
						fhs[op.File] = lr.Fh
					}
				}
				if existed && op.Len == 0 {
					// whatever the status, an existing file's bytes must be unchanged (no size given)
					if ent, ok := v.PeekLstat("/" + name); ok && ent.Size != m.size {
						if stat.Violate(tb, id, check, "create-truncates-existing", c, "%s (createmode %d) on an existing file of %d bytes replied %s and left %d bytes",
							what, op.How, m.size, statusName(res.Status), ent.Size) {
							return
						}
					}
				}
				if compareBackend(op.File, what) {
					return
				}
			case "write":
				if !m.exists || fhs[op.File] == nil {
					labels["skipped_nofile"] = true
					continue
				}
				off := resolveOff(op, m)
				op.Data = op.payload()
				res := s.nfs(nfsx.ProcWrite, nfsx.ArgsWrite(fhs[op.File], off, uint32(len(op.Data)), op.Stable, op.Data))
				representable := off <= math.MaxInt64 && off+uint64(len(op.Data)) <= math.MaxInt64
				if res.Status == nfsx.OK {
					if !representable && len(op.Data) > 0 {
						if stat.Violate(tb, id, check, "write-ok-unrepresentable-offset", c, "%s at offset %d len %d replied OK", what, off, len(op.Data)) {
							return
						}
					}
					if int(res.Count) > len(op.Data) {
						if stat.Violate(tb, id, check, "write-count-exceeds-payload", c, "%s: count %d > payload %d", what, res.Count, len(op.Data)) {
							return
						}
					}
					o := int64(off)
					if res.Count > 0 {
						if o < m.size && o+int64(res.Count) > 0 {
							for _, ev := range m.log {
								if !ev.trunc && ev.off < o+int64(res.Count) && o < ev.off+int64(len(ev.data)) {
									sawOverlap = true
								}
							}
						}
						if o > m.size {
							sawHole = true
						}
						if shrunk[op.File] && o+int64(res.Count) > m.size {
							sawShrinkExtend = true
						}
						m.write(o, op.Data[:res.Count])
						mutations[op.File]++
					}
					if int(res.Count) < len(op.Data) {
						labels["short_write"] = true
					}
				} else {
					labels["write_refused"] = true
					if len(op.Data) > c.Transfer {
						labels["write_above_transfer"] = true
					}
				}
				if compareBackend(op.File, what) {
					return
				}
			case "setsize":
				if !m.exists || fhs[op.File] == nil {
					labels["skipped_nofile"] = true
					continue
				}
				sz := resolveOff(op, m)
				var guardT *nfsx.Time
				if op.Guard != "" {
					if ga := s.nfs(nfsx.ProcGetattr, nfsx.ArgsFh(fhs[op.File])); ga.Status == nfsx.OK && ga.Attr != nil {
						g := ga.Attr.Ctime
						if op.Guard == "stale" {
							g.Sec += 7
						}
						guardT = &g
					}
				}
				res := s.nfs(nfsx.ProcSetattr, nfsx.ArgsSetattr(fhs[op.File], nfsx.Sattr{Size: nfsx.U64p(sz)}, guardT))
				if guardT != nil {
					labels["setsize_guard_"+op.Guard+"_"+statusName(res.Status)] = true
				}
				if res.Status == nfsx.OK {
					if sz > math.MaxInt64 {
						if stat.Violate(tb, id, check, "setattr-size-overflow-ok", c, "%s size %d replied OK", what, sz) {
							return
						}
					}
					if int64(sz) < m.size {
						sawShrink = true
						shrunk[op.File] = true
					} else if int64(sz) > m.size {
						sawHole = true
						if shrunk[op.File] {
							sawShrinkExtend = true
						}
					}
					m.truncate(int64(sz))
					mutations[op.File]++
				}
				if compareBackend(op.File, what) {
					return
				}
			case "getattr":
				if fhs[op.File] == nil {
					continue
				}
				s.nfs(nfsx.ProcGetattr, nfsx.ArgsFh(fhs[op.File]))
			case "roundtrip":
				// UpdateExportOptions(GetExportOptions()) changes nothing: same transfer size, same data afterwards
				if err := s.e.NFS.UpdateExportOptions(s.e.NFS.GetExportOptions()); err != nil {
					tb.Fatalf("harness: UpdateExportOptions(GetExportOptions()): %v", err)
				}
				labels["options_round_trip"] = true
			case "read":
				if !m.exists || fhs[op.File] == nil {
					labels["skipped_nofile"] = true
					continue
				}
				off := resolveOff(op, m)
				res := s.nfs(nfsx.ProcRead, nfsx.ArgsRead(fhs[op.File], off, op.Count))
				if off > math.MaxInt64 {
					labels["read_unrepresentable"] = true
					if res.Status == nfsx.OK && len(res.Data) > 0 {
						if stat.Violate(tb, id, check, "read-data-at-unrepresentable-offset", c, "%s offset %d returned %d bytes", what, off, len(res.Data)) {
							return
						}
					}
					continue
				}
				overflow := off+uint64(op.Count) > math.MaxInt64
				if res.Status != nfsx.OK {
					if overflow {
						continue
					}
					if stat.Violate(tb, id, check, "read-fails", c, "%s offset=%d count=%d on a %d-byte file replied %s", what, off, op.Count, m.size, statusName(res.Status)) {
						return
					}
					continue
				}
				wantN := int64(op.Count)
				if wantN > int64(c.Transfer) {
					wantN = int64(c.Transfer)
				}
				rem := m.size - int64(off)
				if rem < 0 {
					rem = 0
				}
				if wantN > rem {
					wantN = rem
				}
				if int64(res.Count) != wantN {
					if stat.Violate(tb, id, check, "read-count-wrong", c, "%s offset=%d count=%d transfer=%d size=%d: returned count %d, want min(requested, transfer, size-offset)=%d",
						what, off, op.Count, c.Transfer, m.size, res.Count, wantN) {
						return
					}
					continue
				}
				want := m.read(int64(off), wantN)
				if !bytes.Equal(res.Data, want) {
					if stat.Violate(tb, id, check, "read-data-wrong", c, "%s offset=%d count=%d: data differs from the byte-array model (first diff at %d)", what, off, op.Count, firstDiff(res.Data, want)) {
						return
					}
					continue
				}
				wantEOF := int64(off)+wantN >= m.size
				if res.EOF != wantEOF {
					if stat.Violate(tb, id, check, "read-eof-wrong", c, "%s offset=%d returned=%d size=%d: eof=%v want %v", what, off, wantN, m.size, res.EOF, wantEOF) {
						return
					}
					continue
				}
				if mutations[op.File] >= 2 && (sawOverlap || sawHole || sawShrinkExtend) {
					ntRead = true
				}
				_ = sawShrink
			}
		}
	})
	if abandoned {
		return
	}
	var ls []string
	for l := range labels {
		ls = append(ls, l)
	}
	if sawOverlap {
		ls = append(ls, "overlap")
	}
	if sawHole {
		ls = append(ls, "hole")
	}
	if sawShrinkExtend {
		ls = append(ls, "shrink_then_extend")
	}
	if c.Cache.anyOn() {
		ls = append(ls, "attr_cache_long_ttl")
	}
	stat.Case(c, ntRead, ls...)
}

func firstDiff(a, b []byte) int {
	n := len(a)
	if len(b) < n {
		n = len(b)
	}
	for i := 0; i < n; i++ {
		if a[i] != b[i] {
			return i
		}
	}
	return n
}

var propC01 = defProp("C01", "TestC01", genC01, runC01)

func TestC01(t *testing.T) { propC01.Test(t) }
