package checks

// C29 Concurrent requests are race-free and linearizable.
//
// 2-4 client goroutines issue small request lists on distinct names inside a
// shared directory and through shared handles while the backend injects yields
// and microsecond sleeps; the binary is built with -race. Oracle: no race
// report / panic / hang; with minimal TTL the timestamped history must be
// linearizable with respect to a sequential tree+file model (porcupine); with
// caches on a reply must equal a state the object has been in; afterwards the
// server's view (fresh lookups, listings, reads) must agree with the backend.

import (
	"bytes"
	"fmt"
	"runtime"
	"sort"
	"strings"
	"sync"
	"sync/atomic"
	"testing"
	"time"

	"github.com/anishathalye/porcupine"
	"pgregory.net/rapid"

	"verif/harness/drv"
	"verif/harness/nfsx"
	"verif/harness/stat"
	"verif/harness/vfs"
)

type lzIn struct {
	Client int    `json:"client"`
	Op     string `json:"op"` // lookup create mkdir remove rename write read getattr setsize readdir; on shared objects (replies not judged): touchdir shwrite shsetsize shread shgetattr shtouch
	Name   string `json:"name,omitempty"`
	Name2  string `json:"name2,omitempty"`
	Off    int    `json:"off,omitempty"`
	Len    int    `json:"len,omitempty"`
	Fill   byte   `json:"fill,omitempty"`
}

type lzOut struct {
	OK    bool
	Kind  byte
	Size  int
	Data  []byte
	Names []string
	Stat  uint32
}

type c29Case struct {
	Cached  bool     `json:"cached"`
	Jitter  uint32   `json:"jitter"`
	Clients [][]lzIn `json:"clients"`
}

func genC29(t *rapid.T) c29Case {
	c := c29Case{Cached: rapid.Bool().Draw(t, "cached"), Jitter: rapid.Uint32().Draw(t, "jitter")}
	nc := rapid.IntRange(2, 4).Draw(t, "nclients")
	for ci := 0; ci < nc; ci++ {
		var ops []lzIn
		n := rapid.IntRange(3, 6).Draw(t, "nops")
		names := []string{fmt.Sprintf("c%da", ci), fmt.Sprintf("c%db", ci)}
		for i := 0; i < n; i++ {
			op := lzIn{Client: ci, Op: pick(t, "op", "create", "create", "write", "write", "read", "getattr", "setsize", "remove", "mkdir", "rename", "lookup", "readdir", "pagedir", "pagedir", "touchdir", "touchdir", "shwrite", "shsetsize", "shread", "shgetattr", "shtouch", "shlookup", "shlookup"),
				Name: rapid.SampledFrom(names).Draw(t, "name")}
			switch op.Op {
			case "rename":
				op.Name2 = rapid.SampledFrom(names).Draw(t, "name2")
			case "write", "shwrite":
				op.Off, op.Len, op.Fill = rapid.IntRange(0, 12).Draw(t, "off"), rapid.IntRange(1, 8).Draw(t, "len"), rapid.Byte().Draw(t, "fill")
			case "read", "shread":
				op.Off, op.Len = rapid.IntRange(0, 12).Draw(t, "off"), rapid.IntRange(1, 24).Draw(t, "len")
			case "setsize", "shsetsize":
				op.Len = rapid.IntRange(0, 16).Draw(t, "size")
			}
			if op.Op == "shlookup" {
				// LOOKUP of a name nobody has looked up before and nobody changes: first allocations of one path race
				op.Name = pick(t, "fresh", "fresh0", "fresh1", "fresh2")
			} else if strings.HasPrefix(op.Op, "sh") || op.Op == "touchdir" {
				op.Name = ""
			}
			ops = append(ops, op)
		}
		c.Clients = append(c.Clients, ops)
	}
	return c
}

const c29BurstNames = 12

type lzEnt struct {
	kind byte
	data string
}

type lzState map[string]lzEnt

func (s lzState) clone() lzState {
	n := make(lzState, len(s))
	for k, v := range s {
		n[k] = v
	}
	return n
}

func (s lzState) key() string {
	ks := make([]string, 0, len(s))
	for k := range s {
		ks = append(ks, k)
	}
	sort.Strings(ks)
	var b strings.Builder
	for _, k := range ks {
		fmt.Fprintf(&b, "%s=%c:%x;", k, s[k].kind, s[k].data)
	}
	return b.String()
}

func payload(in lzIn) []byte {
	b := make([]byte, in.Len)
	for i := range b {
		b[i] = (in.Fill + byte(i)) | 1
	}
	return b
}

// lzStep is the sequential specification (path-bound handles, POSIX-like namespace).
func lzStep(st lzState, in lzIn, out lzOut) (bool, lzState) {
	e, exists := st[in.Name]
	switch in.Op {
	case "lookup":
		if exists {
			return out.OK && out.Kind == e.kind, st
		}
		return !out.OK, st
	case "getattr":
		if !exists {
			return !out.OK, st
		}
		if !out.OK || out.Kind != e.kind {
			return false, st
		}
		return e.kind != 'f' || out.Size == len(e.data), st
	case "create":
		if !exists {
			if !out.OK {
				return false, st
			}
			n := st.clone()
			n[in.Name] = lzEnt{kind: 'f'}
			return true, n
		}
		if e.kind == 'f' {
			return out.OK, st
		}
		return !out.OK, st
	case "mkdir":
		if exists {
			return !out.OK, st
		}
		if !out.OK {
			return false, st
		}
		n := st.clone()
		n[in.Name] = lzEnt{kind: 'd'}
		return true, n
	case "remove":
		if !exists {
			return !out.OK, st
		}
		if e.kind == 'd' && !out.OK {
			return true, st // REMOVE of an empty directory may be refused
		}
		if !out.OK {
			return false, st
		}
		n := st.clone()
		delete(n, in.Name)
		return true, n
	case "rename":
		if !exists {
			return !out.OK, st
		}
		if in.Name == in.Name2 {
			return out.OK, st
		}
		d, dExists := st[in.Name2]
		if dExists && d.kind != e.kind {
			return !out.OK, st
		}
		if !out.OK {
			return false, st
		}
		n := st.clone()
		delete(n, in.Name)
		n[in.Name2] = e
		return true, n
	case "write":
		if !exists || e.kind != 'f' {
			return !out.OK, st
		}
		if !out.OK {
			return false, st
		}
		b := []byte(e.data)
		p := payload(in)
		for len(b) < in.Off+len(p) {
			b = append(b, 0)
		}
		copy(b[in.Off:], p)
		n := st.clone()
		n[in.Name] = lzEnt{kind: 'f', data: string(b)}
		return true, n
	case "setsize":
		if !exists || e.kind != 'f' {
			return !out.OK, st
		}
		if !out.OK {
			return false, st
		}
		b := []byte(e.data)
		for len(b) < in.Len {
			b = append(b, 0)
		}
		n := st.clone()
		n[in.Name] = lzEnt{kind: 'f', data: string(b[:in.Len])}
		return true, n
	case "read":
		if !exists || e.kind != 'f' {
			return !out.OK, st
		}
		if !out.OK {
			return false, st
		}
		want := []byte{}
		if in.Off < len(e.data) {
			end := in.Off + in.Len
			if end > len(e.data) {
				end = len(e.data)
			}
			want = []byte(e.data[in.Off:end])
		}
		return bytes.Equal(out.Data, want), st
	case "readdir":
		// Only the caller's own names are judged: they are touched by no other
		// client, so the listing must show exactly those of them that exist. Names
		// another client is creating, removing or renaming while the listing is
		// assembled are outside the statement's "requests touch distinct names".
		if !out.OK {
			return false, st
		}
		pre := fmt.Sprintf("c%d", in.Client)
		var ks, got []string
		for k := range st {
			if strings.HasPrefix(k, pre) {
				ks = append(ks, k)
			}
		}
		for _, k := range out.Names {
			if strings.HasPrefix(k, pre) {
				got = append(got, k)
			}
		}
		sort.Strings(ks)
		sort.Strings(got)
		return strings.Join(ks, ",") == strings.Join(got, ","), st
	}
	return false, st
}

var lzModel = porcupine.Model{
	Init: func() interface{} { return lzState{} },
	Step: func(state, input, output interface{}) (bool, interface{}) {
		return lzStep(state.(lzState), input.(lzIn), output.(lzOut))
	},
	Equal: func(a, b interface{}) bool { return a.(lzState).key() == b.(lzState).key() },
	DescribeOperation: func(input, output interface{}) string {
		in, out := input.(lzIn), output.(lzOut)
		return fmt.Sprintf("c%d %s %s %s -> ok=%v kind=%c size=%d data=%x names=%v (%s)", in.Client, in.Op, in.Name, in.Name2, out.OK, out.Kind, out.Size, out.Data, out.Names, statusName(out.Stat))
	},
}

func runC29(tb stat.TB, c c29Case) {
	const id, check = "C29", "TestC29"
	v := vfs.New()
	v.SeedDir("/s", 0755, 0, 0)
	v.SeedFile("/s/shared", 0644, 0, 0, []byte("shared file"))
	for _, n := range []string{"fresh0", "fresh1", "fresh2"} {
		v.SeedFile("/s/"+n, 0644, 0, 0, []byte(n))
	}
	for k := 0; k < c29BurstNames; k++ {
		v.SeedFile(fmt.Sprintf("/s/burst%d", k), 0644, 0, 0, []byte("b"))
	}
	for x := 0; x < 16; x++ {
		v.SeedFile(fmt.Sprintf("/s/x%02d", x), 0644, 0, 0, []byte("x"))
	}
	cfg := cacheCfg{AttrTTLns: 1, AttrSize: 1}
	if c.Cached {
		cfg = cacheCfg{AttrTTLns: 3600e9, AttrSize: 10000, DirCache: true, Negative: true}
	}
	opts := newOpts(cfg)
	opts.MaxWorkers = 4
	opts.Timeouts = drv.FastTimeouts(8 * time.Second)
	s := newSession(tb, v, opts)
	leak := false
	defer func() {
		if !leak { // after a confirmed hang Close could block on the same locks
			s.close()
		}
	}()
	s.tolerateMalformed = true
	root := s.mount()
	dr := s.nfs(nfsx.ProcLookup, nfsx.ArgsDirop(root, "s"))
	if dr.Status != nfsx.OK {
		tb.Fatalf("harness: lookup /s")
	}
	dir := dr.Fh
	shr := s.nfs(nfsx.ProcLookup, nfsx.ArgsDirop(dir, "shared"))
	if shr.Status != nfsx.OK {
		tb.Fatalf("harness: lookup /s/shared")
	}
	shared := shr.Fh
	var timedOut int32
	issued := map[string]map[string]bool{} // never-changing shared name -> handle values LOOKUP returned for it

	// ---- burst phase: all clients look the same never-seen name up at the same moment (released from a
	// barrier), for several names: first allocations of one path race with each other
	for k := 0; k < c29BurstNames; k++ {
		name := fmt.Sprintf("burst%d", k)
		start := make(chan struct{})
		var bw sync.WaitGroup
		var bmu sync.Mutex
		for g := 0; g < 2*len(c.Clients); g++ {
			bw.Add(1)
			go func() {
				defer bw.Done()
				defer func() {
					if r := recover(); r != nil {
						if _, ok := r.(abandon); !ok {
							panic(r)
						}
					}
				}()
				<-start
				r := s.nfs(nfsx.ProcLookup, nfsx.ArgsDirop(dir, name))
				if r.Status == nfsx.OK {
					bmu.Lock()
					if issued[name] == nil {
						issued[name] = map[string]bool{}
					}
					issued[name][fmt.Sprintf("%x", r.Fh)] = true
					bmu.Unlock()
				}
			}()
		}
		close(start)
		bw.Wait()
	}

	// extras in the shared directory that only the paged listings remove (names sorting after everything else)
	extrasLeft := int32(16)
	// jitter inside the backend
	var lcg uint32 = c.Jitter | 1
	v.SetBefore(func(*vfs.Call) {
		x := atomic.AddUint32(&lcg, 0x9E3779B9)
		x ^= x >> 15
		switch x % 7 {
		case 0, 1:
			runtime.Gosched()
		case 2:
			time.Sleep(time.Duration(x%40) * time.Microsecond)
		}
	})
	var clock int64
	var mu sync.Mutex
	var history []porcupine.Operation
	overlapping := false
	inflight := int32(0)
	var wg sync.WaitGroup
	for ci, ops := range c.Clients {
		wg.Add(1)
		go func(ci int, ops []lzIn) {
			defer wg.Done()
			handles := map[string][]byte{}
			for _, in := range ops {
				fh := handles[in.Name]
				judged := true
				if strings.HasPrefix(in.Op, "sh") || in.Op == "touchdir" || in.Op == "pagedir" {
					judged = false
				}
				if fh == nil && (in.Op == "write" || in.Op == "read" || in.Op == "getattr" || in.Op == "setsize") {
					continue // the client has no handle for that name yet
				}
				if atomic.AddInt32(&inflight, 1) > 1 {
					mu.Lock()
					overlapping = true
					mu.Unlock()
				}
				call := atomic.AddInt64(&clock, 1)
				var res *nfsx.Res
				var out lzOut
				func() {
					defer func() {
						if r := recover(); r != nil {
							if a, ok := r.(abandon); ok {
								if strings.Contains(a.why, "timed out") {
									atomic.AddInt32(&timedOut, 1)
								}
								res = nil
								return
							}
							panic(r)
						}
					}()
					switch in.Op {
					case "lookup":
						res = s.nfs(nfsx.ProcLookup, nfsx.ArgsDirop(dir, in.Name))
						if res.Status == nfsx.OK {
							handles[in.Name] = res.Fh
							if res.Attr != nil {
								out.Kind = kindOfType(res.Attr.Type)
							}
						}
					case "create":
						res = s.nfs(nfsx.ProcCreate, nfsx.ArgsCreate(dir, in.Name, nfsx.Unchecked, nfsx.Sattr{}, [8]byte{}))
						if res.Status == nfsx.OK && res.Fh != nil {
							handles[in.Name] = res.Fh
						}
					case "mkdir":
						res = s.nfs(nfsx.ProcMkdir, nfsx.ArgsMkdir(dir, in.Name, nfsx.Sattr{}))
						if res.Status == nfsx.OK && res.Fh != nil {
							handles[in.Name] = res.Fh
						}
					case "remove":
						res = s.nfs(nfsx.ProcRemove, nfsx.ArgsDirop(dir, in.Name))
					case "rename":
						res = s.nfs(nfsx.ProcRename, nfsx.ArgsRename(dir, in.Name, dir, in.Name2))
					case "write":
						p := payload(in)
						res = s.nfs(nfsx.ProcWrite, nfsx.ArgsWrite(fh, uint64(in.Off), uint32(len(p)), nfsx.FileSync, p))
					case "setsize":
						res = s.nfs(nfsx.ProcSetattr, nfsx.ArgsSetattr(fh, nfsx.Sattr{Size: nfsx.U64p(uint64(in.Len))}, nil))
					case "read":
						res = s.nfs(nfsx.ProcRead, nfsx.ArgsRead(fh, uint64(in.Off), uint32(in.Len)))
						if res.Status == nfsx.OK {
							out.Data = res.Data
						}
					case "getattr":
						res = s.nfs(nfsx.ProcGetattr, nfsx.ArgsFh(fh))
						if res.Status == nfsx.OK {
							out.Kind, out.Size = kindOfType(res.Attr.Type), int(res.Attr.Size)
						}
					case "touchdir":
						res = s.nfs(nfsx.ProcSetattr, nfsx.ArgsSetattr(dir, nfsx.Sattr{Mtime: nfsx.SetTime{How: 1}}, nil))
					case "shtouch":
						res = s.nfs(nfsx.ProcSetattr, nfsx.ArgsSetattr(shared, nfsx.Sattr{Mtime: nfsx.SetTime{How: 1}, Mode: nfsx.U32p(0640 + uint32(in.Client))}, nil))
					case "shwrite":
						p := payload(in)
						res = s.nfs(nfsx.ProcWrite, nfsx.ArgsWrite(shared, uint64(in.Off), uint32(len(p)), nfsx.FileSync, p))
					case "shsetsize":
						res = s.nfs(nfsx.ProcSetattr, nfsx.ArgsSetattr(shared, nfsx.Sattr{Size: nfsx.U64p(uint64(in.Len))}, nil))
					case "shread":
						res = s.nfs(nfsx.ProcRead, nfsx.ArgsRead(shared, uint64(in.Off), uint32(in.Len)))
					case "shgetattr":
						res = s.nfs(nfsx.ProcGetattr, nfsx.ArgsFh(shared))
					case "shlookup":
						res = s.nfs(nfsx.ProcLookup, nfsx.ArgsDirop(dir, in.Name))
						if res.Status == nfsx.OK {
							mu.Lock()
							if issued[in.Name] == nil {
								issued[in.Name] = map[string]bool{}
							}
							issued[in.Name][fmt.Sprintf("%x", res.Fh)] = true
							mu.Unlock()
						}
					case "pagedir":
						// the shared directory listed page by page (two or three entries per page) while the other
						// clients create, remove and rename in it; replies are not judged, the server must survive
						var cookie uint64
						var verf [8]byte
						for page := 0; page < 16; page++ {
							if page > 0 {
								// (the listing client deletes as it goes, as rm -r does: extras sort last, so the
								// directory loses its tail while the cookie moves towards it)
								for k := 0; k < 2; k++ {
									if x := atomic.AddInt32(&extrasLeft, -1); x >= 0 {
										s.nfs(nfsx.ProcRemove, nfsx.ArgsDirop(dir, fmt.Sprintf("x%02d", x)))
									}
								}
							}
							if in.Len%2 == 0 {
								res = s.nfs(nfsx.ProcReaddir, nfsx.ArgsReaddir(dir, cookie, verf, 200))
							} else {
								res = s.nfs(nfsx.ProcReaddirplus, nfsx.ArgsReaddirplus(dir, cookie, verf, 512, 700))
							}
							if res.Status != nfsx.OK || res.EOF || len(res.Entries) == 0 {
								break
							}
							cookie, verf = res.Entries[len(res.Entries)-1].Cookie, res.CookieVerf
						}
					case "readdir":
						res = s.nfs(nfsx.ProcReaddir, nfsx.ArgsReaddir(dir, 0, [8]byte{}, 65536))
						if res.Status == nfsx.OK {
							for _, e := range res.Entries {
								out.Names = append(out.Names, e.Name)
							}
							sort.Strings(out.Names)
						}
					}
				}()
				ret := atomic.AddInt64(&clock, 1)
				atomic.AddInt32(&inflight, -1)
				if res == nil || res.Status >= 0xFFFFFFFE || !judged {
					continue // unusable reply (judged by C14), or an operation on a shared object
				}
				out.OK, out.Stat = res.Status == nfsx.OK, res.Status
				mu.Lock()
				history = append(history, porcupine.Operation{ClientId: ci, Input: in, Call: call, Output: out, Return: ret})
				mu.Unlock()
			}
		}(ci, ops)
	}
	done := make(chan struct{})
	go func() { wg.Wait(); close(done) }()
	select {
	case <-done:
	case <-time.After(120 * time.Second):
		leak = true
		buf := make([]byte, 1<<16)
		n := runtime.Stack(buf, true)
		stat.Violate(tb, id, check, "concurrent-requests-hang", c, "client goroutines did not finish within 120 s; goroutines:\n%s", buf[:n])
		return
	}
	v.SetBefore(nil)
	if atomic.LoadInt32(&timedOut) > 0 {
		// HandleCall gave up on a request after 8 s although the backend never
		// blocks. Slow machine or a hang? A hung request's worker goroutine is
		// still there, parked on a lock, well after every client has finished.
		time.Sleep(time.Second)
		buf := make([]byte, 4<<20)
		n := runtime.Stack(buf, true)
		for _, g := range strings.Split(string(buf[:n]), "\n\n") {
			if strings.Contains(g, "absnfs.(*NFSProcedureHandler).HandleCall.func") && (strings.Contains(g, "sync.(*RWMutex)") || strings.Contains(g, "sync.(*Mutex)") || strings.Contains(g, "semacquire")) {
				leak = true
				stat.Violate(tb, id, check, "concurrent-requests-hang", c, "%d request(s) got no reply within 8 s and a request goroutine is still parked on a lock after all clients finished (deadlock):\n%s", timedOut, g)
				return
			}
		}
		stat.Inconclusive("C29: a request timed out but no goroutine is stuck (slow machine)")
		stat.Discard(false)
		return
	}

	describe := func() string {
		var b strings.Builder
		sort.Slice(history, func(i, j int) bool { return history[i].Call < history[j].Call })
		for _, op := range history {
			fmt.Fprintf(&b, "[%d,%d] %s\n", op.Call, op.Return, lzModel.DescribeOperation(op.Input, op.Output))
		}
		return b.String()
	}
	if !c.Cached {
		res := porcupine.CheckOperationsTimeout(lzModel, history, 20*time.Second)
		if res == porcupine.Illegal {
			if stat.Violate(tb, id, check, "history-not-linearizable", c, "no serial execution respecting real-time order explains these replies (minimal TTL):\n%s", describe()) {
				return
			}
		}
		if res == porcupine.Unknown {
			stat.Inconclusive("C29: porcupine timed out on one history")
		}
	} else {
		// caches on: every reply of a client about its own name must equal a state that name has been in
		for ci := range c.Clients {
			past := []lzState{{}}
			cur := lzState{}
			var mine []porcupine.Operation
			for _, op := range history {
				if op.ClientId == ci {
					mine = append(mine, op)
				}
			}
			sort.Slice(mine, func(i, j int) bool { return mine[i].Call < mine[j].Call })
			for _, op := range mine {
				in, out := op.Input.(lzIn), op.Output.(lzOut)
				if in.Op == "readdir" {
					continue
				}
				okNow, next := lzStep(cur, in, out)
				if okNow {
					cur = next
					past = append(past, cur)
					continue
				}
				// not explained by the current state: a read-type reply may be stale, a mutation may not
				readType := in.Op == "read" || in.Op == "getattr" || in.Op == "lookup"
				explained := false
				if readType {
					for _, p := range past {
						if ok, _ := lzStep(p, in, out); ok {
							explained = true
							break
						}
					}
				}
				if !explained {
					if stat.Violate(tb, id, check, "reply-reflects-a-state-the-object-was-never-in", c, "client %d: %s is explained by no state its name has been in (caches on):\n%s", ci, lzModel.DescribeOperation(in, out), describe()) {
						return
					}
				}
				// resynchronise on the backend for this client's names
				cur = cur.clone()
				for _, n := range []string{fmt.Sprintf("c%da", ci), fmt.Sprintf("c%db", ci)} {
					delete(cur, n)
					if e, ok := v.PeekLstat("/s/" + n); ok {
						if e.Type == "dir" {
							cur[n] = lzEnt{kind: 'd'}
						} else {
							b, _, _ := v.PeekRead("/s/"+n, 0, 64)
							cur[n] = lzEnt{kind: 'f', data: string(b)}
						}
					}
				}
				past = append(past, cur)
			}
		}
	}
	// ---- the handle table: one live handle per path, and the table agrees with itself. No eviction can have
	// happened (default limit 100000), so every value issued for an unchanged path is live and must be the same.
	for n, vals := range issued {
		if len(vals) > 1 {
			var vs []string
			for h := range vals {
				vs = append(vs, h)
			}
			sort.Strings(vs)
			if stat.Violate(tb, id, check, "concurrent-lookups-issue-different-handles-for-one-path", c, "concurrent LOOKUPs of the unchanged /s/%s returned %d different live handle values %v", n, len(vals), vs) {
				return
			}
		}
	}
	{
		fm := s.e.NFS.VerifFileMap()
		byHandle, byPath := fm.VerifHandlePaths(), fm.VerifPathHandles()
		seenPath := map[string]uint64{}
		for h, p := range byHandle {
			if p == "" {
				continue
			}
			if other, dup := seenPath[p]; dup {
				if stat.Violate(tb, id, check, "handle-table-holds-two-handles-for-one-path", c, "after all requests finished the handle table holds handles %d and %d for the same path %s\n%s", other, h, p, describe()) {
					return
				}
			}
			seenPath[p] = h
			if ph, ok := byPath[p]; !ok || ph != h {
				if stat.Violate(tb, id, check, "handle-table-disagrees-with-path-index", c, "after all requests finished handle %d maps to %s but the path index maps %s to %d (present=%v)", h, p, p, ph, ok) {
					return
				}
			}
		}
		for p, h := range byPath {
			if hp, ok := byHandle[h]; !ok || hp != p {
				if stat.Violate(tb, id, check, "handle-table-disagrees-with-path-index", c, "after all requests finished the path index maps %s to handle %d, which the table maps to %q (present=%v)", p, h, hp, ok) {
					return
				}
			}
		}
	}
	// ---- afterwards the server's view agrees with the backend (fresh session state: same server, new lookups)
	snap := v.Snapshot()
	lr := s.nfs(nfsx.ProcReaddirplus, nfsx.ArgsReaddirplus(dir, 0, [8]byte{}, 65536, 65536))
	if lr.Status == nfsx.OK {
		var got, want []string
		for _, e := range lr.Entries {
			got = append(got, e.Name)
		}
		for p := range snap {
			if strings.HasPrefix(p, "/s/") {
				want = append(want, strings.TrimPrefix(p, "/s/"))
			}
		}
		sort.Strings(got)
		sort.Strings(want)
		if strings.Join(got, ",") != strings.Join(want, ",") {
			if stat.Violate(tb, id, check, "listing-disagrees-with-backend-after-concurrency", c, "after all requests finished READDIRPLUS lists %v, the backend holds %v\n%s", got, want, describe()) {
				return
			}
		}
	}
	for ci := range c.Clients {
		own := []string{fmt.Sprintf("c%da", ci), fmt.Sprintf("c%db", ci)}
		if ci == 0 {
			own = append(own, "shared")
		}
		for _, n := range own {
			ent, exists := snap["/s/"+n]
			r := s.nfs(nfsx.ProcLookup, nfsx.ArgsDirop(dir, n))
			if exists != (r.Status == nfsx.OK) {
				if stat.Violate(tb, id, check, "lookup-disagrees-with-backend-after-concurrency", c, "after all requests finished LOOKUP %s replied %s but the backend says exists=%v\n%s", n, statusName(r.Status), exists, describe()) {
					return
				}
				continue
			}
			if !exists {
				continue
			}
			if r.Attr != nil && ent.Type == "file" && (r.Attr.Type != nfsx.TypeReg || int64(r.Attr.Size) != ent.Size) {
				if stat.Violate(tb, id, check, "attributes-disagree-with-backend-after-concurrency", c, "after all requests finished LOOKUP %s reports type %d size %d, backend %+v\n%s", n, r.Attr.Type, r.Attr.Size, ent, describe()) {
					return
				}
			}
			if ent.Type == "file" {
				rd := s.nfs(nfsx.ProcRead, nfsx.ArgsRead(r.Fh, 0, 64))
				want, _, _ := v.PeekRead("/s/"+n, 0, 64)
				if rd.Status != nfsx.OK || !bytes.Equal(rd.Data, want) {
					if stat.Violate(tb, id, check, "data-disagrees-with-backend-after-concurrency", c, "after all requests finished READ %s returned %x (%s), backend holds %x", n, rd.Data, statusName(rd.Status), want) {
						return
					}
				}
			}
		}
	}
	var ls []string
	if c.Cached {
		ls = append(ls, "caches_on")
	} else {
		ls = append(ls, "minimal_ttl_linearizability")
	}
	stat.Case(c, overlapping, ls...)
}

var propC29 = defProp("C29", "TestC29", genC29, runC29)

func TestC29(t *testing.T) { propC29.Test(t) }
