package checks

// Self-tests of the trusted base (run by `./vcheck selftest`; a failure here is
// a harness problem - exit 2 - never a property violation).
//
// TestSelfVfsKernel: the same random operation sequences are applied to the
// reference backend vfs and, through package os, to a scratch directory; error
// classes and resulting trees must agree. This grounds "POSIX-like" in the
// kernel rather than in the author's reading of it.

import (
	"errors"
	"fmt"
	"io/fs"
	"os"
	"path/filepath"
	"sort"
	"strings"
	"syscall"
	"testing"

	"pgregory.net/rapid"

	"verif/harness/nfsx"
	"verif/harness/vfs"
)

type selfOp struct {
	Kind   string
	A, B   string
	N      int
	Data   string
}

func errClass(err error) string {
	if err == nil {
		return "ok"
	}
	for _, e := range []syscall.Errno{syscall.ENOENT, syscall.EEXIST, syscall.ENOTDIR, syscall.EISDIR, syscall.ENOTEMPTY, syscall.EINVAL, syscall.ELOOP, syscall.ENAMETOOLONG} {
		if errors.Is(err, e) {
			return e.Error()
		}
	}
	return "other:" + err.Error()
}

func TestSelfVfsKernel(t *testing.T) {
	names := []string{"a", "b", "c", "a/a", "a/b", "b/a", "a/a/a", "c/b"}
	targets := []string{"a", "b", "a/b", "nowhere", "c", "a/a"}
	rapid.Check(t, func(rt *rapid.T) {
		dir, err := os.MkdirTemp("", "verif-self-")
		if err != nil {
			rt.Fatalf("mkdtemp: %v", err)
		}
		defer os.RemoveAll(dir)
		v := vfs.New()
		n := rapid.IntRange(1, 30).Draw(rt, "n")
		for i := 0; i < n; i++ {
			op := selfOp{Kind: rapid.SampledFrom([]string{"mkdir", "create", "write", "remove", "rename", "symlink", "readlink", "truncate", "lstat", "stat", "chmod", "readdir", "excl"}).Draw(rt, "kind"),
				A: rapid.SampledFrom(names).Draw(rt, "a"), B: rapid.SampledFrom(names).Draw(rt, "b"), N: rapid.IntRange(0, 20).Draw(rt, "n2"), Data: rapid.SampledFrom([]string{"", "x", "hello world"}).Draw(rt, "data")}
			kp := func(p string) string { return filepath.Join(dir, p) }
			vp := func(p string) string { return "/" + p }
			var ke, ve error
			var kout, vout string
			switch op.Kind {
			case "mkdir":
				ke, ve = os.Mkdir(kp(op.A), 0755), v.Mkdir(vp(op.A), 0755)
			case "create", "excl":
				flag := os.O_RDWR | os.O_CREATE | os.O_TRUNC
				if op.Kind == "excl" {
					flag = os.O_RDWR | os.O_CREATE | os.O_EXCL
				}
				kf, e1 := os.OpenFile(kp(op.A), flag, 0644)
				vf, e2 := v.OpenFile(vp(op.A), flag, 0644)
				ke, ve = e1, e2
				if e1 == nil {
					kf.WriteString(op.Data)
					kf.Close()
				}
				if e2 == nil {
					vf.WriteString(op.Data)
					vf.Close()
				}
			case "write":
				kf, e1 := os.OpenFile(kp(op.A), os.O_WRONLY, 0)
				vf, e2 := v.OpenFile(vp(op.A), os.O_WRONLY, 0)
				ke, ve = e1, e2
				if e1 == nil {
					_, ke = kf.WriteAt([]byte(op.Data), int64(op.N))
					kf.Close()
				}
				if e2 == nil {
					_, ve = vf.WriteAt([]byte(op.Data), int64(op.N))
					vf.Close()
				}
			case "remove":
				ke, ve = os.Remove(kp(op.A)), v.Remove(vp(op.A))
			case "rename":
				ke, ve = syscall.Rename(kp(op.A), kp(op.B)), v.Rename(vp(op.A), vp(op.B)) // rename(2) itself: os.Rename adds its own EEXIST rule for directories
			case "symlink":
				tg := rapid.SampledFrom(targets).Draw(rt, "target")
				ke, ve = os.Symlink(tg, kp(op.A)), v.Symlink(tg, vp(op.A))
			case "readlink":
				kout, ke = os.Readlink(kp(op.A))
				vout, ve = v.Readlink(vp(op.A))
			case "truncate":
				ke, ve = os.Truncate(kp(op.A), int64(op.N)), v.Truncate(vp(op.A), int64(op.N))
			case "lstat", "stat":
				var ki, vi fs.FileInfo
				if op.Kind == "lstat" {
					ki, ke = os.Lstat(kp(op.A))
					vi, ve = v.Lstat(vp(op.A))
				} else {
					ki, ke = os.Stat(kp(op.A))
					vi, ve = v.Stat(vp(op.A))
				}
				if ke == nil && ve == nil {
					kout = fmt.Sprintf("%v %v", ki.Mode().Type(), ki.Mode().IsRegular() && true)
					vout = fmt.Sprintf("%v %v", vi.Mode().Type(), vi.Mode().IsRegular() && true)
					if ki.Mode().IsRegular() {
						kout += fmt.Sprint(ki.Size())
						vout += fmt.Sprint(vi.Size())
					}
				}
			case "chmod":
				ke, ve = os.Chmod(kp(op.A), 0700), v.Chmod(vp(op.A), 0700)
			case "readdir":
				kes, e1 := os.ReadDir(kp(op.A))
				ves, e2 := v.ReadDir(vp(op.A))
				ke, ve = e1, e2
				var kn, vn []string
				for _, e := range kes {
					kn = append(kn, e.Name())
				}
				for _, e := range ves {
					vn = append(vn, e.Name())
				}
				sort.Strings(kn)
				sort.Strings(vn)
				kout, vout = strings.Join(kn, ","), strings.Join(vn, ",")
			}
			kc, vc := errClass(ke), errClass(ve)
			// the kernel reports EISDIR/ENOTDIR/EEXIST variations for a few corner cases; compare ok-vs-error and, when both fail, the class
			// only success-vs-failure is compared: which of several applicable errors wins is not part of any oracle (latitude L3)
			if (ke == nil) != (ve == nil) {
				rt.Fatalf("harness: vfs disagrees with the kernel on op#%d %+v: kernel %s, vfs %s", i, op, kc, vc)
			}
			if kout != vout {
				rt.Fatalf("harness: vfs disagrees with the kernel on op#%d %+v: kernel %q, vfs %q", i, op, kout, vout)
			}
		}
		// final trees
		ktree := map[string]string{}
		filepath.Walk(dir, func(p string, info fs.FileInfo, err error) error {
			if err != nil || p == dir {
				return nil
			}
			rel := "/" + strings.TrimPrefix(p, dir+"/")
			switch {
			case info.Mode()&os.ModeSymlink != 0:
				tg, _ := os.Readlink(p)
				ktree[rel] = "l:" + tg
			case info.IsDir():
				ktree[rel] = "d"
			default:
				b, _ := os.ReadFile(p)
				ktree[rel] = "f:" + string(b)
			}
			return nil
		})
		vtree := map[string]string{}
		for p, e := range v.Snapshot() {
			if p == "/" {
				continue
			}
			switch e.Type {
			case "link":
				vtree[p] = "l:" + e.Target
			case "dir":
				vtree[p] = "d"
			default:
				b, _, _ := v.PeekRead(p, 0, 1<<16)
				vtree[p] = "f:" + string(b)
			}
		}
		if d := diffFlat(ktree, vtree); d != "" {
			rt.Fatalf("harness: final trees differ (kernel vs vfs): %s", d)
		}
	})
}

// TestSelfNfsxRecord: Frame/ReadRecord are inverse for every fragmentation.
func TestSelfNfsxRecord(t *testing.T) {
	rapid.Check(t, func(rt *rapid.T) {
		data := rapid.SliceOfN(rapid.Byte(), 0, 300).Draw(rt, "data")
		frags := rapid.SliceOfN(rapid.IntRange(0, 40), 0, 8).Draw(rt, "frags")
		out, err := nfsx.ReadRecord(strings.NewReader(string(nfsx.Frame(data, frags...))), 1<<20)
		if err != nil || string(out) != string(data) {
			rt.Fatalf("harness: nfsx record framing is not its own inverse: %v", err)
		}
	})
}
