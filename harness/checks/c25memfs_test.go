package checks

// C25 over another backend: "no WRITE and no SETATTR(size) makes a file larger than MaxFileSize" is a statement about
// the export, whatever filesystem it serves. memfs is the backend of the project's own examples; it differs from a
// POSIX filesystem in details (for instance in what a write of no bytes beyond the end of a file does). The same
// request grammar as TestC25, the size read from the backend after every request.

import (
	"fmt"
	"os"
	"testing"

	"github.com/absfs/absnfs"
	"github.com/absfs/memfs"
	"pgregory.net/rapid"

	"verif/harness/nfsx"
	"verif/harness/stat"
)

type c25mOp struct {
	Kind string `json:"kind"` // write setsize
	End  int    `json:"end"`
	Len  int    `json:"len"`
}

type c25mCase struct {
	M       int64    `json:"max_file_size"`
	Runtime bool     `json:"runtime"`
	Ops     []c25mOp `json:"ops"`
}

func genC25m(t *rapid.T) c25mCase {
	c := c25mCase{M: pick(t, "m", int64(1), 2, 100, 4096, 65537), Runtime: rapid.Bool().Draw(t, "runtime")}
	n := rapid.IntRange(1, 10).Draw(t, "n")
	for i := 0; i < n; i++ {
		c.Ops = append(c.Ops, c25mOp{Kind: pick(t, "kind", "write", "write", "setsize"), End: rapid.IntRange(0, 10).Draw(t, "end"), Len: pick(t, "len", 0, 0, 1, 2, 100, 5000)})
	}
	return c
}

func runC25m(tb stat.TB, c c25mCase) {
	const id, check = "C25", "TestC25Memfs"
	m, err := memfs.NewFS()
	if err != nil {
		tb.Fatalf("harness: memfs: %v", err)
	}
	f, err := m.OpenFile("/f", os.O_CREATE|os.O_RDWR, 0644)
	if err != nil {
		tb.Fatalf("harness: %v", err)
	}
	f.Close()
	opts := absnfs.ExportOptions{AttrCacheTimeout: 1, AttrCacheSize: 2}
	if !c.Runtime {
		opts.MaxFileSize = c.M
	}
	s := newSessionOn(tb, m, nil, opts)
	defer s.close()
	size := func() int64 {
		st, err := m.Stat("/f")
		if err != nil {
			return -1
		}
		return st.Size()
	}
	nt := false
	abandoned := guard(func() {
		root := s.mount()
		lr := s.nfs(nfsx.ProcLookup, nfsx.ArgsDirop(root, "f"))
		if lr.Status != nfsx.OK {
			tb.Fatalf("harness: lookup f: %s", statusName(lr.Status))
		}
		if c.Runtime {
			o := s.e.NFS.GetExportOptions()
			o.MaxFileSize = c.M
			if err := s.e.NFS.UpdateExportOptions(o); err != nil {
				tb.Fatalf("harness: %v", err)
			}
		}
		for i, op := range c.Ops {
			end := c25End(c.M, op.End)
			if end > 1<<20 {
				end = uint64(c.M) + 70000 // (an in-memory backend would try to allocate what a broken limit lets through)
			}
			pre := size()
			what := ""
			var res *nfsx.Res
			if op.Kind == "write" {
				ln := op.Len
				if uint64(ln) > end {
					ln = int(end)
				}
				off := end - uint64(ln)
				data := make([]byte, ln)
				for j := range data {
					data[j] = byte(i*31+j) | 1
				}
				what = fmt.Sprintf("op#%d WRITE offset=%d len=%d (limit %d)", i, off, ln, c.M)
				res = s.nfs(nfsx.ProcWrite, nfsx.ArgsWrite(lr.Fh, off, uint32(ln), nfsx.FileSync, data))
				if ln == 0 && int64(off) > c.M {
					nt = true
				}
			} else {
				what = fmt.Sprintf("op#%d SETATTR size=%d (limit %d)", i, end, c.M)
				res = s.nfs(nfsx.ProcSetattr, nfsx.ArgsSetattr(lr.Fh, nfsx.Sattr{Size: nfsx.U64p(end)}, nil))
			}
			if int64(end) >= c.M-1 && int64(end) <= c.M+1 {
				nt = true
			}
			post := size()
			if post > c.M && post != pre {
				stat.Violate(tb, id, check, "file-exceeds-max-file-size:memfs", c, "%s (%s) over a memfs backend: the request took the file from %d to %d bytes, MaxFileSize is %d", what, statusName(res.Status), pre, post, c.M)
				return
			}
			if res.Status != nfsx.OK && post != pre {
				stat.Violate(tb, id, check, "refused-request-changes-file:memfs", c, "%s was refused (%s) but the size went from %d to %d", what, statusName(res.Status), pre, post)
				return
			}
		}
	})
	if abandoned {
		return
	}
	stat.Case(c, nt)
}

var propC25m = defProp("C25", "TestC25Memfs", genC25m, runC25m)

func TestC25Memfs(t *testing.T) { propC25m.Test(t) }
