package checks

// C19 end to end over admitted connections: "however much a client sends beyond its own limits, every other client
// within its limits is still admitted". Connections are admitted and registered the way the accept loop does it
// (drv.PipeAdmitted), rate limiting is on with a per-connection burst B and a slow refill; global and per-IP limits
// are far away. Generated schedules of open / send / flood / close over up to 6 connections. Oracle (real time, so
// one-sided): the first B requests a connection ever sends are within its own limit whatever other connections did
// or do - they must be admitted. Refill only adds tokens, so this never depends on timing.

import (
	"fmt"
	"testing"
	"time"

	"github.com/absfs/absnfs"
	"pgregory.net/rapid"

	"verif/harness/drv"
	"verif/harness/nfsx"
	"verif/harness/stat"
	"verif/harness/vfs"
)

type c19cStep struct {
	Kind string `json:"kind"` // open send flood close
	Slot int    `json:"slot"`
}

type c19cCase struct {
	Burst  int        `json:"burst"`
	SameIP bool       `json:"same_ip"`
	Steps  []c19cStep `json:"steps"`
}

func genC19c(t *rapid.T) c19cCase {
	c := c19cCase{Burst: rapid.IntRange(1, 4).Draw(t, "burst"), SameIP: rapid.Bool().Draw(t, "sameip")}
	n := rapid.IntRange(4, 24).Draw(t, "n")
	for i := 0; i < n; i++ {
		c.Steps = append(c.Steps, c19cStep{Kind: pick(t, "kind", "open", "open", "open", "send", "send", "flood", "flood", "close", "close"), Slot: rapid.IntRange(0, 5).Draw(t, "slot")})
	}
	return c
}

func runC19c(tb stat.TB, c c19cCase) {
	const id, check = "C19", "TestC19Conns"
	rc := absnfs.DefaultRateLimiterConfig()
	rc.PerConnectionRequestsPerSecond, rc.PerConnectionBurstSize = 1, c.Burst
	rc.GlobalRequestsPerSecond, rc.PerIPRequestsPerSecond, rc.PerIPBurstSize = 1000000, 1000000, 1000000
	s := newSession(tb, vfs.New(), absnfs.ExportOptions{EnableRateLimiting: true, RateLimitConfig: &rc, MaxConnections: 100, AttrCacheTimeout: 1, AttrCacheSize: 2})
	defer s.close()
	type live struct {
		pc   *drv.PipeConn
		sent int
		gen  int
	}
	var slots [6]*live
	gens := 0
	defer func() {
		for _, l := range slots {
			if l != nil {
				l.pc.Close()
			}
		}
	}()
	abusiveRefused, judgedAfterAbuse := false, false
	// call sends one NULL call on l and reports whether it was admitted (executed) or refused by rate limiting
	call := func(l *live) (admitted, ok bool) {
		xid := s.e.NextXid()
		if err := l.pc.Send(nfsx.Call(xid, nfsx.ProgNFS, 3, 0, nfsx.AuthNone(), nfsx.AuthNone(), nil)); err != nil {
			return false, false
		}
		rec, err := l.pc.Recv(10 * time.Second)
		if err != nil {
			return false, false
		}
		rp, perr := nfsx.ParseReply(rec)
		if perr != nil || rp.Xid != xid {
			return false, false
		}
		return rp.Stat == nfsx.MsgAccepted, true
	}
	for si, st := range c.Steps {
		l := slots[st.Slot]
		switch st.Kind {
		case "open":
			if l != nil {
				continue
			}
			ip := fmt.Sprintf("10.5.0.%d", st.Slot+1)
			if c.SameIP {
				ip = "10.5.0.1"
			}
			pc := s.e.PipeAdmitted(ip, 700+st.Slot)
			if pc == nil {
				tb.Fatalf("harness: connection refused at admission")
			}
			gens++
			slots[st.Slot] = &live{pc: pc, gen: gens}
		case "close":
			if l == nil {
				continue
			}
			l.pc.Close()
			slots[st.Slot] = nil
			// the server's side of the connection has ended (PipeConn.Close waits for the handler)
		case "send", "flood":
			if l == nil {
				continue
			}
			k := 1
			if st.Kind == "flood" {
				k = 3*c.Burst + 2
			}
			for j := 0; j < k; j++ {
				within := l.sent < c.Burst
				admitted, ok := call(l)
				if !ok {
					stat.Inconclusive("C19: connection failed in step " + fmt.Sprint(si))
					return
				}
				l.sent++
				if within {
					if abusiveRefused {
						judgedAfterAbuse = true
					}
					if !admitted {
						stat.Violate(tb, id, check, "connection-within-its-own-limit-refused", c, "step#%d: request %d of connection #%d (slot %d; per-connection burst %d, global and per-IP limits at 10^6) was refused although this connection has sent only %d request(s) so far", si, l.sent, l.gen, st.Slot, c.Burst, l.sent-1)
						return
					}
				} else if !admitted {
					abusiveRefused = true
				}
			}
		}
	}
	stat.Case(c, abusiveRefused && judgedAfterAbuse)
}

var propC19c = defProp("C19", "TestC19Conns", genC19c, runC19c)

func TestC19Conns(t *testing.T) { propC19c.Test(t) }
