package checks

// C15 with several connections at once: "it answers each decodable call at most once, in arrival order, with the
// call's XID" holds per connection whatever the other connections do. 2-5 clients pipeline valid calls (READ of their
// own file, GETATTR, NULL, READDIRPLUS) on their own record-marking connections, some of them draining their replies
// slowly so that reply writes stay parked while other connections are being answered. Per connection: the replies are
// exactly the calls' XIDs in order, every reply decodes strictly as the result of its call, and READ data is the
// content of that client's file.

import (
	"bytes"
	"fmt"
	"sync"
	"sync/atomic"
	"testing"
	"time"

	"github.com/absfs/absnfs"
	"pgregory.net/rapid"

	"verif/harness/drv"
	"verif/harness/nfsx"
	"verif/harness/stat"
	"verif/harness/vfs"
)

type c15mCase struct {
	Clients int   `json:"clients"`
	Calls   int   `json:"calls"`
	SlowUs  []int `json:"slow_us"` // per client: pause before each reply is read (0 = none)
	Sizes   []int `json:"sizes"`
	Workers int   `json:"workers"`
}

func genC15m(t *rapid.T) c15mCase {
	c := c15mCase{Clients: rapid.IntRange(2, 5).Draw(t, "clients"), Calls: rapid.IntRange(3, 25).Draw(t, "calls"), Workers: pick(t, "workers", 1, 4, 8)}
	for i := 0; i < c.Clients; i++ {
		c.SlowUs = append(c.SlowUs, pick(t, "slow", 0, 0, 200, 2000))
		c.Sizes = append(c.Sizes, pick(t, "size", 10, 3000, 40000, 70000))
	}
	return c
}

func runC15m(tb stat.TB, c c15mCase) {
	const id, check = "C15", "TestC15Multi"
	v := vfs.New()
	contents := make([][]byte, c.Clients)
	for i := range contents {
		contents[i] = c29rContent(i+3, c.Sizes[i])
		v.SeedFile(fmt.Sprintf("/m%d", i), 0644, 0, 0, contents[i])
		// a directory of its own per client, with entries no other client's directory has
		v.SeedDir(fmt.Sprintf("/dir%d", i), 0755, 0, 0)
		for k := 0; k <= i+1; k++ {
			v.SeedFile(fmt.Sprintf("/dir%d/own%d_%d", i, i, k), 0644, 0, 0, []byte("o"))
		}
	}
	s := newSession(tb, v, absnfs.ExportOptions{AttrCacheTimeout: 1, AttrCacheSize: 4, MaxWorkers: c.Workers, TransferSize: 1 << 20})
	defer s.close()
	root := s.e.MustMount(tb)
	dfhs := make([][]byte, c.Clients)
	for i := range dfhs {
		r, err := s.e.NFS3(drv.Root(), nfsx.ProcLookup, nfsx.ArgsDirop(root, fmt.Sprintf("dir%d", i)))
		if err != nil || r.Status != nfsx.OK {
			tb.Fatalf("harness: lookup dir%d: %v", i, err)
		}
		dfhs[i] = r.Fh
	}
	fhs := make([][]byte, c.Clients)
	for i := range fhs {
		r, err := s.e.NFS3(drv.Root(), nfsx.ProcLookup, nfsx.ArgsDirop(root, fmt.Sprintf("m%d", i)))
		if err != nil || r.Status != nfsx.OK {
			tb.Fatalf("harness: lookup m%d: %v", i, err)
		}
		fhs[i] = r.Fh
	}
	var mu sync.Mutex
	var sig, msg string
	report := func(sg, f string, a ...any) {
		mu.Lock()
		if msg == "" {
			sig, msg = sg, fmt.Sprintf(f, a...)
		}
		mu.Unlock()
	}
	var wg sync.WaitGroup
	start := make(chan struct{})
	for ci := 0; ci < c.Clients; ci++ {
		wg.Add(1)
		go func(ci int) {
			defer wg.Done()
			pc := s.e.Pipe(fmt.Sprintf("10.6.0.%d", ci+1), 700)
			defer pc.Close()
			type sent struct {
				xid  uint32
				proc uint32
			}
			var calls []sent
			var stream []byte
			for k := 0; k < c.Calls; k++ {
				xid := uint32(100000*(ci+1) + k)
				var proc uint32
				var args []byte
				switch (k + ci) % 4 {
				case 0, 1:
					proc, args = nfsx.ProcRead, nfsx.ArgsRead(fhs[ci], 0, uint32(c.Sizes[ci]))
				case 2:
					proc, args = nfsx.ProcGetattr, nfsx.ArgsFh(fhs[ci])
				default:
					if k%2 == 0 {
						proc, args = nfsx.ProcReaddirplus, nfsx.ArgsReaddirplus(dfhs[ci], 0, [8]byte{}, 4096, 8192)
					} else {
						proc, args = nfsx.ProcReaddir, nfsx.ArgsReaddir(dfhs[ci], 0, [8]byte{}, 4096)
					}
				}
				calls = append(calls, sent{xid, proc})
				stream = append(stream, nfsx.Frame(nfsx.Call(xid, nfsx.ProgNFS, 3, proc, drv.Root().Cred, nfsx.AuthNone(), args))...)
			}
			<-start
			wdone := make(chan error, 1)
			var werr atomic.Value
			go func() {
				// (a generous deadline: on a busy machine five clients with 70 KB replies take their time)
				pc.C.SetWriteDeadline(time.Now().Add(90 * time.Second))
				_, err := pc.C.Write(stream)
				if err != nil {
					werr.Store(err.Error())
				}
				wdone <- err
			}()
			for k, call := range calls {
				if c.SlowUs[ci] > 0 {
					time.Sleep(time.Duration(c.SlowUs[ci]) * time.Microsecond)
				}
				rec, err := pc.Recv(60 * time.Second)
				if err != nil && werr.Load() != nil {
					// the calls were not all handed over (the harness' own writer gave up): nothing to judge
					stat.Label("stream_writer_gave_up", 1)
					return
				}
				if err != nil {
					report("connection-starved-or-dropped", "client %d: reply %d of %d did not arrive (%v) while %d other connections were being served", ci, k, len(calls), err, c.Clients-1)
					return
				}
				rp, perr := nfsx.ParseReply(rec)
				if perr != nil {
					report("reply-malformed-under-concurrency", "client %d: reply %d does not parse: %v", ci, k, perr)
					return
				}
				if rp.Xid != call.xid {
					report("reply-carries-another-calls-xid", "client %d: reply %d carries xid %d, the call in that position has xid %d (xids of this connection are %d..%d)", ci, k, rp.Xid, call.xid, calls[0].xid, calls[len(calls)-1].xid)
					return
				}
				if rp.Stat != nfsx.MsgAccepted || rp.AcceptStat != nfsx.AcceptSuccess {
					report("valid-call-not-accepted-under-concurrency", "client %d: reply %d: stat %d accept %d", ci, k, rp.Stat, rp.AcceptStat)
					return
				}
				res, derr := nfsx.DecodeNFS3(call.proc, rp.Body)
				if derr != nil {
					report("reply-malformed-under-concurrency", "client %d: reply %d (proc %d) does not decode as its result type: %v", ci, k, call.proc, derr)
					return
				}
				if (call.proc == nfsx.ProcReaddirplus || call.proc == nfsx.ProcReaddir) && res.Status == nfsx.OK {
					// the client's own directory never changes: own<ci>_0 .. own<ci>_<ci+1>, complete in one page
					names := map[string]bool{}
					for _, e := range res.Entries {
						names[e.Name] = true
					}
					okNames := len(names) == ci+2 && len(res.Entries) == ci+2 && res.EOF
					for i := 0; i <= ci+1 && okNames; i++ {
						okNames = names[fmt.Sprintf("own%d_%d", ci, i)]
					}
					if !okNames {
						report("reply-carries-another-connections-data", "client %d: listing reply %d (proc %d) has %d entries %v eof=%v, this client's directory holds own%d_0..own%d_%d", ci, k, call.proc, len(res.Entries), names, res.EOF, ci, ci, ci+1)
						return
					}
				}
				if call.proc == nfsx.ProcGetattr && res.Status == nfsx.OK && res.Attr != nil && int(res.Attr.Size) != c.Sizes[ci] {
					report("reply-carries-another-connections-data", "client %d: GETATTR reply %d reports size %d, this client's file has %d bytes", ci, k, res.Attr.Size, c.Sizes[ci])
					return
				}
				if call.proc == nfsx.ProcRead && res.Status == nfsx.OK && !bytes.Equal(res.Data, contents[ci]) {
					report("reply-carries-another-connections-data", "client %d: READ reply %d returned %d bytes that are not the content of this client's file (%d bytes)", ci, k, len(res.Data), len(contents[ci]))
					return
				}
			}
			select {
			case <-wdone:
			case <-time.After(10 * time.Second):
			}
		}(ci)
	}
	close(start)
	wg.Wait()
	if msg != "" {
		stat.Violate(tb, id, check, sig, c, "%s", msg)
		return
	}
	slow := false
	for _, u := range c.SlowUs {
		if u > 0 {
			slow = true
		}
	}
	stat.Case(c, slow)
}

var propC15m = defProp("C15", "TestC15Multi", genC15m, runC15m)

func TestC15Multi(t *testing.T) { propC15m.Test(t) }
