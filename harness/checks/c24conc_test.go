package checks

// C24 under overlapping updates: "GetExportOptions reports the configuration in force" and updates are
// all-or-nothing also when several UpdateTuningOptions / UpdateExportOptions calls overlap. Every goroutine owns one
// field and sets it several times (its callback yields, so that the calls really overlap); nobody else touches that
// field. When all calls have returned, each field must report the last value its owner set, and the attribute cache
// capacity and the pool size in force must be the reported ones. An update built on a stale snapshot loses another
// caller's completed update.

import (
	"fmt"
	"runtime"
	"sync"
	"testing"
	"time"

	"github.com/absfs/absnfs"
	"pgregory.net/rapid"

	"verif/harness/stat"
	"verif/harness/vfs"
)

type c24cCase struct {
	Writers []int `json:"writers"` // field index per goroutine (distinct)
	Rounds  int   `json:"rounds"`
	Yields  int   `json:"yields"`
}

var c24cFields = []string{"AttrCacheSize", "MaxWorkers", "TransferSize", "DirCacheMaxEntries", "MaxConnections", "IdleTimeout", "SendBufferSize"}

func genC24c(t *rapid.T) c24cCase {
	perm := rapid.Permutation([]int{0, 1, 2, 3, 4, 5, 6}).Draw(t, "fields")
	return c24cCase{Writers: perm[:rapid.IntRange(2, 5).Draw(t, "writers")], Rounds: rapid.IntRange(2, 12).Draw(t, "rounds"), Yields: rapid.IntRange(0, 30).Draw(t, "yields")}
}

func c24cSet(o *absnfs.TuningOptions, field, v int) {
	switch c24cFields[field] {
	case "AttrCacheSize":
		o.AttrCacheSize = v
	case "MaxWorkers":
		o.MaxWorkers = v%6 + 1
	case "TransferSize":
		o.TransferSize = v
	case "DirCacheMaxEntries":
		o.DirCacheMaxEntries = v
	case "MaxConnections":
		o.MaxConnections = v
	case "IdleTimeout":
		o.IdleTimeout = time.Duration(v) * time.Second
	case "SendBufferSize":
		o.SendBufferSize = v
	}
}

func c24cGet(o absnfs.ExportOptions, field int) int {
	switch c24cFields[field] {
	case "AttrCacheSize":
		return o.AttrCacheSize
	case "MaxWorkers":
		return o.MaxWorkers
	case "TransferSize":
		return o.TransferSize
	case "DirCacheMaxEntries":
		return o.DirCacheMaxEntries
	case "MaxConnections":
		return o.MaxConnections
	case "IdleTimeout":
		return int(o.IdleTimeout / time.Second)
	}
	return o.SendBufferSize
}

func runC24c(tb stat.TB, c c24cCase) {
	const id, check = "C24", "TestC24Concurrent"
	n, err := absnfs.New(vfs.New(), absnfs.ExportOptions{EnableDirCache: true})
	if err != nil {
		tb.Fatalf("harness: %v", err)
	}
	defer n.Close()
	final := make([]int, len(c.Writers))
	var wg sync.WaitGroup
	start := make(chan struct{})
	for g, field := range c.Writers {
		wg.Add(1)
		go func(g, field int) {
			defer wg.Done()
			<-start
			for r := 0; r < c.Rounds; r++ {
				v := 1000 + 100*g + r
				if c24cFields[field] == "MaxWorkers" {
					v = r
				}
				n.UpdateTuningOptions(func(o *absnfs.TuningOptions) {
					for y := 0; y < c.Yields; y++ {
						runtime.Gosched()
					}
					c24cSet(o, field, v)
				})
				final[g] = v
			}
		}(g, field)
	}
	close(start)
	wg.Wait()
	got := n.GetExportOptions()
	for g, field := range c.Writers {
		want := final[g]
		if c24cFields[field] == "MaxWorkers" {
			want = final[g]%6 + 1
		}
		if v := c24cGet(got, field); v != want {
			stat.Violate(tb, id, check, "completed-update-lost-to-overlapping-update:"+c24cFields[field], c, "%d goroutines updated one tuning field each (%d rounds); when all calls had returned GetExportOptions().%s = %d, its only writer's last value is %d", len(c.Writers), c.Rounds, c24cFields[field], v, want)
			return
		}
	}
	if capNow := n.VerifAttrCache().MaxSize(); capNow != got.AttrCacheSize {
		stat.Violate(tb, id, check, "reported-differs-from-in-force:AttrCacheSize", c, "after overlapping updates: reported AttrCacheSize=%d, cache capacity in force=%d", got.AttrCacheSize, capNow)
		return
	}
	if mw, _, _ := n.VerifWorkerPool().Stats(); mw != got.MaxWorkers {
		stat.Violate(tb, id, check, "reported-differs-from-in-force:MaxWorkers", c, "after overlapping updates: reported MaxWorkers=%d, pool size in force=%d", got.MaxWorkers, mw)
		return
	}
	stat.Case(c, true, fmt.Sprintf("writers_%d", len(c.Writers)))
}

var propC24c = defProp("C24", "TestC24Concurrent", genC24c, runC24c)

func TestC24Concurrent(t *testing.T) { propC24c.Test(t) }
