package checks

// C09 Host filtering and the secure-port rule gate every request.
//
// Oracle: an independent membership function on raw address bits (net/netip),
// compared three ways with auth's filter (through ValidateAuthentication) and
// the accept-time filter (Server.isIPAllowed through the shim), plus the gate:
// a rejected request is MSG_DENIED and reaches no backend call.

import (
	"encoding/binary"
	"fmt"
	"net/netip"
	"strings"
	"testing"
	"time"

	"github.com/absfs/absnfs"
	"pgregory.net/rapid"

	"verif/harness/drv"
	"verif/harness/nfsx"
	"verif/harness/stat"
	"verif/harness/vfs"
)

type c09Probe struct {
	IP   string `json:"ip"`
	Port int    `json:"port"`
	Prog uint32 `json:"prog"`
	Proc uint32 `json:"proc"`
}

type c09Case struct {
	List   []string   `json:"list"`
	Secure bool       `json:"secure"`
	Probes []c09Probe `json:"probes"`
	// Drain: the gate probes are sent while a policy update is draining in-flight requests (the filter of the
	// policy in force applies to the retry-later answers too)
	Drain bool `json:"drain,omitempty"`
}

const c09Vantage = "10.255.255.1" // always listed in drain cases: the parked request comes from here

// oracleAllowed decides membership on address bits. judged=false means the
// statement does not define the answer (zoned client, IPv4-mapped CIDR < /96).
func oracleAllowed(client string, list []string) (allowed, judged bool) {
	judged = true
	if strings.Contains(client, "%") {
		judged = false
		client = client[:strings.Index(client, "%")]
	}
	a, err := netip.ParseAddr(client)
	if err != nil {
		return false, judged // malformed client address: never allowed
	}
	a = a.Unmap()
	for _, e := range list {
		if strings.Contains(e, "/") {
			p, err := netip.ParsePrefix(e)
			if err != nil {
				continue // malformed entry: ignored
			}
			pa := p.Addr()
			bits := p.Bits()
			if pa.Is4In6() {
				if bits < 96 {
					judged = false
					continue
				}
				pa, bits = pa.Unmap(), bits-96
			}
			np, err := pa.Prefix(bits)
			if err != nil {
				continue
			}
			if np.Contains(a) {
				return true, judged
			}
			continue
		}
		if strings.Contains(e, "%") {
			continue
		}
		ea, err := netip.ParseAddr(e)
		if err != nil {
			continue
		}
		if ea.Unmap() == a {
			return true, judged
		}
	}
	return false, judged
}

func v4(u uint32) netip.Addr {
	var b [4]byte
	binary.BigEndian.PutUint32(b[:], u)
	return netip.AddrFrom4(b)
}

func v6(hi, lo uint64) netip.Addr {
	var b [16]byte
	binary.BigEndian.PutUint64(b[:8], hi)
	binary.BigEndian.PutUint64(b[8:], lo)
	return netip.AddrFrom16(b)
}

func fmtAddr(t *rapid.T, a netip.Addr) string {
	if a.Is4() {
		switch rapid.IntRange(0, 3).Draw(t, "form") {
		case 0:
			return "::ffff:" + a.String()
		case 1:
			b := a.As4()
			return fmt.Sprintf("::ffff:%02x%02x:%02x%02x", b[0], b[1], b[2], b[3])
		}
	}
	return a.String()
}

var c09Malformed = []string{"", "1.2.3", "1.2.3.4.5", "256.1.1.1", "01.2.3.4", "1.2.3.4 ", "::g", "1.2.3.4/33", "10.0.0.0/-1", "abc", "10.0.0.0/8/8", "::1/129", "fe80::1%eth0", "1.2.3.4:80", "[::1]", "0x7f.0.0.1", "127.1"}

func genC09(t *rapid.T) c09Case {
	c := c09Case{Secure: rapid.Bool().Draw(t, "secure")}
	var cands []string
	n := rapid.IntRange(0, 4).Draw(t, "nlist")
	for i := 0; i < n; i++ {
		switch rapid.IntRange(0, 7).Draw(t, "ekind") {
		case 0: // single v4
			a := v4(rapid.Uint32().Draw(t, "a4"))
			c.List = append(c.List, fmtAddr(t, a))
			cands = append(cands, a.String(), v4(binary.BigEndian.Uint32(func() []byte { b := a.As4(); return b[:] }())+1).String())
		case 1: // single v6
			a := v6(rapid.Uint64().Draw(t, "hi"), rapid.Uint64().Draw(t, "lo"))
			c.List = append(c.List, a.String())
			cands = append(cands, a.String(), a.Next().String())
		case 2, 3, 4: // v4 CIDR, every prefix length
			bits := rapid.IntRange(0, 32).Draw(t, "bits4")
			base := rapid.Uint32().Draw(t, "base4")
			var mask uint32
			if bits > 0 {
				mask = ^uint32(0) << (32 - bits)
			}
			net := base & mask
			last := net | ^mask
			host := base
			if rapid.Bool().Draw(t, "masked") {
				host = net
			}
			entry := fmt.Sprintf("%s/%d", v4(host), bits)
			if rapid.IntRange(0, 5).Draw(t, "mappedcidr") == 0 {
				entry = fmt.Sprintf("::ffff:%s/%d", v4(host), 96+bits)
			}
			c.List = append(c.List, entry)
			cands = append(cands, v4(net-1).String(), v4(net).String(), v4(last).String(), v4(last+1).String(), v4(net|(rapid.Uint32().Draw(t, "in4")&^mask)).String())
		case 5, 6: // v6 CIDR
			bits := rapid.IntRange(0, 128).Draw(t, "bits6")
			hi, lo := rapid.Uint64().Draw(t, "bhi"), rapid.Uint64().Draw(t, "blo")
			p, _ := v6(hi, lo).Prefix(bits)
			entry := fmt.Sprintf("%s/%d", v6(hi, lo), bits)
			c.List = append(c.List, entry)
			first := p.Addr()
			cands = append(cands, first.String(), first.Prev().String(), v6(hi, lo).String())
			// last address of the prefix
			b := first.As16()
			for i := bits; i < 128; i++ {
				b[i/8] |= 1 << (7 - i%8)
			}
			la := netip.AddrFrom16(b)
			cands = append(cands, la.String(), la.Next().String())
		default:
			c.List = append(c.List, rapid.SampledFrom(c09Malformed).Draw(t, "badentry"))
		}
	}
	np := rapid.IntRange(4, 16).Draw(t, "nprobes")
	for i := 0; i < np; i++ {
		p := c09Probe{Port: pick(t, "port", 0, 1, 1023, 1024, 1025, 65535, 700), Prog: pick(t, "prog", uint32(nfsx.ProgNFS), uint32(nfsx.ProgNFS), uint32(nfsx.ProgMount), 100000, 12345),
			Proc: uint32(rapid.IntRange(0, 22).Draw(t, "proc"))}
		k := rapid.IntRange(0, 9).Draw(t, "ipkind")
		switch {
		case k < 6 && len(cands) > 0:
			p.IP = rapid.SampledFrom(cands).Draw(t, "cand")
			if a, err := netip.ParseAddr(p.IP); err == nil && a.Is4() {
				p.IP = fmtAddr(t, a)
			}
		case k < 8:
			p.IP = fmtAddr(t, v4(rapid.Uint32().Draw(t, "rnd4")))
		case k == 8:
			p.IP = v6(rapid.Uint64().Draw(t, "rhi"), rapid.Uint64().Draw(t, "rlo")).String()
		default:
			p.IP = rapid.SampledFrom(c09Malformed).Draw(t, "badip")
		}
		c.Probes = append(c.Probes, p)
	}
	c.Drain = rapid.IntRange(0, 5).Draw(t, "drain") == 0
	return c
}

func runC09(tb stat.TB, c c09Case) {
	const id, check = "C09", "TestC09"
	v := vfs.New()
	v.SeedFile("/f", 0644, 0, 0, []byte("x"))
	if c.Drain && len(c.List) > 0 {
		c.List = append(append([]string{}, c.List...), c09Vantage)
	}
	s := newSession(tb, v, absnfs.ExportOptions{AllowedIPs: c.List, Secure: c.Secure, AttrCacheTimeout: 1, AttrCacheSize: 2, Timeouts: drv.FastTimeouts(10 * time.Second)})
	defer s.close()
	draining := false
	if c.Drain {
		vantage := drv.Client{IP: c09Vantage, Port: 700, Cred: nfsx.AuthSys(1, "h", 0, 0, nil)}
		release, ok := startDrain(tb, s, v, vantage, absnfs.PolicyOptions{AllowedIPs: c.List, Secure: c.Secure})
		if !ok {
			stat.Inconclusive("C09: drain state could not be established")
			stat.Discard(false)
			return
		}
		defer release()
		draining = true
	}
	// handle of the root obtained from an always-allowed vantage point: the table is filled directly
	rootH := s.e.NFS.VerifFileMap()
	_ = rootH
	policy := &absnfs.PolicyOptions{AllowedIPs: c.List, Secure: c.Secure}
	nt := false
	v.SetRecording(true)
	for i, p := range c.Probes {
		want, judged := oracleAllowed(p.IP, c.List)
		if len(c.List) == 0 {
			want, judged = true, true
		}
		// (1) auth filter through the public ValidateAuthentication (port 1 keeps the Secure rule out of this comparison)
		ar := absnfs.ValidateAuthentication(&absnfs.AuthContext{ClientIP: p.IP, ClientPort: 1, Credential: &absnfs.RPCCredential{Flavor: 0}}, policy)
		// (2) accept-time filter
		sr := s.e.Srv.VerifIsIPAllowed(p.IP)
		what := fmt.Sprintf("probe#%d client %q against %q", i, p.IP, c.List)
		if ar.Allowed != sr {
			if stat.Violate(tb, id, check, "request-filter-and-accept-filter-disagree", c, "%s: ValidateAuthentication allowed=%v, connection-level filter allowed=%v", what, ar.Allowed, sr) {
				return
			}
		}
		if judged && ar.Allowed != want {
			sig := "filter-rejects-listed-address"
			if ar.Allowed {
				sig = "filter-admits-unlisted-address"
			}
			if stat.Violate(tb, id, check, sig, c, "%s: filter allowed=%v, membership on address bits says %v", what, ar.Allowed, want) {
				return
			}
		}
		if !judged && ar.Allowed && !want {
			if stat.Violate(tb, id, check, "filter-admits-unlisted-address", c, "%s: filter allowed an address no entry covers", what) {
				return
			}
		}
		// (3) the gate: a full request
		v.ResetCalls()
		cl := drv.Client{IP: p.IP, Port: p.Port, Cred: nfsx.AuthSys(1, "h", 0, 0, nil)}
		args := nfsx.ArgsFh(nfsx.Fh8(1))
		if p.Prog == nfsx.ProgMount {
			args = (&nfsx.W{}).Str("/").B
		}
		rp, err := s.e.Call(cl, p.Prog, 3, p.Proc, args)
		if err != nil {
			if drv.IsMalformed(err) {
				stat.Discard(true)
				return
			}
			tb.Fatalf("harness: %v", err)
		}
		mustDeny := !ar.Allowed || (c.Secure && p.Port >= 1024)
		if judged && !want {
			mustDeny = true
		}
		if mustDeny {
			if rp.Stat != nfsx.MsgDenied {
				if stat.Violate(tb, id, check, "rejected-client-not-denied", c, "%s port %d secure=%v prog %d proc %d: reply_stat=%d, want MSG_DENIED", what, p.Port, c.Secure, p.Prog, p.Proc, rp.Stat) {
					return
				}
			}
			if n := v.NumCalls(); n > 0 {
				if stat.Violate(tb, id, check, "rejected-client-reaches-backend", c, "%s port %d: %d backend call(s), first %s", what, p.Port, n, v.Calls()[0]) {
					return
				}
			}
		} else if rp.Stat == nfsx.MsgDenied {
			if stat.Violate(tb, id, check, "admitted-client-denied", c, "%s port %d secure=%v: MSG_DENIED although the address is listed and the port rule is met", what, p.Port, c.Secure) {
				return
			}
		}
		if len(c.List) > 0 {
			for _, e := range c.List {
				if strings.Contains(e, "/") || strings.Contains(p.IP, "::ffff:") {
					nt = true
				}
			}
		}
	}
	if draining {
		stat.Case(c, nt, "gate_probed_during_policy_drain")
	} else {
		stat.Case(c, nt)
	}
	stat.Label("decisions", int64(len(c.Probes)))
}

var propC09 = defProp("C09", "TestC09", genC09, runC09)

func TestC09(t *testing.T) { propC09.Test(t) }

// ------------------------------------------------------------------ connection histories
//
// The same gate, judged per request on long-lived connections through the
// connection loop while the allow-list and the Secure flag are replaced at
// runtime: every request is judged against the list in force when it is sent.

type c09Step struct {
	Kind   string `json:"kind"` // open req update
	Conn   int    `json:"conn"`
	IP     string `json:"ip,omitempty"`
	Port   int    `json:"port,omitempty"`
	List   int    `json:"list"`
	Secure bool   `json:"secure,omitempty"`
	Via    string `json:"via,omitempty"` // policy export
	Proc   uint32 `json:"proc,omitempty"`
}

type c09ConnCase struct {
	Lists [][]string `json:"lists"`
	Steps []c09Step  `json:"steps"`
}

func genC09Conn(t *rapid.T) c09ConnCase {
	var c c09ConnCase
	var pool []string
	for i := 0; i < 3; i++ {
		sub := genC09(t)
		if i == 0 && len(sub.List) == 0 {
			sub.List = []string{"10.1.0.0/16"}
			pool = append(pool, "10.1.2.3", "10.2.0.1")
		}
		c.Lists = append(c.Lists, sub.List)
		for _, p := range sub.Probes {
			if a, err := netip.ParseAddr(p.IP); err == nil && a.Zone() == "" {
				pool = append(pool, p.IP)
			}
		}
	}
	if len(pool) == 0 {
		pool = []string{"10.1.2.3"}
	}
	n := rapid.IntRange(4, 24).Draw(t, "nsteps")
	c.Steps = append(c.Steps, c09Step{Kind: "open", IP: rapid.SampledFrom(pool).Draw(t, "ip0"), Port: 700})
	for i := 0; i < n; i++ {
		st := c09Step{Kind: pick(t, "kind", "open", "req", "req", "req", "update")}
		switch st.Kind {
		case "open":
			st.IP = rapid.SampledFrom(pool).Draw(t, "ip")
			st.Port = pick(t, "port", 1, 700, 1023, 1024, 40000)
		case "req":
			st.Conn = rapid.IntRange(0, 7).Draw(t, "conn")
			st.Proc = pick(t, "proc", uint32(nfsx.ProcGetattr), nfsx.ProcNull, nfsx.ProcLookup, nfsx.ProcFsinfo)
		case "update":
			st.List = rapid.IntRange(0, len(c.Lists)-1).Draw(t, "list")
			st.Secure = rapid.IntRange(0, 3).Draw(t, "secure") == 0
			st.Via = pick(t, "via", "policy", "export")
		}
		c.Steps = append(c.Steps, st)
	}
	return c
}

func runC09Conn(tb stat.TB, c c09ConnCase) {
	const id, check = "C09", "TestC09Conn"
	v := vfs.New()
	v.SeedFile("/f", 0644, 0, 0, []byte("x"))
	list, secure := c.Lists[0], false
	s := newSession(tb, v, absnfs.ExportOptions{AttrCacheTimeout: 1, AttrCacheSize: 2})
	defer s.close()
	root := s.e.MustMount(tb) // mounted before any list is in force
	if err := s.e.NFS.UpdatePolicyOptions(absnfs.PolicyOptions{AllowedIPs: list}); err != nil {
		tb.Fatalf("harness: %v", err)
	}
	type conn struct {
		pc   *drv.PipeConn
		ip   string
		port int
		dead bool
	}
	var conns []*conn
	defer func() {
		for _, k := range conns {
			k.pc.Close()
		}
	}()
	v.SetRecording(true)
	updatesUnderOpen, deniedAfterUpdate := 0, 0
	for i, st := range c.Steps {
		switch st.Kind {
		case "open":
			if len(conns) >= 8 {
				continue
			}
			conns = append(conns, &conn{pc: s.e.Pipe(st.IP, st.Port), ip: st.IP, port: st.Port})
		case "update":
			nl := c.Lists[st.List]
			var err error
			if st.Via == "export" {
				o := s.e.NFS.GetExportOptions()
				o.AllowedIPs, o.Secure = nl, st.Secure
				err = s.e.NFS.UpdateExportOptions(o)
			} else {
				err = s.e.NFS.UpdatePolicyOptions(absnfs.PolicyOptions{AllowedIPs: nl, Secure: st.Secure})
			}
			if err != nil {
				tb.Fatalf("harness: update: %v", err)
			}
			list, secure = nl, st.Secure
			if len(conns) > 0 {
				updatesUnderOpen++
			}
		case "req":
			if len(conns) == 0 {
				continue
			}
			k := conns[st.Conn%len(conns)]
			if k.dead {
				continue
			}
			want, judged := oracleAllowed(k.ip, list)
			if len(list) == 0 {
				want, judged = true, true
			}
			args := nfsx.ArgsFh(root)
			switch st.Proc {
			case nfsx.ProcNull:
				args = nil
			case nfsx.ProcLookup:
				args = nfsx.ArgsDirop(root, "f")
			}
			xid := s.e.NextXid()
			v.ResetCalls()
			if err := k.pc.Send(nfsx.Call(xid, nfsx.ProgNFS, 3, st.Proc, nfsx.AuthSys(1, "h", 0, 0, nil), nfsx.AuthNone(), args)); err != nil {
				k.dead = true
				continue
			}
			rec, err := k.pc.Recv(5 * time.Second)
			if err != nil {
				// the server may drop a refused client's connection instead of answering
				k.dead = true
				if n := v.NumCalls(); n > 0 && judged && !want {
					if stat.Violate(tb, id, check, "rejected-client-reaches-backend", c, "step#%d request on the connection from %s:%d under list %q: no reply, but %d backend call(s), first %s", i, k.ip, k.port, list, n, v.Calls()[0]) {
						return
					}
				}
				continue
			}
			rp, perr := nfsx.ParseReply(rec)
			if perr != nil || rp.Xid != xid {
				stat.Discard(true)
				return
			}
			what := fmt.Sprintf("step#%d proc %d on the connection opened from %s:%d, list in force %q secure=%v", i, st.Proc, k.ip, k.port, list, secure)
			mustDeny := judged && !want || secure && k.port >= 1024
			mustServe := judged && want && !(secure && k.port >= 1024)
			if mustDeny {
				if updatesUnderOpen > 0 {
					deniedAfterUpdate++
				}
				if rp.Stat != nfsx.MsgDenied {
					if stat.Violate(tb, id, check, "rejected-client-not-denied", c, "%s: reply_stat=%d, want MSG_DENIED", what, rp.Stat) {
						return
					}
				}
				if n := v.NumCalls(); n > 0 {
					if stat.Violate(tb, id, check, "rejected-client-reaches-backend", c, "%s: %d backend call(s), first %s", what, n, v.Calls()[0]) {
						return
					}
				}
			} else if mustServe && rp.Stat == nfsx.MsgDenied {
				if stat.Violate(tb, id, check, "admitted-client-denied", c, "%s: MSG_DENIED although the address is listed and the port rule is met", what) {
					return
				}
			}
		}
	}
	stat.Case(c, deniedAfterUpdate > 0, fmt.Sprintf("updates_under_open_conn_%v", updatesUnderOpen > 0))
}

var propC09Conn = defProp("C09", "TestC09Conn", genC09Conn, runC09Conn)

func TestC09Conn(t *testing.T) { propC09Conn.Test(t) }
