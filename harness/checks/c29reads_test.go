package checks

// C29, concurrent reads and concurrent creates.
//
// TestC29Reads: files with distinct contents are read by several clients at once (plus one client that keeps writing
// to a file of its own). Nothing that is read changes, so every serial order gives each READ the same answer: the
// file's bytes at that range. A reply carrying anything else reflects a state the object was never in.
//
// TestC03Concurrent (property C03): several clients send a GUARDED CREATE of the same new name at once. In every serial
// order exactly one of them finds the name free; the others must be refused with NFS3ERR_EXIST. The file belongs to
// the one creator: data it writes through its handle right away is what the file holds afterwards.

import (
	"bytes"
	"fmt"
	"runtime"
	"sync"
	"sync/atomic"
	"testing"

	"github.com/absfs/absnfs"
	"pgregory.net/rapid"

	"verif/harness/drv"
	"verif/harness/nfsx"
	"verif/harness/stat"
	"verif/harness/vfs"
)

type c29rCase struct {
	Sizes    []int    `json:"sizes"` // one file per entry
	Clients  int      `json:"clients"`
	Reads    int      `json:"reads"` // per client
	Plan     []uint32 `json:"plan"`  // per read: file, offset and count are derived from these words
	Transfer int      `json:"transfer"`
	Conn     bool     `json:"conn"`
	Writer   bool     `json:"writer"`
}

func genC29r(t *rapid.T) c29rCase {
	c := c29rCase{Clients: rapid.IntRange(2, 6).Draw(t, "clients"), Reads: rapid.IntRange(5, 40).Draw(t, "reads"), Transfer: pick(t, "transfer", 512, 65536), Conn: rapid.Bool().Draw(t, "conn"), Writer: rapid.Bool().Draw(t, "writer")}
	n := rapid.IntRange(2, 5).Draw(t, "files")
	for i := 0; i < n; i++ {
		c.Sizes = append(c.Sizes, pick(t, "size", 1, 100, 4096, 5000, 20000, 70000))
	}
	c.Plan = rapid.SliceOfN(rapid.Uint32(), 8, 32).Draw(t, "plan")
	return c
}

func c29rContent(i, size int) []byte {
	b := make([]byte, size)
	for k := range b {
		b[k] = byte(31*i + 7*k + k>>8 + 1)
	}
	return b
}

func runC29r(tb stat.TB, c c29rCase) {
	const id, check = "C29", "TestC29Reads"
	v := vfs.New()
	contents := make([][]byte, len(c.Sizes))
	for i, sz := range c.Sizes {
		contents[i] = c29rContent(i, sz)
		v.SeedFile(fmt.Sprintf("/r%d", i), 0644, 0, 0, contents[i])
	}
	v.SeedFile("/w", 0644, 0, 0, nil)
	s := newSession(tb, v, absnfs.ExportOptions{TransferSize: c.Transfer, AttrCacheTimeout: 1, AttrCacheSize: 4, MaxWorkers: 4})
	defer s.close()
	s.e.ViaConn = c.Conn
	var viol atomic.Value
	var total, nontrivial atomic.Int64
	abandoned := guard(func() {
		root := s.mount()
		fhs := make([][]byte, len(c.Sizes))
		for i := range c.Sizes {
			r := s.nfs(nfsx.ProcLookup, nfsx.ArgsDirop(root, fmt.Sprintf("r%d", i)))
			if r.Status != nfsx.OK {
				tb.Fatalf("harness: lookup r%d", i)
			}
			fhs[i] = r.Fh
		}
		wr := s.nfs(nfsx.ProcLookup, nfsx.ArgsDirop(root, "w"))
		var wg sync.WaitGroup
		start := make(chan struct{})
		var stop atomic.Bool
		for ci := 0; ci < c.Clients; ci++ {
			wg.Add(1)
			go func(ci int) {
				defer wg.Done()
				defer func() { recover() }()
				// each client is its own machine: its own connection when the case runs over connections
				cl := drv.Client{IP: fmt.Sprintf("10.2.0.%d", ci+1), Port: 700, Cred: nfsx.AuthSys(1, "h", uint32(1000+ci), 100, nil)}
				<-start
				for k := 0; k < c.Reads && !stop.Load(); k++ {
					w := c.Plan[(ci*7+k)%len(c.Plan)] + uint32(k*2654435761)
					fi := int(w % uint32(len(c.Sizes)))
					size := c.Sizes[fi]
					off := int(w>>8) % (size + 10)
					cnt := []int{1, 7, 100, 512, 4096, 65536, size}[int(w>>4)%7]
					res := s.nfsAs(cl, nfsx.ProcRead, nfsx.ArgsRead(fhs[fi], uint64(off), uint32(cnt)))
					if res.Status != nfsx.OK {
						viol.CompareAndSwap(nil, fmt.Sprintf("client %d: READ r%d off=%d count=%d replied %s", ci, fi, off, cnt, statusName(res.Status)))
						stop.Store(true)
						return
					}
					total.Add(1)
					var want []byte
					if off < size {
						end := off + cnt
						if end > off+c.Transfer {
							end = off + c.Transfer
						}
						if end > size {
							end = size
						}
						want = contents[fi][off:end]
					}
					if len(want) > 0 {
						nontrivial.Add(1)
					}
					if !bytes.Equal(res.Data, want) {
						k := 0
						for k < len(want) && k < len(res.Data) && want[k] == res.Data[k] {
							k++
						}
						viol.CompareAndSwap(nil, fmt.Sprintf("client %d: READ r%d off=%d count=%d returned %d bytes that differ from the file at byte %d of the reply (file never changes; %d bytes expected)", ci, fi, off, cnt, len(res.Data), k, len(want)))
						stop.Store(true)
						return
					}
				}
			}(ci)
		}
		if c.Writer && wr.Status == nfsx.OK {
			wg.Add(1)
			go func() {
				defer wg.Done()
				defer func() { recover() }()
				cl := drv.Client{IP: "10.2.0.99", Port: 700, Cred: nfsx.AuthSys(1, "h", 0, 0, nil)}
				<-start
				for k := 0; k < c.Reads && !stop.Load(); k++ {
					p := bytes.Repeat([]byte{byte(0xE0 + k%16)}, 300+k)
					s.nfsAs(cl, nfsx.ProcWrite, nfsx.ArgsWrite(wr.Fh, uint64(k*10), uint32(len(p)), nfsx.FileSync, p))
					s.nfsAs(cl, nfsx.ProcRead, nfsx.ArgsRead(wr.Fh, 0, 4096))
				}
			}()
		}
		close(start)
		wg.Wait()
	})
	if abandoned {
		return
	}
	if m := viol.Load(); m != nil {
		stat.Violate(tb, id, check, "concurrent-read-returns-bytes-the-file-never-held", c, "%s", m.(string))
		return
	}
	stat.Label("reads_judged", total.Load())
	stat.Case(c, nontrivial.Load() > int64(c.Clients))
}

var propC29r = defProp("C29", "TestC29Reads", genC29r, runC29r)

func TestC29Reads(t *testing.T) { propC29r.Test(t) }

// ------------------------------------------------------------------ C03: concurrent creates of one name

type c03cCase struct {
	Clients int      `json:"clients"`
	Names   int      `json:"names"`
	Cache   cacheCfg `json:"cache"`
	Jitter  bool     `json:"jitter"` // the backend yields inside OpenFile, widening the window between lookup and create
}

func genC03c(t *rapid.T) c03cCase {
	return c03cCase{Clients: rapid.IntRange(2, 6).Draw(t, "clients"), Names: rapid.IntRange(1, 6).Draw(t, "names"), Jitter: rapid.Bool().Draw(t, "jitter"),
		Cache: cacheCfg{AttrTTLns: pick(t, "ttl", int64(1), int64(3600e9)), AttrSize: pick(t, "asize", 1, 10000), DirCache: rapid.Bool().Draw(t, "dc"), Negative: rapid.Bool().Draw(t, "neg"), Conn: rapid.Bool().Draw(t, "conn")}}
}

func runC03c(tb stat.TB, c c03cCase) {
	const id, check = "C03", "TestC03Concurrent"
	v := vfs.New()
	opts := newOpts(c.Cache)
	opts.MaxWorkers = 4
	s := newSession(tb, v, opts)
	defer s.close()
	s.e.ViaConn = c.Cache.Conn
	if c.Jitter {
		var n atomic.Int64
		v.SetBefore(func(call *vfs.Call) {
			if call.Op == "OpenFile" || call.Op == "Lstat" {
				if n.Add(1)%2 == 0 {
					for i := 0; i < 20; i++ {
						runtime.Gosched()
					}
				}
			}
		})
	}
	var msg, sig string
	abandoned := guard(func() {
		root := s.mount()
		if c.Cache.Negative {
			for k := 0; k < c.Names; k++ {
				s.nfs(nfsx.ProcLookup, nfsx.ArgsDirop(root, fmt.Sprintf("n%d", k))) // a negative entry to race with
			}
		}
		for k := 0; k < c.Names && msg == ""; k++ {
			name := fmt.Sprintf("n%d", k)
			results := make([]*nfsx.Res, c.Clients)
			var wg sync.WaitGroup
			start := make(chan struct{})
			for ci := 0; ci < c.Clients; ci++ {
				wg.Add(1)
				go func(ci int) {
					defer wg.Done()
					defer func() { recover() }()
					cl := drv.Client{IP: fmt.Sprintf("10.3.0.%d", ci+1), Port: 700, Cred: nfsx.AuthSys(1, "h", 0, 0, nil)}
					<-start
					r := s.nfsAs(cl, nfsx.ProcCreate, nfsx.ArgsCreate(root, name, nfsx.Guarded, nfsx.Sattr{}, [8]byte{}))
					if r.Status == nfsx.OK && len(r.Fh) > 0 {
						p := bytes.Repeat([]byte{byte(0x41 + ci)}, 10)
						s.nfsAs(cl, nfsx.ProcWrite, nfsx.ArgsWrite(r.Fh, 0, 10, nfsx.FileSync, p))
					}
					results[ci] = r
				}(ci)
			}
			close(start)
			wg.Wait()
			oks, others := []int{}, 0
			for ci, r := range results {
				switch {
				case r == nil:
					return // abandoned request: the case is not judged
				case r.Status == nfsx.OK:
					oks = append(oks, ci)
				case r.Status != nfsx.ErrExist:
					others++
				}
			}
			if len(oks) > 1 {
				sig, msg = "concurrent-guarded-creates-both-succeed", fmt.Sprintf("%d clients sent GUARDED CREATE of the new name %q at once; clients %v were all answered NFS3_OK (in every serial order all but one find the name taken)", c.Clients, name, oks)
				return
			}
			if len(oks) == 0 && others == 0 {
				sig, msg = "concurrent-guarded-creates-all-refused", fmt.Sprintf("%d clients sent GUARDED CREATE of the new name %q at once; every one was answered NFS3ERR_EXIST", c.Clients, name)
				return
			}
			if len(oks) == 1 {
				got, _, _ := v.PeekRead("/"+name, 0, 64)
				want := bytes.Repeat([]byte{byte(0x41 + oks[0])}, 10)
				if !bytes.Equal(got, want) {
					sig, msg = "created-file-does-not-hold-its-creators-data", fmt.Sprintf("client %d was the one creator of %q and wrote %q through the returned handle; the file holds %q", oks[0], name, want, got)
					return
				}
			}
		}
	})
	v.SetBefore(nil)
	if abandoned {
		return
	}
	if msg != "" {
		stat.Violate(tb, id, check, sig, c, "%s", msg)
		return
	}
	stat.Case(c, true)
}

var propC03c = defProp("C03", "TestC03Concurrent", genC03c, runC03c)

func TestC03Concurrent(t *testing.T) { propC03c.Test(t) }
