package checks

// C04 Reported attributes are consistent across procedures and with the backend.
//
// Generator: C02-style histories plus WRITE, READ, ACCESS and SETATTR with any
// 32-bit mode word, over trees pre-seeded with files, directories and symlinks
// (dangling ones too), under every cache setting.
// Oracle: every fattr3 / wcc_attr / READDIR fileid in every reply is attributed
// to the object it describes; a ghost table per (object, path) pins the first
// ftype3 and fileid; each sighting is compared with the backend's lstat.

import (
	"fmt"
	"path"
	"testing"

	"pgregory.net/rapid"

	"verif/harness/nfsx"
	"verif/harness/stat"
	"verif/harness/vfs"
)

type ghost struct {
	typ    uint32
	fileid uint64
	via    string
}

type attrOracle struct {
	ghosts     map[string]*ghost  // key "<model id>@<path>"
	procs      map[string]map[string]bool
	multiProc  bool
	afterChmod bool
	chmodDirs  map[string]bool
}

func newAttrOracle() *attrOracle {
	return &attrOracle{ghosts: map[string]*ghost{}, procs: map[string]map[string]bool{}, chmodDirs: map[string]bool{}}
}

type sighting struct {
	p    string
	a    *nfsx.Fattr
	via  string
	only bool // only the fileid is known (READDIR)
	fid  uint64
}

func (o *attrOracle) check(c *nsClient, op c02Op, res *nfsx.Res, entries []nfsx.Entry, preL map[string]vfs.Entry, mismatch bool) *nsViolation {
	var ss []sighting
	add := func(p string, a *nfsx.Fattr, via string) {
		if a != nil {
			ss = append(ss, sighting{p: p, a: a, via: via})
		}
	}
	obj := op.objPath()
	type pre struct {
		p string
		w *nfsx.WccAttr
	}
	var pres []pre
	wcc := func(p string, w *nfsx.Wcc, via string) {
		if w == nil {
			return
		}
		add(p, w.After, via+".wcc.after")
		if w.Before != nil {
			pres = append(pres, pre{p, w.Before})
		}
	}
	switch op.Kind {
	case "getattr":
		add(obj, res.Attr, "GETATTR")
	case "setattr":
		wcc(obj, res.Wcc, "SETATTR")
	case "lookup":
		add(obj, res.Attr, "LOOKUP.obj")
		add(op.Dir, res.DirAttr, "LOOKUP.dir")
	case "access":
		add(obj, res.Attr, "ACCESS")
	case "readlink":
		add(obj, res.Attr, "READLINK")
	case "read":
		add(obj, res.Attr, "READ")
	case "write":
		wcc(obj, res.Wcc, "WRITE")
	case "create", "mkdir", "symlink":
		add(obj, res.Attr, op.Kind+".obj")
		wcc(op.Dir, res.Wcc, op.Kind)
	case "remove", "rmdir":
		wcc(op.Dir, res.Wcc, op.Kind)
	case "rename":
		wcc(op.Dir, res.Wcc, "RENAME.from")
		wcc(op.Dir2, res.Wcc2, "RENAME.to")
	case "readdir", "readdirplus":
		add(op.Dir, res.DirAttr, op.Kind+".dir")
		for _, e := range entries {
			p := path.Join(op.Dir, e.Name)
			if e.Attr != nil {
				ss = append(ss, sighting{p: p, a: e.Attr, via: "READDIRPLUS.entry"})
				if e.Attr.Fileid != e.Fileid {
					return &nsViolation{"entry-fileid-differs-from-its-attributes", fmt.Sprintf("%s of %s: entry fileid %d but name_attributes.fileid %d", op.Kind, p, e.Fileid, e.Attr.Fileid)}
				}
			} else {
				ss = append(ss, sighting{p: p, only: true, fid: e.Fileid, via: op.Kind + ".fileid"})
			}
		}
	}
	if op.Kind == "setattr" && op.SetMode && res.Status == nfsx.OK {
		if n := c.m.get(obj); n != nil && n.kind == 'd' {
			o.chmodDirs[obj] = true
		}
	}
	for _, s := range ss {
		n := c.m.get(s.p)
		if n == nil {
			continue // the object no longer exists: stale replies are C02's business
		}
		ent, ok := c.v.PeekLstat(s.p)
		if !ok {
			continue
		}
		key := fmt.Sprintf("%d@%s", n.id, s.p)
		g := o.ghosts[key]
		fid := s.fid
		if !s.only {
			fid = s.a.Fileid
		}
		if g == nil {
			g = &ghost{fileid: fid, via: s.via}
			if !s.only {
				g.typ = s.a.Type
			}
			o.ghosts[key] = g
		} else {
			if fid != g.fileid {
				return &nsViolation{"fileid-changes:" + sigVia(s.via), fmt.Sprintf("%s reports fileid %d for %s, but %s reported %d for the same object at the same path", s.via, fid, s.p, g.via, g.fileid)}
			}
			if !s.only {
				if g.typ == 0 {
					g.typ = s.a.Type
				} else if s.a.Type != g.typ {
					return &nsViolation{"type-changes:" + sigVia(s.via), fmt.Sprintf("%s reports ftype3 %d for %s, but %s reported %d for the same object", s.via, s.a.Type, s.p, g.via, g.typ)}
				}
			}
		}
		if o.procs[key] == nil {
			o.procs[key] = map[string]bool{}
		}
		o.procs[key][sigVia(s.via)] = true
		if len(o.procs[key]) >= 2 {
			o.multiProc = true
		}
		if o.chmodDirs[s.p] {
			o.afterChmod = true
		}
		if s.only {
			continue
		}
		wantType := map[string]uint32{"file": nfsx.TypeReg, "dir": nfsx.TypeDir, "link": nfsx.TypeLnk}[ent.Type]
		if s.a.Type != wantType {
			sig := "type-disagrees-with-lstat:" + sigVia(s.via)
			if ent.Type == "link" {
				sig = "symlink-not-reported-as-link:" + sigVia(s.via)
			}
			return &nsViolation{sig, fmt.Sprintf("%s reports ftype3 %d for %s, backend lstat says %s", s.via, s.a.Type, s.p, ent.Type)}
		}
		if s.a.Mode&0777 != ent.Perm&0777 {
			return &nsViolation{"mode-disagrees-with-lstat:" + sigVia(s.via), fmt.Sprintf("%s reports mode %#o for %s, backend lstat says %#o", s.via, s.a.Mode, s.p, ent.Perm)}
		}
		if ent.Type != "dir" && int64(s.a.Size) != ent.Size {
			return &nsViolation{"size-disagrees-with-lstat:" + sigVia(s.via), fmt.Sprintf("%s reports size %d for %s, backend lstat says %d", s.via, s.a.Size, s.p, ent.Size)}
		}
	}
	for _, p := range pres {
		n := c.m.get(p.p)
		ent, ok := preL[p.p]
		if n == nil || !ok || ent.Type == "dir" {
			continue
		}
		if int64(p.w.Size) != ent.Size {
			return &nsViolation{"wcc-pre-size-disagrees-with-lstat", fmt.Sprintf("%s: pre-op wcc_attr size %d for %s, backend lstat before the request said %d", op.Kind, p.w.Size, p.p, ent.Size)}
		}
	}
	return nil
}

// sigVia reduces "READDIRPLUS.entry" etc. to the procedure part used in signatures.
func sigVia(v string) string {
	for i := 0; i < len(v); i++ {
		if v[i] == '.' {
			return v[:i]
		}
	}
	return v
}

type c04Case struct {
	Cache cacheCfg `json:"cache"`
	Seed  bool     `json:"seeded"`
	Ops   []c02Op  `json:"ops"`
}

var c04Kinds = []string{"lookup", "lookup", "create", "create", "mkdir", "symlink", "remove", "rmdir", "rename", "readdir", "readdirplus", "readdirplus", "getattr", "getattr", "readlink",
	"setattr", "setattr", "setattr", "write", "read", "access", "mntattr", "roundtrip"}

var c04Modes = []uint32{0, 0644, 0755, 0600, 0777, 04755, 02755, 01777, 07777, 040755, 020644, 010644, 0x4000 | 0700, 0x08000000, 0x08000000 | 0644, 0x80000000 | 0755, 0x00800000 | 0644, 0xFFFF7FFF, 0x7FFFFFFF, 1 << 9, 1 << 12}

func genC04(t *rapid.T) c04Case {
	c := c04Case{Seed: rapid.Bool().Draw(t, "seeded")}
	c.Cache = cacheCfg{AttrTTLns: pick(t, "ttl", int64(1), int64(3600e9)), AttrSize: pick(t, "asize", 2, 10000), DirCache: rapid.Bool().Draw(t, "dc"), Negative: rapid.Bool().Draw(t, "neg"), Conn: rapid.IntRange(0, 3).Draw(t, "conn") == 0, Verbose: rapid.IntRange(0, 5).Draw(t, "verbose") == 0, Limits: rapid.IntRange(0, 5).Draw(t, "limits") == 0}
	maxOps := 25
	if thorough() {
		maxOps = 40
	}
	// generate with a shadow model that starts from the seeded tree
	ops := genC02OpsFrom(t, maxOps, c04Kinds, c.Seed)
	for i := range ops {
		op := &ops[i]
		switch op.Kind {
		case "setattr":
			op.SetMode = rapid.IntRange(0, 9).Draw(t, "setmode") < 8
			if op.SetMode {
				if rapid.IntRange(0, 9).Draw(t, "rndmode") == 0 {
					op.Mode = rapid.Uint32().Draw(t, "mode")
				} else {
					op.Mode = rapid.SampledFrom(c04Modes).Draw(t, "mode")
				}
			}
			op.SetSize = rapid.IntRange(0, 9).Draw(t, "setsize") < 3
			op.Size = uint64(rapid.IntRange(0, 50).Draw(t, "size"))
			if op.SetSize && rapid.IntRange(0, 4).Draw(t, "hugesize") == 0 {
				op.Size = pick(t, "hsize", uint64(1)<<31, 1<<32-1, 1<<32, 1<<32+7, 1<<40+3, 1<<62)
			}
			op.Times = rapid.IntRange(0, 2).Draw(t, "times")
			if rapid.IntRange(0, 3).Draw(t, "ondir") == 0 {
				op.Name = ""
			}
		case "mkdir", "symlink":
			op.SetMode = rapid.IntRange(0, 2).Draw(t, "msetmode") == 0
			op.Mode = rapid.SampledFrom([]uint32{0700, 0755, 0, 0555}).Draw(t, "mmode")
		case "create":
			// CREATE with explicit attributes (size, mode) on new and existing names
			op.SetSize = rapid.IntRange(0, 2).Draw(t, "csetsize") == 0
			op.Size = uint64(rapid.IntRange(0, 40).Draw(t, "csize"))
			op.SetMode = rapid.IntRange(0, 2).Draw(t, "csetmode") == 0
			op.Mode = rapid.SampledFrom([]uint32{0600, 0644, 0, 0755}).Draw(t, "cmode")
		case "write":
			op.Off = uint64(rapid.IntRange(0, 30).Draw(t, "off"))
			if rapid.IntRange(0, 9).Draw(t, "hugeoff") == 0 {
				op.Off = pick(t, "hoff", uint64(1)<<32-3, 1<<32+1, 1<<41)
			}
			op.Len = rapid.IntRange(0, 20).Draw(t, "len")
		case "read":
			op.Off = uint64(rapid.IntRange(0, 30).Draw(t, "off"))
			op.Len = rapid.IntRange(0, 40).Draw(t, "len")
		case "access":
			if rapid.IntRange(0, 3).Draw(t, "ondir") == 0 {
				op.Name = ""
			}
		case "mntattr":
			op.Name = ""
			op.Len = rapid.IntRange(0, 6).Draw(t, "spelling")
		}
	}
	c.Ops = ops
	return c
}

// seedTree pre-populates backend and model identically.
func seedTree(v *vfs.FS, m *mtree) {
	v.SeedDir("/a", 0750, 5, 6)
	v.SeedFile("/a/b", 0640, 5, 6, []byte("seeded file content"))
	v.SeedSymlink("/c", "a/b", 5, 6)
	v.SeedSymlink("/a/c", "nowhere", 5, 6)
	a := m.mk('d', "")
	m.root.children["a"] = a
	a.children["b"] = m.mk('f', "")
	m.root.children["c"] = m.mk('l', "a/b")
	a.children["c"] = m.mk('l', "nowhere")
}

func runC04(tb stat.TB, c c04Case) {
	const id, check = "C04", "TestC04"
	v := vfs.New()
	var opts = newOpts(c.Cache)
	s := newSession(tb, v, opts)
	defer s.close()
	s.e.ViaConn = c.Cache.Conn
	var cl *nsClient
	known := false
	abandoned := guard(func() {
		cl = newNsClient(s, v)
		cl.lenient = true
		cl.attrs = newAttrOracle()
		if c.Seed {
			seedTree(v, cl.m)
		}
		for _, op := range c.Ops {
			if viol := cl.exec(op); viol != nil {
				if stat.Violate(tb, id, check, viol.sig, c, "[caches %+v seeded=%v] %s", c.Cache, c.Seed, viol.msg) {
					known = true
					return
				}
			}
		}
	})
	if abandoned {
		return
	}
	if known {
		stat.Case(c, false, "ended_at_known_finding")
		return
	}
	var ls []string
	if cl.attrs.multiProc {
		ls = append(ls, "object_seen_through_2_procedures")
	}
	if cl.attrs.afterChmod {
		ls = append(ls, "sighting_after_setattr_mode_on_dir")
	}
	if c.Cache.anyOn() {
		ls = append(ls, "cache_on")
	}
	stat.Case(c, cl.attrs.multiProc || cl.attrs.afterChmod, ls...)
}

var propC04 = defProp("C04", "TestC04", genC04, runC04)

func TestC04(t *testing.T) { propC04.Test(t) }
