package checks

// C15 Arbitrary client bytes cannot crash, desynchronise or exhaust the server.
//
// Generator: byte streams for the record-marking connection loop - valid calls
// for every program/procedure, mutated (truncation, bit flips, hostile length
// constants, fragment-header games, garbage) - by rapid and, in the thorough
// tier, by Go native fuzzing.
// Oracle: process survival (a panic in the request goroutine kills the test
// binary; the driver turns that into a violation), reply XIDs are an
// order-preserving duplicate-free subsequence of the decodable calls' XIDs,
// the connection is closed after an undecodable record, bounded allocation,
// and a fresh connection is still served afterwards.

import (
	"sync/atomic"
	"bytes"
	"encoding/binary"
	"errors"
	"fmt"
	"io"
	"net"
	"os"
	"runtime"
	"testing"
	"time"

	"github.com/absfs/absnfs"
	"pgregory.net/rapid"

	"verif/harness/drv"
	"verif/harness/nfsx"
	"verif/harness/stat"
	"verif/harness/vfs"
)

type c15Mut struct {
	Kind string `json:"kind"` // trunc flip const append aconst (Pos = index of the argument word to overwrite)
	Pos  int    `json:"pos"`
	Val  uint32 `json:"val"`
	Tail []byte `json:"tail,omitempty"`
}

type c15Rec struct {
	Garbage []byte   `json:"garbage,omitempty"` // raw record content instead of a call
	Req     c14Req   `json:"req"`
	Muts    []c15Mut `json:"muts,omitempty"`
	Frags   []int    `json:"frags,omitempty"`
	// framing games
	NoLast   bool   `json:"nolast,omitempty"`   // last-fragment flag missing on the final fragment
	LieLen   int    `json:"lielen,omitempty"`   // add to the declared length of the final fragment
	RawFrame uint32 `json:"rawframe,omitempty"` // if non-zero: a bare fragment header with this value follows the record
	// BigFrags: non-last fragments of that many KiB each (filler bytes) sent ahead of the record's own
	// fragments - each one within the record limit, their sum possibly far beyond it
	BigFrags []int `json:"bigfrags,omitempty"`
}

type c15Case struct {
	Recs []c15Rec `json:"recs"`
	Raw  []byte   `json:"raw,omitempty"` // fuzz target: the stream itself
	// Sentinel appends a NULL call (xid c15SentinelXid); its reply ends the read
	// loop at once instead of an idle wait (enumeration phase).
	Sentinel bool `json:"sentinel,omitempty"`
	// Chunks: the first 4 KiB of the stream reach the server in pieces of these sizes (cyclically), as TCP segments
	// may; empty = one write
	Chunks []int `json:"chunks,omitempty"`
	// ConnBurst > 0: rate limiting is on and a connection may issue this many calls at once (1 per second afterwards); the calls
	// beyond it are refused. A refusal is the one answer its call gets.
	ConnBurst int `json:"conn_burst,omitempty"`
}

const c15SentinelXid = 5999

var c15Hostile = []uint32{0, 1, 0x7FFFFFFF, 0x80000000, 0xFFFFFFFF, 1 << 26, 1 << 20, 1<<20 + 1, 8193, 401, 65}

func genC15(t *rapid.T) c15Case {
	var c c15Case
	n := rapid.IntRange(1, 8).Draw(t, "nrecs")
	for i := 0; i < n; i++ {
		var r c15Rec
		if rapid.IntRange(0, 9).Draw(t, "garbage") == 0 {
			r.Garbage = rapid.SliceOfN(rapid.Byte(), 0, 60).Draw(t, "g")
		} else {
			r.Req = c14Req{
				Prog: pick(t, "prog", uint32(nfsx.ProgNFS), nfsx.ProgNFS, nfsx.ProgNFS, nfsx.ProgMount, nfsx.ProgPmap, 7),
				Vers: pick(t, "vers", uint32(3), 3, 3, 1, 2, 4),
				Proc: uint32(rapid.IntRange(0, 23).Draw(t, "proc")),
				Var:  rapid.IntRange(0, 11).Draw(t, "var"), Shape: "ok",
			}
			if r.Req.Prog == nfsx.ProgMount {
				r.Req.Proc = uint32(rapid.IntRange(0, 6).Draw(t, "mproc"))
			}
			nm := rapid.IntRange(0, 3).Draw(t, "nmut")
			if rapid.Bool().Draw(t, "clean") {
				nm = 0
			}
			for j := 0; j < nm; j++ {
				m := c15Mut{Kind: pick(t, "mkind", "trunc", "flip", "const", "aconst", "aconst", "aconstall", "append"), Pos: rapid.IntRange(0, 200).Draw(t, "pos")}
				m.Val = rapid.SampledFrom(c15Hostile).Draw(t, "val")
				if m.Kind == "aconst" || m.Kind == "aconstall" {
					m.Pos = rapid.IntRange(0, 15).Draw(t, "argword")
				}
				if m.Kind == "append" {
					m.Tail = rapid.SliceOfN(rapid.Byte(), 1, 40).Draw(t, "tail")
				}
				r.Muts = append(r.Muts, m)
			}
		}
		if rapid.IntRange(0, 3).Draw(t, "frag") == 0 {
			r.Frags = rapid.SliceOfN(rapid.IntRange(0, 30), 1, 5).Draw(t, "frags")
		}
		switch rapid.IntRange(0, 19).Draw(t, "game") {
		case 3:
			r.BigFrags = rapid.SliceOfN(rapid.SampledFrom([]int{1, 64, 256, 511, 512, 1023, 1024, 1024}), 1, 8).Draw(t, "bigfrags")
		case 0:
			r.NoLast = true
		case 1:
			r.LieLen = pick(t, "lie", 1, 4, -1, -4, 1000, 1<<20)
		case 2:
			r.RawFrame = rapid.SampledFrom(c15Hostile).Draw(t, "rawframe") | pick(t, "flag", uint32(0), 0x80000000)
		}
		c.Recs = append(c.Recs, r)
	}
	if rapid.IntRange(0, 2).Draw(t, "chunked") == 0 {
		c.Chunks = rapid.SliceOfN(rapid.IntRange(1, 9), 1, 6).Draw(t, "chunks")
	}
	if rapid.IntRange(0, 3).Draw(t, "limited") == 0 {
		c.ConnBurst = rapid.IntRange(1, 4).Draw(t, "connburst")
	}
	return c
}

// build renders the case into the byte stream and assigns XIDs.
func (c c15Case) build(h c14H) []byte {
	if c.Raw != nil {
		return c.Raw
	}
	var out []byte
	for i, r := range c.Recs {
		var rec []byte
		if r.Garbage != nil {
			rec = r.Garbage
		} else {
			cred := nfsx.AuthSys(1, "h", 0, 0, nil)
			args := c14Args(h, r.Req)
			rec = nfsx.Call(uint32(5000+i), r.Req.Prog, r.Req.Vers, r.Req.Proc, cred, nfsx.AuthNone(), args)
			argOff := len(rec) - len(args)
			for _, m := range r.Muts {
				switch m.Kind {
				case "aconst":
					if off := argOff + 4*m.Pos; off+4 <= len(rec) {
						binary.BigEndian.PutUint32(rec[off:], m.Val)
					}
				case "aconstall":
					// the hostile constant replaces the argument word and every later word that carried the same value
					// (a count and the length of the opaque it announces, for instance)
					if off := argOff + 4*m.Pos; off+4 <= len(rec) {
						orig := binary.BigEndian.Uint32(rec[off:])
						for o := off; o+4 <= len(rec); o += 4 {
							if binary.BigEndian.Uint32(rec[o:]) == orig {
								binary.BigEndian.PutUint32(rec[o:], m.Val)
							}
						}
					}
				case "trunc":
					if m.Pos < len(rec) {
						rec = rec[:m.Pos]
					}
				case "flip":
					if len(rec) > 0 {
						rec[m.Pos%len(rec)] ^= 1 << (m.Val % 8)
					}
				case "const":
					if len(rec) >= 4 {
						off := (m.Pos * 4) % (len(rec) - 3)
						off -= off % 4
						binary.BigEndian.PutUint32(rec[off:], m.Val)
					}
				case "append":
					rec = append(rec, m.Tail...)
				}
			}
		}
		framed := nfsx.Frame(rec, r.Frags...)
		if len(r.BigFrags) > 0 {
			var pre []byte
			for _, kib := range r.BigFrags {
				pre = binary.BigEndian.AppendUint32(pre, uint32(kib<<10)) // no last-fragment bit
				pre = append(pre, bytes.Repeat([]byte{0xAA}, kib<<10)...)
			}
			framed = append(pre, framed...)
		}
		if r.NoLast || r.LieLen != 0 {
			// locate the final fragment header
			off := 0
			for {
				hd := binary.BigEndian.Uint32(framed[off:])
				if hd&0x80000000 != 0 {
					break
				}
				off += 4 + int(hd)
			}
			hd := binary.BigEndian.Uint32(framed[off:])
			ln := int64(hd&0x7fffffff) + int64(r.LieLen)
			if ln < 0 {
				ln = 0
			}
			nh := uint32(ln) & 0x7fffffff
			if !r.NoLast {
				nh |= 0x80000000
			}
			binary.BigEndian.PutUint32(framed[off:], nh)
		}
		out = append(out, framed...)
		if r.RawFrame != 0 {
			out = binary.BigEndian.AppendUint32(out, r.RawFrame)
		}
	}
	if c.Sentinel {
		out = append(out, nfsx.Frame(nfsx.Call(c15SentinelXid, nfsx.ProgNFS, 3, 0, nfsx.AuthNone(), nfsx.AuthNone(), nil))...)
	}
	return out
}

type c15Ref struct {
	xids      []uint32 // XIDs of decodable calls, in order, up to the first undecodable record
	undecodable bool   // a complete record that is not a decodable call (or a framing violation) follows
	complete  bool     // the stream ends exactly at a record boundary
	records   int
	limitAt   int // > 0: stream offset just after the fragment header that takes a record over the 1 MiB limit
}

// refParse splits the stream the way a conformant record-marking server must.
func refParse(stream []byte) c15Ref {
	var ref c15Ref
	r := bytes.NewReader(stream)
	for r.Len() > 0 {
		var rec []byte
		for {
			var hd [4]byte
			if _, err := io.ReadFull(r, hd[:]); err != nil {
				return ref // stream ends inside a header: incomplete
			}
			h := binary.BigEndian.Uint32(hd[:])
			n := int(h & 0x7fffffff)
			if len(rec)+n > 1<<20 {
				ref.undecodable = true // over the documented record limit: must be refused
				ref.limitAt = len(stream) - r.Len()
				return ref
			}
			frag := make([]byte, n)
			if _, err := io.ReadFull(r, frag); err != nil {
				return ref // incomplete fragment
			}
			rec = append(rec, frag...)
			if h&0x80000000 != 0 {
				break
			}
		}
		ref.records++
		hdr, err := nfsx.ParseCall(rec)
		if err != nil {
			ref.undecodable = true
			return ref
		}
		ref.xids = append(ref.xids, hdr.Xid)
	}
	ref.complete = true
	return ref
}

func runC15(tb stat.TB, c c15Case) {
	const id, check = "C15", "TestC15"
	v := vfs.New()
	v.SeedFile("/f", 0644, 0, 0, []byte("file data"))
	v.SeedDir("/d", 0755, 0, 0)
	v.SeedFile("/d/child", 0644, 0, 0, []byte("c"))
	v.SeedSymlink("/l", "f", 0, 0)
	opts := absnfs.ExportOptions{AttrCacheTimeout: 1, AttrCacheSize: 4, Timeouts: drv.FastTimeouts(5 * time.Second)}
	if c.ConnBurst > 0 {
		opts.EnableRateLimiting = true
		rc := absnfs.DefaultRateLimiterConfig()
		rc.PerConnectionRequestsPerSecond, rc.PerConnectionBurstSize = 1, c.ConnBurst // rate 0 would switch the per-connection limit off
		opts.RateLimitConfig = &rc
	}
	s := newSession(tb, v, opts)
	defer s.close()
	var h c14H
	h.root = s.e.MustMount(tb)
	for n, p := range map[string]*[]byte{"f": &h.f, "d": &h.d, "l": &h.l} {
		r, err := s.e.NFS3(drv.Root(), nfsx.ProcLookup, nfsx.ArgsDirop(h.root, n))
		if err != nil || r.Status != nfsx.OK {
			tb.Fatalf("harness: setup lookup %s: %v", n, err)
		}
		*p = r.Fh
	}
	h.stale = nfsx.Fh8(987654)

	stream := c.build(h)
	ref := refParse(stream)
	var ms0, ms1 runtime.MemStats
	runtime.ReadMemStats(&ms0)

	pc := s.e.Pipe("10.9.8.7", 700)
	writeDone := make(chan error, 1)
	consumed := 0
	var writerFinished atomic.Bool
	go func() {
		defer writerFinished.Store(true)
		pc.C.SetWriteDeadline(time.Now().Add(8 * time.Second))
		off := 0
		for i := 0; len(c.Chunks) > 0 && off < len(stream) && off < 4096; i++ {
			k := c.Chunks[i%len(c.Chunks)]
			if off+k > len(stream) {
				k = len(stream) - off
			}
			n, err := pc.C.Write(stream[off : off+k])
			off += n
			if err != nil {
				consumed = off
				writeDone <- err
				return
			}
		}
		n, err := pc.C.Write(stream[off:])
		consumed = off + n
		writeDone <- err
	}()
	var got []uint32
	readStart := time.Now()
	closedByServer := false
	var malformed string
	want := len(ref.xids)
	for {
		d := 3 * time.Second
		if len(got) >= want && !ref.undecodable {
			d = 150 * time.Millisecond // everything expected has arrived: only watch for surplus replies
		}
		rec, err := pc.Recv(d)
		if err != nil {
			var ne net.Error
			if errors.Is(err, io.EOF) || errors.Is(err, io.ErrClosedPipe) || errors.Is(err, io.ErrUnexpectedEOF) {
				closedByServer = true
			} else if (errors.As(err, &ne) && ne.Timeout() || errors.Is(err, os.ErrDeadlineExceeded)) && !writerFinished.Load() && time.Since(readStart) < 90*time.Second {
				// nothing to read yet, but the server is still taking the stream in (a busy machine): keep waiting -
				// "idle" is only judged once the whole stream has been handed over
				continue
			} else if errors.As(err, &ne) && ne.Timeout() {
				// idle
			} else if errors.Is(err, os.ErrDeadlineExceeded) {
			} else {
				closedByServer = true
			}
			break
		}
		rp, perr := nfsx.ParseReply(rec)
		if perr != nil {
			if len(rec) >= 4 {
				got = append(got, binary.BigEndian.Uint32(rec))
			}
			malformed = perr.Error()
			continue
		}
		got = append(got, rp.Xid)
		if c.Sentinel && rp.Xid == c15SentinelXid {
			break
		}
	}
	// (read before the client end is closed: closing it makes a pending write fail)
	wroteAll := writerFinished.Load() && consumed == len(stream)
	pc.Close()
	select {
	case <-writeDone:
	case <-time.After(10 * time.Second):
		tb.Fatalf("harness: stream writer did not finish")
	}
	runtime.ReadMemStats(&ms1)
	_ = malformed

	what := fmt.Sprintf("stream of %d bytes (%d complete records, decodable xids %v, undecodable record follows=%v)", len(stream), ref.records, ref.xids, ref.undecodable)
	// (2) replies: order-preserving duplicate-free subsequence of the decodable calls
	j := 0
	for _, x := range got {
		for j < len(ref.xids) && ref.xids[j] != x {
			j++
		}
		if j == len(ref.xids) {
			if stat.Violate(tb, id, check, "reply-for-no-decodable-call-or-out-of-order", c, "%s: replies carried xids %v", what, got) {
				return
			}
			break
		}
		j++
	}
	// (3) an undecodable record closes the connection
	if ref.undecodable && !closedByServer && !wroteAll {
		// the server had not taken the whole stream in when the writer's deadline (8 s) passed: it may not have seen
		// the undecodable record yet (a busy machine); nothing to judge
		stat.Label("stream_not_taken_in_within_deadline", 1)
	} else if ref.undecodable && !closedByServer {
		if stat.Violate(tb, id, check, "connection-survives-undecodable-record", c, "%s: the server kept the connection open", what) {
			return
		}
	}
	// (3b) a record that goes over the limit is refused when the fragment header announcing it arrives: the
	// server does not go on reading (and buffering) it. The pipe is synchronous, so the number of bytes the
	// writer got rid of is the number the server read; one more maximal fragment of read-ahead is tolerated.
	if ref.limitAt > 0 && consumed > ref.limitAt+1<<20+64<<10 {
		if stat.Violate(tb, id, check, "record-over-limit-still-read", c, "%s: the record limit (1 MiB) is exceeded by the fragment header ending at offset %d, yet the server read %d bytes of the stream", what, ref.limitAt, consumed) {
			return
		}
	}
	// (4) bounded allocation
	grow := ms1.TotalAlloc - ms0.TotalAlloc
	bound := uint64(16*len(stream)) + uint64(ref.records+1)*(6*65536+64<<10) + 8<<20
	if grow > bound {
		if stat.Violate(tb, id, check, "allocation-exceeds-bound", c, "%s: %d bytes allocated (bound %d)", what, grow, bound) {
			return
		}
	}
	// (5a) the server can still be reconfigured: a policy update (to the policy already in force) waits for requests in
	// flight - there are none left once the stream has been dealt with - and returns. A request that never gave back
	// its share of the policy lock would keep every later update, and with it every later request, waiting for ever.
	{
		cur := s.e.NFS.GetExportOptions()
		upd := make(chan error, 1)
		go func() {
			upd <- s.e.NFS.UpdatePolicyOptions(absnfs.PolicyOptions{ReadOnly: cur.ReadOnly, Secure: cur.Secure, AllowedIPs: cur.AllowedIPs, Squash: cur.Squash, MaxFileSize: cur.MaxFileSize, EnableRateLimiting: cur.EnableRateLimiting, RateLimitConfig: cur.RateLimitConfig})
		}()
		select {
		case <-upd:
		case <-time.After(20 * time.Second):
			stat.Violate(tb, id, check, "policy-update-blocks-after-stream", c, "%s: UpdatePolicyOptions (same policy) had not returned 20 s after the connection was closed", what)
			return
		}
	}
	// (5) other connections are still served
	probe := s.e.Pipe("10.9.8.8", 701)
	xid := s.e.NextXid()
	ok := false
	if err := probe.Send(nfsx.Call(xid, nfsx.ProgNFS, 3, 0, nfsx.AuthNone(), nfsx.AuthNone(), nil)); err == nil {
		if rec, err := probe.Recv(5 * time.Second); err == nil {
			if rp, err := nfsx.ParseReply(rec); err == nil && rp.Xid == xid && rp.Stat == nfsx.MsgAccepted {
				ok = true
			}
		}
	}
	probe.Close()
	if !ok {
		if stat.Violate(tb, id, check, "server-stops-serving-after-stream", c, "%s: a fresh connection got no NULL reply afterwards", what) {
			return
		}
	}
	mutated := false
	for _, r := range c.Recs {
		if len(r.Muts) > 0 || r.Garbage != nil || r.NoLast || r.LieLen != 0 || r.RawFrame != 0 || len(r.BigFrags) > 0 {
			mutated = true
		}
	}
	var ls []string
	if ref.undecodable {
		ls = append(ls, "undecodable_record")
	}
	if len(got) > 0 {
		ls = append(ls, "got_replies")
	}
	if ref.limitAt > 0 {
		ls = append(ls, "record_over_limit_by_fragments")
	}
	if c.ConnBurst > 0 && len(ref.xids) > c.ConnBurst {
		ls = append(ls, "calls_beyond_connection_burst")
	}
	stat.Case(c, (len(ref.xids) > 0 && mutated) || c.Raw != nil, ls...)
}

var propC15 = defProp("C15", "TestC15", genC15, runC15)

func TestC15(t *testing.T) { propC15.Test(t) }

// c15Enumerate: every NFSv3 procedure x handle/name variant x every argument
// word x every hostile constant, one substitution per call, batched into
// streams that end in a sentinel NULL call.
func c15Enumerate() []c15Case {
	h := c14H{root: nfsx.Fh8(1), f: nfsx.Fh8(2), d: nfsx.Fh8(3), l: nfsx.Fh8(4), stale: nfsx.Fh8(99)}
	vals := []uint32{0x80000000, 0xFFFFFFFF, 0x7FFFFFFF, 0, 1 << 26, 65}
	var out []c15Case
	for proc := uint32(1); proc <= 21; proc++ {
		for va := 0; va < 6; va++ {
			req := c14Req{Prog: nfsx.ProgNFS, Vers: 3, Proc: proc, Var: va, Shape: "ok"}
			words := len(c14Args(h, req)) / 4
			if words > 24 {
				words = 24
			}
			c := c15Case{Sentinel: true}
			for w := 0; w < words; w++ {
				for _, val := range vals {
					c.Recs = append(c.Recs, c15Rec{Req: req, Muts: []c15Mut{{Kind: "aconst", Pos: w, Val: val}}})
					if val == 1<<26 || val == 0x7FFFFFFF {
						c.Recs = append(c.Recs, c15Rec{Req: req, Muts: []c15Mut{{Kind: "aconstall", Pos: w, Val: val}}})
					}
					if len(c.Recs) >= 24 {
						out = append(out, c)
						c = c15Case{Sentinel: true}
					}
				}
			}
			if len(c.Recs) > 0 {
				out = append(out, c)
			}
		}
	}
	return out
}

func TestC15Enum(t *testing.T) {
	stat.SetProperty("C15")
	stat.SetDisjoint(true)
	all := c15Enumerate()
	for i, c := range all {
		if i%nshards != shard {
			continue
		}
		stat.Begin(c)
		runC15(t, c)
	}
	stat.Extra("enumerated_streams", len(all))
}

func FuzzC15(f *testing.F) {
	stat.SetProperty("C15")
	h := c14H{root: nfsx.Fh8(1), f: nfsx.Fh8(2), d: nfsx.Fh8(3), l: nfsx.Fh8(4), stale: nfsx.Fh8(99)}
	for p := uint32(0); p < 22; p++ {
		f.Add(c15Case{Recs: []c15Rec{{Req: c14Req{Prog: nfsx.ProgNFS, Vers: 3, Proc: p, Var: int(p)}}}}.build(h))
	}
	f.Add(c15Case{Recs: []c15Rec{{Req: c14Req{Prog: nfsx.ProgMount, Vers: 3, Proc: 1}}, {Req: c14Req{Prog: nfsx.ProgNFS, Vers: 3, Proc: 7, Var: 2}}}}.build(h))
	for _, k := range c15Hostile {
		f.Add(binary.BigEndian.AppendUint32(nil, k))
		f.Add(append(binary.BigEndian.AppendUint32(nil, 0x80000028), (&nfsx.W{}).U32(1).U32(0).U32(2).U32(100003).U32(3).U32(1).U32(1).U32(k).U32(0).U32(0).B...))
	}
	f.Fuzz(func(t *testing.T, data []byte) {
		if len(data) > 1<<16 {
			return
		}
		runC15(t, c15Case{Raw: data})
	})
}
