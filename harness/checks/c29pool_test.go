package checks

// C29, "concurrent request streams complete without ... deadlocks", at the worker pool: requests arriving over
// connections are executed by MaxWorkers pool workers. Several clients (at least as many as workers) send a
// READDIRPLUS / READDIR / LOOKUP / GETATTR at the same moment over connections of their own, for a few rounds. The
// backend is fast, so every request is answered in milliseconds whatever the pool size; a round in which not one of
// the simultaneous requests is answered (no reply before the export's own 5 s request timeout, or the connection
// closed) is a starvation of the requests by each other. A round in which only some fail is put down to the machine.

import (
	"errors"
	"fmt"
	"sync"
	"testing"
	"time"

	"github.com/absfs/absnfs"
	"pgregory.net/rapid"

	"verif/harness/drv"
	"verif/harness/nfsx"
	"verif/harness/stat"
	"verif/harness/vfs"
)

type c29pCase struct {
	Workers int      `json:"workers"`
	Procs   []string `json:"procs"` // one per client
	Rounds  int      `json:"rounds"`
	Entries int      `json:"entries"`
}

func genC29p(t *rapid.T) c29pCase {
	c := c29pCase{Workers: rapid.IntRange(1, 3).Draw(t, "workers"), Rounds: rapid.IntRange(1, 4).Draw(t, "rounds"), Entries: pick(t, "entries", 1, 5, 40)}
	n := c.Workers + rapid.IntRange(0, 3).Draw(t, "extra")
	for i := 0; i < n; i++ {
		c.Procs = append(c.Procs, pick(t, "proc", "readdirplus", "readdirplus", "readdir", "lookup", "getattr"))
	}
	return c
}

func runC29p(tb stat.TB, c c29pCase) {
	const id, check = "C29", "TestC29Pool"
	v := vfs.New()
	v.SeedDir("/d", 0755, 0, 0)
	for i := 0; i < c.Entries; i++ {
		v.SeedFile(fmt.Sprintf("/d/e%02d", i), 0644, 0, 0, []byte("x"))
	}
	s := newSession(tb, v, absnfs.ExportOptions{AttrCacheTimeout: 1, AttrCacheSize: 4, MaxWorkers: c.Workers, Timeouts: drv.FastTimeouts(5 * time.Second)})
	defer s.close()
	var dfh []byte
	if guard(func() {
		root := s.mount()
		r := s.nfs(nfsx.ProcLookup, nfsx.ArgsDirop(root, "d"))
		if r.Status != nfsx.OK {
			tb.Fatalf("harness: lookup d: %s", statusName(r.Status))
		}
		dfh = r.Fh
	}) || dfh == nil {
		return
	}
	s.e.ViaConn = true
	for round := 0; round < c.Rounds; round++ {
		var wg sync.WaitGroup
		start := make(chan struct{})
		fails := make([]string, len(c.Procs))
		for g, pr := range c.Procs {
			wg.Add(1)
			go func(g int, pr string) {
				defer wg.Done()
				cl := drv.Client{IP: "127.0.0.1", Port: 620 + g, Cred: drv.Root().Cred}
				proc, args := uint32(nfsx.ProcGetattr), nfsx.ArgsFh(dfh)
				switch pr {
				case "readdirplus":
					proc, args = nfsx.ProcReaddirplus, nfsx.ArgsReaddirplus(dfh, 0, [8]byte{}, 8192, 32768)
				case "readdir":
					proc, args = nfsx.ProcReaddir, nfsx.ArgsReaddir(dfh, 0, [8]byte{}, 8192)
				case "lookup":
					proc, args = nfsx.ProcLookup, nfsx.ArgsDirop(dfh, "e00")
				}
				<-start
				res, err := s.e.NFS3(cl, proc, args)
				switch {
				case err != nil && (errors.Is(err, drv.ErrTimeout) || errors.Is(err, drv.ErrConnClosed)):
					fails[g] = fmt.Sprintf("%s: %v", pr, err)
				case err != nil:
					fails[g] = "" // (a malformed or refused reply is an answer; other checks judge it)
				case res.Status == nfsx.ErrJukebox || res.Status == 10006:
					fails[g] = fmt.Sprintf("%s: %s", pr, statusName(res.Status))
				}
			}(g, pr)
		}
		close(start)
		wg.Wait()
		failed := 0
		first := ""
		for _, f := range fails {
			if f != "" {
				failed++
				if first == "" {
					first = f
				}
			}
		}
		if failed == len(c.Procs) {
			stat.Violate(tb, id, check, "simultaneous-requests-starve-each-other", c, "round %d: %d clients sent one request each at the same moment to an export with %d pool worker(s) over a fast backend; not one was answered (first: %s)", round, len(c.Procs), c.Workers, first)
			return
		}
		if failed > 0 {
			stat.Label("some_simultaneous_requests_unanswered_put_down_to_the_machine", 1)
		}
	}
	stat.Case(c, len(c.Procs) > c.Workers)
}

var propC29p = defProp("C29", "TestC29Pool", genC29p, runC29p)

func TestC29Pool(t *testing.T) { propC29p.Test(t) }
