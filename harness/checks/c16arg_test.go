package checks

// C16, a request pinned between admission and its first look at its arguments: the argument reader handed to
// HandleCall blocks on first use (a client whose record arrives slowly). The request has been admitted under the
// policy in force, so an update started now has to wait for it ("the update finishes once in-flight requests
// finish"), must not return before it has finished, and both must finish once the reader is released; afterwards
// requests are judged under the new policy. Every NFS and MOUNT procedure takes the part of the pinned request.

import (
	"fmt"
	"io"
	"sync"
	"sync/atomic"
	"testing"
	"time"

	"github.com/absfs/absnfs"
	"pgregory.net/rapid"

	"verif/harness/drv"
	"verif/harness/nfsx"
	"verif/harness/stat"
	"verif/harness/vfs"
)

type c16aCase struct {
	Proc      string `json:"proc"`
	Via       string `json:"via"` // policy | export
	RateLimit bool   `json:"rate_limit"`
	Second    bool   `json:"second"` // a second update is started while the first one waits
}

var c16aProcs = []string{"getattr", "lookup", "access", "readlink", "read", "write", "create", "mkdir", "symlink", "remove", "rmdir", "rename", "readdir", "readdirplus", "fsstat", "fsinfo", "pathconf", "commit", "setattr", "mnt", "umnt", "export", "dump"}

func genC16a(t *rapid.T) c16aCase {
	return c16aCase{Proc: rapid.SampledFrom(c16aProcs).Draw(t, "proc"), Via: pick(t, "via", "policy", "export"), RateLimit: rapid.Bool().Draw(t, "rl"), Second: rapid.IntRange(0, 3).Draw(t, "second") == 0}
}

// c16aSeen: a deadlock has been seen in this process. The first detection waits generously; the repetitions rapid
// makes while shrinking that failure use a short wait (they only decide how small the reported case gets).
var c16aSeen atomic.Bool

func c16aWait() time.Duration {
	if c16aSeen.Load() {
		return 1500 * time.Millisecond
	}
	return 8 * time.Second
}

type gatedReader struct {
	r       io.Reader
	once    sync.Once
	entered chan struct{}
	gate    chan struct{}
}

func (g *gatedReader) Read(p []byte) (int, error) {
	g.once.Do(func() { close(g.entered) })
	<-g.gate
	return g.r.Read(p)
}

func runC16a(tb stat.TB, c c16aCase) {
	const id, check = "C16", "TestC16ArgPark"
	v := vfs.New()
	v.SeedDir("/d", 0755, 0, 0)
	v.SeedFile("/d/f", 0644, 0, 0, []byte("data"))
	v.SeedSymlink("/d/l", "f", 0, 0)
	v.SeedDir("/d/e", 0755, 0, 0)
	opts := absnfs.ExportOptions{AttrCacheTimeout: 1, AttrCacheSize: 4, MaxFileSize: 1000, Timeouts: drv.FastTimeouts(30 * time.Second)}
	if c.RateLimit {
		opts.EnableRateLimiting = true
	}
	s := newSession(tb, v, opts)
	var sig, msg string
	defer func() {
		// a server whose update and request wait for each other cannot be closed either: it is left behind
		if sig != "admitted-request-never-completes-once-update-drains" && sig != "update-never-returns" {
			s.close()
		}
	}()
	s.tolerateMalformed = true
	gate := make(chan struct{})
	var gateOnce sync.Once
	release := func() { gateOnce.Do(func() { close(gate) }) }
	defer release()
	guard(func() {
		root := s.mount()
		d := s.nfs(nfsx.ProcLookup, nfsx.ArgsDirop(root, "d"))
		f := s.nfs(nfsx.ProcLookup, nfsx.ArgsDirop(d.Fh, "f"))
		l := s.nfs(nfsx.ProcLookup, nfsx.ArgsDirop(d.Fh, "l"))
		if d.Status != nfsx.OK || f.Status != nfsx.OK || l.Status != nfsx.OK {
			tb.Fatalf("harness: setup lookups")
		}
		prog, proc := uint32(nfsx.ProgNFS), uint32(0)
		var args []byte
		switch c.Proc {
		case "getattr":
			proc, args = nfsx.ProcGetattr, nfsx.ArgsFh(f.Fh)
		case "lookup":
			proc, args = nfsx.ProcLookup, nfsx.ArgsDirop(d.Fh, "f")
		case "access":
			proc, args = nfsx.ProcAccess, nfsx.ArgsAccess(f.Fh, 0x3f)
		case "readlink":
			proc, args = nfsx.ProcReadlink, nfsx.ArgsFh(l.Fh)
		case "read":
			proc, args = nfsx.ProcRead, nfsx.ArgsRead(f.Fh, 0, 100)
		case "write":
			proc, args = nfsx.ProcWrite, nfsx.ArgsWrite(f.Fh, 0, 3, nfsx.FileSync, []byte("abc"))
		case "create":
			proc, args = nfsx.ProcCreate, nfsx.ArgsCreate(d.Fh, "new", nfsx.Unchecked, nfsx.Sattr{}, [8]byte{})
		case "mkdir":
			proc, args = nfsx.ProcMkdir, nfsx.ArgsMkdir(d.Fh, "newdir", nfsx.Sattr{})
		case "symlink":
			proc, args = nfsx.ProcSymlink, nfsx.ArgsSymlink(d.Fh, "newlink", nfsx.Sattr{}, "f")
		case "remove":
			proc, args = nfsx.ProcRemove, nfsx.ArgsDirop(d.Fh, "f")
		case "rmdir":
			proc, args = nfsx.ProcRmdir, nfsx.ArgsDirop(d.Fh, "e")
		case "rename":
			proc, args = nfsx.ProcRename, nfsx.ArgsRename(d.Fh, "f", d.Fh, "g")
		case "readdir":
			proc, args = nfsx.ProcReaddir, nfsx.ArgsReaddir(d.Fh, 0, [8]byte{}, 4096)
		case "readdirplus":
			proc, args = nfsx.ProcReaddirplus, nfsx.ArgsReaddirplus(d.Fh, 0, [8]byte{}, 4096, 8192)
		case "fsstat":
			proc, args = 18, nfsx.ArgsFh(root)
		case "fsinfo":
			proc, args = 19, nfsx.ArgsFh(root)
		case "pathconf":
			proc, args = 20, nfsx.ArgsFh(root)
		case "commit":
			proc, args = nfsx.ProcCommit, nfsx.ArgsCommit(f.Fh, 0, 0)
		case "setattr":
			proc, args = nfsx.ProcSetattr, nfsx.ArgsSetattr(f.Fh, nfsx.Sattr{Mode: nfsx.U32p(0600)}, nil)
		case "mnt":
			prog, proc, args = nfsx.ProgMount, nfsx.MountMnt, (&nfsx.W{}).Str("/d").B
		case "umnt":
			prog, proc, args = nfsx.ProgMount, nfsx.MountUmnt, (&nfsx.W{}).Str("/d").B
		case "export":
			prog, proc, args = nfsx.ProgMount, 5, nil
		case "dump":
			prog, proc, args = nfsx.ProgMount, 2, nil
		}
		gr := &gatedReader{entered: make(chan struct{}), gate: gate}
		reqDone := make(chan struct{})
		var wire []byte
		var cerr error
		go func() {
			defer close(reqDone)
			xid := s.e.NextXid()
			wire, cerr = s.e.CallWireBody(drv.Root(), nfsx.Call(xid, prog, 3, proc, drv.Root().Cred, nfsx.AuthNone(), args), func(r io.Reader) io.Reader { gr.r = r; return gr })
		}()
		select {
		case <-gr.entered:
		case <-reqDone:
			// the procedure never reads its arguments (NULL-like): nothing to pin
			stat.Label("procedure_reads_no_arguments", 1)
			return
		case <-time.After(5 * time.Second):
			release()
			stat.Inconclusive("C16: pinned request neither read its arguments nor returned")
			return
		}
		// the update
		newPolicy := absnfs.PolicyOptions{MaxFileSize: 2000, ReadOnly: true}
		upd := func(p absnfs.PolicyOptions) error {
			if c.Via == "export" {
				o := s.e.NFS.GetExportOptions()
				o.ReadOnly, o.MaxFileSize = p.ReadOnly, p.MaxFileSize
				return s.e.NFS.UpdateExportOptions(o)
			}
			return s.e.NFS.UpdatePolicyOptions(p)
		}
		updDone := make(chan error, 2)
		go func() { updDone <- upd(newPolicy) }()
		if c.Second {
			time.Sleep(5 * time.Millisecond)
			go func() { updDone <- upd(absnfs.PolicyOptions{MaxFileSize: 3000, ReadOnly: true}) }()
		}
		select {
		case <-updDone:
			sig, msg = "update-returns-while-admitted-request-in-flight", fmt.Sprintf("%s update returned while an admitted %s request was still reading its arguments", c.Via, c.Proc)
			release()
			<-reqDone
			return
		case <-time.After(60 * time.Millisecond):
		}
		release()
		select {
		case <-reqDone:
		case <-time.After(c16aWait()):
			c16aSeen.Store(true)
			sig, msg = "admitted-request-never-completes-once-update-drains", fmt.Sprintf("an admitted %s request (pinned while reading its arguments) had not returned 8 s after its reader was released; a %s update started meanwhile is waiting for it", c.Proc, c.Via)
			return
		}
		n := 1
		if c.Second {
			n = 2
		}
		for i := 0; i < n; i++ {
			select {
			case err := <-updDone:
				if err != nil {
					tb.Fatalf("harness: update: %v", err)
				}
			case <-time.After(c16aWait()):
				c16aSeen.Store(true)
				sig, msg = "update-never-returns", fmt.Sprintf("the %s update had not returned 8 s after the only in-flight request (%s) finished", c.Via, c.Proc)
				return
			}
		}
		_ = wire
		_ = cerr
		// every later request is judged under the new policy: the export is read-only now
		r := s.nfs(nfsx.ProcMkdir, nfsx.ArgsMkdir(d.Fh, "after", nfsx.Sattr{}))
		if r.Status != nfsx.ErrROFS {
			sig, msg = "request-not-judged-under-policy-in-force", fmt.Sprintf("after the %s update to read-only returned, MKDIR replied %s", c.Via, statusName(r.Status))
		}
	})
	release()
	if msg != "" {
		stat.Violate(tb, id, check, sig, c, "%s", msg)
		return
	}
	stat.Case(c, true, "proc_"+c.Proc)
}

var propC16a = defProp("C16", "TestC16ArgPark", genC16a, runC16a)

func TestC16ArgPark(t *testing.T) { propC16a.Test(t) }
