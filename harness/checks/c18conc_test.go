package checks

// C18 / C19 with arrivals that overlap: the virtual clock stands still, so every budget is exact (burst, no refill),
// and only the interleaving of the callers varies. Wave 1: one client sends from several goroutines at once, on
// several connections, far more than its per-IP and per-connection bursts. Judged (C18): it is admitted at most
// per-IP-burst times in total and at most per-connection-burst times per connection. Wave 2 (C19): clients that
// have sent nothing yet send one request each; the global burst was chosen to hold the first client's per-IP burst,
// these requests and 0-2 more, so each of them must be admitted - a request refused by its sender's own limit took
// nothing from the shared budget, however the refusals were interleaved.

import (
	"fmt"
	"runtime"
	"sync"
	"sync/atomic"
	"testing"
	"time"

	"github.com/absfs/absnfs"
	"pgregory.net/rapid"

	"verif/harness/stat"
)

type rlcCase struct {
	IPBurst   int  `json:"ip_burst"`
	ConnBurst int  `json:"conn_burst"` // 0: per-connection limiting off
	Senders   int  `json:"senders"`
	Conns     int  `json:"conns"`
	Each      int  `json:"each"`
	Others    int  `json:"others"`
	Slack     int  `json:"slack"`
	Known     bool `json:"known"` // the first client has been seen before the wave (its bucket exists and is full again)
	// Rounds: wave 1 is repeated with this many different sending addresses; in every round all senders leave a spin
	// barrier together, so that their first requests from an address the limiter has never seen arrive within
	// nanoseconds of each other
	Rounds int `json:"rounds"`
	// Big > 0: afterwards a limiter with a global budget of Big requests (4000-16000) and a per-IP burst of half of it
	// is used by one busy address (a fifth of the budget) and 400 others sending one request each: all of it is
	// within every limit and within the global budget, so nothing may be refused - whichever addresses they are
	Big int `json:"big,omitempty"`
}

func genRLC(t *rapid.T) rlcCase {
	return rlcCase{IPBurst: rapid.IntRange(1, 6).Draw(t, "ipburst"), ConnBurst: pick(t, "connburst", 0, 1, 2, 3), Senders: rapid.IntRange(2, 8).Draw(t, "senders"), Conns: rapid.IntRange(1, 4).Draw(t, "conns"),
		Each: rapid.IntRange(1, 12).Draw(t, "each"), Others: rapid.IntRange(1, 10).Draw(t, "others"), Slack: rapid.IntRange(0, 2).Draw(t, "slack"), Known: rapid.IntRange(0, 3).Draw(t, "known") == 0, Rounds: rapid.IntRange(1, 8).Draw(t, "rounds"), Big: pick(t, "big", 0, 0, 0, 4000, 8000, 16000)}
}

func runRLC(tb stat.TB, c rlcCase, id, check string) {
	requireVirtualClock(tb)
	cfg := absnfs.DefaultRateLimiterConfig()
	cfg.GlobalRequestsPerSecond = max(c.Rounds, 1)*c.IPBurst + c.Others + c.Slack
	cfg.PerIPRequestsPerSecond, cfg.PerIPBurstSize = 1, c.IPBurst
	cfg.PerConnectionRequestsPerSecond, cfg.PerConnectionBurstSize = 0, 0
	if c.ConnBurst > 0 {
		cfg.PerConnectionRequestsPerSecond, cfg.PerConnectionBurstSize = 1, c.ConnBurst
	}
	cfg.CleanupInterval = time.Hour
	rl := absnfs.NewRateLimiter(cfg)
	if c.Known {
		// seen once, long enough ago for every bucket to be full again
		rl.AllowRequest("10.0.0.1", "conn-old")
		vadvance(10 * time.Minute)
	}
	if c.Rounds < 1 {
		c.Rounds = 1
	}
	sent := c.Senders * c.Each
	admitted := make([]atomic.Int64, c.Rounds)
	perConn := make([]atomic.Int64, c.Rounds*c.Conns)
	var arrived atomic.Int64
	var wg sync.WaitGroup
	for g := 0; g < c.Senders; g++ {
		wg.Add(1)
		go func(g int) {
			defer wg.Done()
			for r := 0; r < c.Rounds; r++ {
				ip := "10.0.0.1"
				if r > 0 {
					ip = fmt.Sprintf("10.0.2.%d", r)
				}
				arrived.Add(1)
				for spin := 0; arrived.Load() < int64(c.Senders*(r+1)); spin++ {
					if spin%64 == 63 {
						runtime.Gosched()
					}
				}
				for k := 0; k < c.Each; k++ {
					cn := (g + k) % c.Conns
					if rl.AllowRequest(ip, fmt.Sprintf("conn-r%da%d", r, cn)) {
						perConn[r*c.Conns+cn].Add(1)
						admitted[r].Add(1)
					}
				}
			}
		}(g)
	}
	wg.Wait()
	var total atomic.Int64
	for r := range admitted {
		total.Add(admitted[r].Load())
		if n := int(admitted[r].Load()); n > c.IPBurst {
			stat.Violate(tb, id, check, "admitted-more-than-burst-plus-rate-x-elapsed:per-ip", c, "one address sent %d requests from %d goroutines at one instant of the clock (round %d): %d were admitted, its per-IP burst is %d (no time passed, nothing refilled)", sent, c.Senders, r, n, c.IPBurst)
			return
		}
	}
	if c.ConnBurst > 0 {
		for i := range perConn {
			if n := int(perConn[i].Load()); n > c.ConnBurst {
				stat.Violate(tb, id, check, "admitted-more-than-burst-plus-rate-x-elapsed:per-connection", c, "connection %d of round %d was admitted %d times at one instant of the clock, its burst is %d", i%c.Conns, i/c.Conns, n, c.ConnBurst)
				return
			}
		}
	}
	// wave 2: clients within their limits, global budget has room for each of them
	refused := 0
	for i := 0; i < c.Others; i++ {
		if !rl.AllowRequest(fmt.Sprintf("10.0.1.%d", i+1), fmt.Sprintf("conn-b%d", i)) {
			refused++
		}
	}
	if refused > 0 {
		stat.Violate(tb, id, check, "compliant-client-refused-with-global-room", c, "after one address had sent %d overlapping requests (%d admitted, per-IP burst %d), %d of %d clients sending their first request were refused although the global burst %d had room for all of them", sent, total.Load(), c.IPBurst, refused, c.Others, cfg.GlobalRequestsPerSecond)
		return
	}
	if c.Big > 0 {
		bc := absnfs.DefaultRateLimiterConfig()
		bc.GlobalRequestsPerSecond = c.Big
		bc.PerIPRequestsPerSecond, bc.PerIPBurstSize = 1, c.Big/2
		bc.PerConnectionRequestsPerSecond, bc.PerConnectionBurstSize = 0, 0
		bc.CleanupInterval = time.Hour
		brl := absnfs.NewRateLimiter(bc)
		busy := c.Big / 5
		for i := 0; i < busy; i++ {
			if !brl.AllowRequest("10.9.0.1", "conn-busy") {
				stat.Violate(tb, id, check, "compliant-client-refused-with-global-room", c, "request %d of an address whose per-IP burst is %d was refused although only %d requests had been admitted of a global budget of %d", i+1, c.Big/2, i, c.Big)
				return
			}
		}
		for i := 0; i < 400; i++ {
			if !brl.AllowRequest(fmt.Sprintf("10.9.%d.%d", 1+i/200, 2+i%200), fmt.Sprintf("conn-o%d", i)) {
				stat.Violate(tb, id, check, "compliant-client-refused-with-global-room", c, "the first request of address #%d was refused although only %d requests had been admitted of a global budget of %d", i, busy+i, c.Big)
				return
			}
		}
	}
	stat.Case(c, sent > c.IPBurst)
}

var propC18ov = defProp("C18", "TestC18Concurrent", genRLC, func(tb stat.TB, c rlcCase) { runRLC(tb, c, "C18", "TestC18Concurrent") })
var propC19ov = defProp("C19", "TestC19Concurrent", genRLC, func(tb stat.TB, c rlcCase) { runRLC(tb, c, "C19", "TestC19Concurrent") })

func TestC18Concurrent(t *testing.T) { propC18ov.Test(t) }
func TestC19Concurrent(t *testing.T) { propC19ov.Test(t) }
