package checks

// C02, "a failed request leaves the tree unchanged", for requests that fail half-way: the k-th backend call of one
// namespace-changing request fails with a generated error (disk error, no space, permission, deadline ...). Whatever
// the request had done before that call must have been undone when it replies with an error. A request that replies
// OK although a backend call failed is not judged here (nothing says which of its side effects are optional).

import (
	"fmt"
	"os"
	"strings"
	"sync"
	"testing"

	"github.com/absfs/absnfs"
	"pgregory.net/rapid"

	"verif/harness/nfsx"
	"verif/harness/stat"
	"verif/harness/vfs"
)

type c02fCase struct {
	Kind     string   `json:"kind"` // create mkdir symlink remove rmdir rename
	How      uint32   `json:"how"`
	Flags    int      `json:"flags"` // sattr: bit0 mode bit1 uid bit2 gid bit3 size(create) bit4 atime bit5 mtime
	Target   string   `json:"target"` // name operated on: fresh | file | dir | link (existing kinds)
	FaultAt  int      `json:"fault_at"`
	FaultErr int      `json:"fault_err"`
	Cache    cacheCfg `json:"cache"`
	Uid      uint32   `json:"uid"`
}

func genC02f(t *rapid.T) c02fCase {
	return c02fCase{
		Kind:  pick(t, "kind", "create", "create", "mkdir", "mkdir", "symlink", "symlink", "remove", "rmdir", "rename", "rename"),
		How:   pick(t, "how", uint32(nfsx.Unchecked), nfsx.Guarded, nfsx.Exclusive),
		Flags: rapid.IntRange(0, 63).Draw(t, "flags"), Target: pick(t, "target", "fresh", "fresh", "file", "dir", "link"),
		FaultAt: pick(t, "fault_at", 1, 2, 3, 3, 4, 4, 5, 5, 6, 6, 7, 8, 9, 10), FaultErr: rapid.IntRange(0, len(c14Faults)-1).Draw(t, "fault_err"),
		Cache: cacheCfg{AttrTTLns: pick(t, "ttl", int64(1), int64(3600e9)), AttrSize: pick(t, "asize", 1, 10000), DirCache: rapid.Bool().Draw(t, "dc"), Negative: rapid.Bool().Draw(t, "neg")},
		Uid:   pick(t, "uid", uint32(0), 0, 1000),
	}
}

func runC02f(tb stat.TB, c c02fCase) {
	const id, check = "C02", "TestC02Fault"
	v := vfs.New()
	v.SeedDir("/d", 0755, 0, 0)
	v.SeedFile("/d/file", 0644, 0, 0, []byte("content"))
	v.SeedDir("/d/dir", 0755, 0, 0)
	v.SeedSymlink("/d/link", "file", 0, 0)
	v.SeedDir("/e", 0755, 0, 0)
	faulty := vfs.NewFaulty(v)
	opts := newOpts(c.Cache)
	s := newSessionOn(tb, faulty, v, opts)
	defer s.close()
	name := c.Target
	if name == "fresh" {
		name = "new"
	}
	faulted := false
	failedOp := ""
	var res *nfsx.Res
	var pre, post map[string]vfs.Entry
	abandoned := guard(func() {
		root := s.mount()
		d := s.nfs(nfsx.ProcLookup, nfsx.ArgsDirop(root, "d"))
		e := s.nfs(nfsx.ProcLookup, nfsx.ArgsDirop(root, "e"))
		if d.Status != nfsx.OK || e.Status != nfsx.OK {
			tb.Fatalf("harness: setup lookups")
		}
		s.nfs(nfsx.ProcLookup, nfsx.ArgsDirop(d.Fh, name))
		s.nfs(nfsx.ProcReaddirplus, nfsx.ArgsReaddirplus(d.Fh, 0, [8]byte{}, 4096, 8192))
		var sa nfsx.Sattr
		if c.Flags&1 != 0 {
			sa.Mode = nfsx.U32p(0600)
		}
		if c.Flags&2 != 0 {
			sa.Uid = nfsx.U32p(77)
		}
		if c.Flags&4 != 0 {
			sa.Gid = nfsx.U32p(88)
		}
		if c.Flags&8 != 0 && c.Kind == "create" {
			sa.Size = nfsx.U64p(3)
		}
		if c.Flags&16 != 0 {
			sa.Atime = nfsx.SetTime{How: 2, T: nfsx.Time{Sec: 1000, Nsec: 5}}
		}
		if c.Flags&32 != 0 {
			sa.Mtime = nfsx.SetTime{How: 1}
		}
		pre = v.Snapshot()
		var fmu sync.Mutex
		k := 0
		ferr := c14Faults[c.FaultErr%len(c14Faults)]
		faulty.Arm(func(op string, paths []string, n int) error {
			fmu.Lock()
			defer fmu.Unlock()
			k++
			if k != c.FaultAt {
				return nil
			}
			faulted = true
			failedOp = op
			p := "/d/" + name
			if len(paths) > 0 {
				p = paths[0]
			}
			return &os.PathError{Op: strings.ToLower(op), Path: p, Err: ferr}
		})
		cl := s.cl
		if c.Uid != 0 {
			cl.Cred = nfsx.AuthSys(1, "h", c.Uid, c.Uid, nil)
		}
		switch c.Kind {
		case "create":
			res = s.nfsAs(cl, nfsx.ProcCreate, nfsx.ArgsCreate(d.Fh, name, c.How, sa, [8]byte{1, 2, 3, 4, 5, 6, 7, 8}))
		case "mkdir":
			res = s.nfsAs(cl, nfsx.ProcMkdir, nfsx.ArgsMkdir(d.Fh, name, sa))
		case "symlink":
			res = s.nfsAs(cl, nfsx.ProcSymlink, nfsx.ArgsSymlink(d.Fh, name, sa, "file"))
		case "remove":
			res = s.nfsAs(cl, nfsx.ProcRemove, nfsx.ArgsDirop(d.Fh, name))
		case "rmdir":
			res = s.nfsAs(cl, nfsx.ProcRmdir, nfsx.ArgsDirop(d.Fh, name))
		case "rename":
			res = s.nfsAs(cl, nfsx.ProcRename, nfsx.ArgsRename(d.Fh, name, e.Fh, "moved"))
		}
		faulty.Arm(nil)
		post = v.Snapshot()
	})
	faulty.Arm(nil)
	if abandoned || res == nil {
		return
	}
	if !faulted {
		stat.Case(c, false, "fault_point_not_reached")
		return
	}
	what := fmt.Sprintf("%s of /d/%s (target kind %s, createhow %d, sattr flags %06b, caller uid %d) whose backend call #%d failed with %q", strings.ToUpper(c.Kind), name, c.Target, c.How, c.Flags, c.Uid, c.FaultAt, c14Faults[c.FaultErr%len(c14Faults)])
	readOnlyCall := failedOp == "Lstat" || failedOp == "Stat" || failedOp == "Readdir" || failedOp == "Readlink" || failedOp == "ReadAt"
	if res.Status != nfsx.OK && readOnlyCall {
		// A read-only backend call failed (typically the fetch of the post-operation attributes after the change took
		// effect). Observed, not judged: see DESIGN.md 9.11.
		if d := vfs.DiffSnapshots(pre, post); d != "" {
			stat.Case(c, false, "error_reply_after_the_change_took_effect_(read-only_call_failed)", "kind_"+c.Kind)
			return
		}
		stat.Case(c, false, "failed_reply_after_read_only_call_failed", "kind_"+c.Kind)
		return
	}
	if res.Status != nfsx.OK {
		// times of the parent directory are not part of the tree's shape; everything else is
		if d := vfs.DiffSnapshots(pre, post); d != "" {
			stat.Violate(tb, id, check, "failed-request-changed-tree:"+c.Kind+":"+failedOp+"-failed", c, "%s (a %s call) replied %s, but the backend tree changed: %s", what, failedOp, statusName(res.Status), d)
			return
		}
		stat.Case(c, true, "failed_reply_after_backend_fault", "kind_"+c.Kind)
		return
	}
	stat.Case(c, false, "ok_reply_despite_backend_fault", "kind_"+c.Kind)
}

var propC02f = defProp("C02", "TestC02Fault", genC02f, runC02f)

func TestC02Fault(t *testing.T) { propC02f.Test(t) }

var _ = absnfs.ExportOptions{}
