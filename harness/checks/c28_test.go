package checks

// C28 Every documented way of starting a server speaks standard ONC RPC over TCP.
//
// The configuration space is small and enumerated completely: start path x
// debug x port x option sample x backend. Oracle: a conformant record-marking
// client (nfsx) gets well-formed replies to NULL, MNT "/" and GETATTR of the
// mounted handle.

import (
	"encoding/json"
	"fmt"
	"net"
	"testing"
	"time"

	"github.com/absfs/absfs"
	"github.com/absfs/absnfs"
	"github.com/absfs/memfs"

	"verif/harness/drv"
	"verif/harness/nfsx"
	"verif/harness/stat"
	"verif/harness/vfs"
)

type c28Case struct {
	Path     string `json:"path"` // export | listen | portmapper
	Debug    bool   `json:"debug"`
	Explicit bool   `json:"explicit_port"`
	Opt      int    `json:"opt"`     // option sample
	Backend  string `json:"backend"` // vfs | memfs
	Cycles   int    `json:"cycles,omitempty"` // start / talk / stop rounds on the same AbsfsNFS (0 and 1: one)
	// QuietMs > 0: nobody connects for that long after the start; then the client talks, stays away for as long
	// again and talks once more. A server that was started keeps serving until it is stopped.
	QuietMs int `json:"quiet_ms,omitempty"`
}

func freePort() int {
	l, err := net.Listen("tcp", "127.0.0.1:0")
	if err != nil {
		return 0
	}
	defer l.Close()
	return l.Addr().(*net.TCPAddr).Port
}

func c28Options(i int) absnfs.ExportOptions {
	switch i {
	case 1:
		return absnfs.ExportOptions{ReadOnly: true}
	case 2:
		return absnfs.ExportOptions{EnableDirCache: true, CacheNegativeLookups: true, AttrCacheTimeout: time.Hour}
	}
	return absnfs.ExportOptions{}
}

// c28Discover asks the portmapper on 127.0.0.1:111 where NFS v3 and MOUNT v3 (tcp) are served, the way a client of
// a server started through StartWithPortmapper finds them, and returns the advertised ports.
func c28Discover() (nfsPort, mountPort uint32, err error) {
	cl, err := drv.Dial("127.0.0.1:111", 3*time.Second)
	if err != nil {
		return 0, 0, err
	}
	defer cl.Close()
	ask := func(xid, prog, vers uint32) (uint32, error) {
		rec, err := cl.RoundTrip(nfsx.Call(xid, nfsx.ProgPmap, 2, nfsx.PmapGetport, nfsx.AuthNone(), nfsx.AuthNone(), nfsx.ArgsPmap(nfsx.Mapping{Prog: prog, Vers: vers, Prot: 6})), 3*time.Second)
		if err != nil {
			return 0, err
		}
		rp, err := nfsx.ParseReply(rec)
		if err != nil || rp.Xid != xid || rp.Stat != nfsx.MsgAccepted || rp.AcceptStat != nfsx.AcceptSuccess {
			return 0, fmt.Errorf("GETPORT reply %+v, %v", rp, err)
		}
		res, err := nfsx.DecodePmap(2, nfsx.PmapGetport, rp.Body)
		if err != nil {
			return 0, err
		}
		return res.Port, nil
	}
	if nfsPort, err = ask(21, nfsx.ProgNFS, 3); err != nil {
		return
	}
	mountPort, err = ask(22, nfsx.ProgMount, 3)
	return
}

// c28Talk runs the conformant client against addr.
func c28Talk(addr string) (stage string, err error) { return c28TalkX(addr, 0) }

// c28Crowd: n conformant clients hold their conversation at the same time, three times in a row each, with xids of
// their own; every one of them must be answered as if it were alone.
func c28Crowd(addr string, n int) (who int, stage string, err error) {
	type fail struct {
		who   int
		stage string
		err   error
	}
	out := make(chan fail, n)
	for i := 0; i < n; i++ {
		go func(i int) {
			for round := 0; round < 3; round++ {
				if st, e := c28TalkX(addr, uint32(1000*(i+1)+100*round)); e != nil {
					out <- fail{i, st, e}
					return
				}
			}
			out <- fail{i, "", nil}
		}(i)
	}
	for i := 0; i < n; i++ {
		if f := <-out; f.err != nil && err == nil {
			who, stage, err = f.who, f.stage, f.err
		}
	}
	return
}

func c28TalkX(addr string, xbase uint32) (stage string, err error) {
	cl, err := drv.Dial(addr, 8*time.Second)
	if err != nil {
		return "dial", err
	}
	defer cl.Close()
	cred := nfsx.AuthSys(1, "client", 0, 0, nil)
	rt := func(xid, prog, vers, proc uint32, args []byte, frags ...int) (*nfsx.Reply, error) {
		// every call reaches the socket in two pieces; the cut falls inside the first record marker for some of them
		rec, err := cl.RoundTripSplit(nfsx.Call(xid, prog, vers, proc, cred, nfsx.AuthNone(), args), 8*time.Second, int(xid%5)+1, frags...)
		if err != nil {
			return nil, err
		}
		rp, err := nfsx.ParseReply(rec)
		if err != nil {
			return nil, err
		}
		if rp.Xid != xid {
			return nil, fmt.Errorf("xid %d != %d", rp.Xid, xid)
		}
		if rp.Stat != nfsx.MsgAccepted || rp.AcceptStat != nfsx.AcceptSuccess {
			return nil, fmt.Errorf("not accepted: stat %d accept %d", rp.Stat, rp.AcceptStat)
		}
		return rp, nil
	}
	if _, err := rt(xbase+11, nfsx.ProgNFS, 3, 0, nil); err != nil {
		return "NFS NULL", err
	}
	rp, err := rt(xbase+12, nfsx.ProgMount, 3, nfsx.MountMnt, (&nfsx.W{}).Str("/").B, 20, 30) // a two/three-fragment record
	if err != nil {
		return "MNT /", err
	}
	m, err := nfsx.DecodeMount3(nfsx.MountMnt, rp.Body)
	if err != nil || m.Status != 0 {
		return "MNT /", fmt.Errorf("mountres3 status %d, %v", m.Status, err)
	}
	rp, err = rt(xbase+13, nfsx.ProgNFS, 3, nfsx.ProcGetattr, nfsx.ArgsFh(m.Fh))
	if err != nil {
		return "GETATTR", err
	}
	g, err := nfsx.DecodeNFS3(nfsx.ProcGetattr, rp.Body)
	if err != nil || g.Status != nfsx.OK || g.Attr.Type != nfsx.TypeDir {
		return "GETATTR", fmt.Errorf("GETATTR of the mounted handle: %+v, %v", g, err)
	}
	// Two calls written back to back in one segment (clients pipeline): both are answered, in order.
	{
		x1, x2 := xbase+15, xbase+16
		both := append(nfsx.Frame(nfsx.Call(x1, nfsx.ProgNFS, 3, 0, cred, nfsx.AuthNone(), nil)), nfsx.Frame(nfsx.Call(x2, nfsx.ProgNFS, 3, nfsx.ProcGetattr, cred, nfsx.AuthNone(), nfsx.ArgsFh(m.Fh)))...)
		cl.C.SetDeadline(time.Now().Add(8 * time.Second))
		if _, err := cl.C.Write(both); err != nil {
			return "two pipelined calls", err
		}
		for _, x := range []uint32{x1, x2} {
			rec, err := nfsx.ReadRecord(cl.C, 1<<20)
			if err != nil {
				return "two pipelined calls", fmt.Errorf("reply to xid %d of two calls sent in one write: %v", x, err)
			}
			if rp2, err := nfsx.ParseReply(rec); err != nil || rp2.Xid != x || rp2.Stat != nfsx.MsgAccepted || rp2.AcceptStat != nfsx.AcceptSuccess {
				return "two pipelined calls", fmt.Errorf("reply to xid %d: %+v, %v", x, rp2, err)
			}
		}
		cl.C.SetDeadline(time.Time{})
	}
	// Another conformant client comes and goes on a connection of its own (MNT /, UMNT /); the first client's mount
	// is its own: GETATTR of the handle it was given is answered as before.
	other, err := drv.Dial(addr, 8*time.Second)
	if err != nil {
		return "dial (second client)", err
	}
	defer other.Close()
	cred2 := nfsx.AuthSys(2, "other", 0, 0, nil)
	for k, proc := range []uint32{nfsx.MountMnt, nfsx.MountUmnt} {
		xid := xbase + 21 + uint32(k)
		rec, err := other.RoundTrip(nfsx.Call(xid, nfsx.ProgMount, 3, proc, cred2, nfsx.AuthNone(), (&nfsx.W{}).Str("/").B), 8*time.Second)
		if err != nil {
			return "MNT/UMNT of a second client", err
		}
		if rp2, err := nfsx.ParseReply(rec); err != nil || rp2.Xid != xid || rp2.Stat != nfsx.MsgAccepted || rp2.AcceptStat != nfsx.AcceptSuccess {
			return "MNT/UMNT of a second client", fmt.Errorf("reply %+v, %v", rp2, err)
		}
	}
	rp, err = rt(xbase+14, nfsx.ProgNFS, 3, nfsx.ProcGetattr, nfsx.ArgsFh(m.Fh))
	if err != nil {
		return "GETATTR after another client's MNT/UMNT", err
	}
	g, err = nfsx.DecodeNFS3(nfsx.ProcGetattr, rp.Body)
	if err != nil || g.Status != nfsx.OK || g.Attr.Type != nfsx.TypeDir {
		return "GETATTR after another client's MNT/UMNT", fmt.Errorf("GETATTR of the mounted handle: %+v, %v", g, err)
	}
	return "", nil
}

func runC28(tb stat.TB, c c28Case) {
	const id, check = "C28", "TestC28"
	var fs absfs.SymlinkFileSystem
	if c.Backend == "memfs" {
		m, err := memfs.NewFS()
		if err != nil {
			tb.Fatalf("harness: memfs: %v", err)
		}
		fs = m
	} else {
		fs = vfs.New()
	}
	n, err := absnfs.New(fs, c28Options(c.Opt))
	if err != nil {
		tb.Fatalf("harness: New: %v", err)
	}
	defer n.Close()
	cycles := c.Cycles
	if cycles < 1 {
		cycles = 1
	}
	for round := 1; round <= cycles; round++ {
		port := 0
		if c.Explicit {
			port = freePort()
		}
		var addr string
		var stop func()
		switch c.Path {
		case "export":
			if err := n.Export("/export/test", port); err != nil {
				if round == 1 {
					stat.Inconclusive("C28: Export failed: " + err.Error())
					return
				}
				stat.Violate(tb, id, check, "start-path-does-not-speak-record-marked-rpc:"+c.Path, c, "Export number %d on the same AbsfsNFS (after Unexport) failed: %v", round, err)
				return
			}
			es := n.VerifExportServer()
			if es == nil {
				tb.Fatalf("harness: no export server")
			}
			addr = fmt.Sprintf("localhost:%d", es.GetPort())
			stop = func() { n.Unexport() }
		case "listen", "portmapper":
			srv, err := absnfs.NewServer(absnfs.ServerOptions{Port: port, Hostname: "127.0.0.1", Debug: c.Debug, UseRecordMarking: c.Path == "listen"})
			if err != nil {
				tb.Fatalf("harness: NewServer: %v", err)
			}
			srv.SetHandler(n)
			if c.Path == "listen" {
				err = srv.Listen()
			} else {
				err = srv.StartWithPortmapper()
			}
			if err != nil {
				if c.Path == "portmapper" {
					stat.Inconclusive("C28: StartWithPortmapper unavailable here (port 111): " + err.Error())
					return
				}
				tb.Fatalf("harness: Listen: %v", err)
			}
			stop = func() { srv.Stop() }
			addr = fmt.Sprintf("127.0.0.1:%d", srv.GetPort())
			if c.Path == "portmapper" {
				// a client of this start path finds the services through the portmapper
				np, mp, derr := c28Discover()
				if derr != nil || np == 0 || mp == 0 {
					stop()
					stat.Violate(tb, id, check, "portmapper-does-not-advertise-the-services", c, "server started through StartWithPortmapper (explicit port=%v): GETPORT for NFS v3 / MOUNT v3 over tcp answered %d / %d (%v)", c.Explicit, np, mp, derr)
					return
				}
				for _, p := range []uint32{np, mp} {
					if stage, terr := c28Talk(fmt.Sprintf("127.0.0.1:%d", p)); terr != nil {
						stop()
						stat.Violate(tb, id, check, "advertised-port-does-not-serve", c, "server started through StartWithPortmapper (explicit port=%v, listening on %d): the portmapper advertises NFS on %d and MOUNT on %d; a conformant client talking to port %d failed at %s: %v", c.Explicit, srv.GetPort(), np, mp, p, stage, terr)
						return
					}
				}
			}
		}
		if c.QuietMs > 0 {
			time.Sleep(time.Duration(c.QuietMs) * time.Millisecond)
		}
		stage, err := c28Talk(addr)
		if err == nil && c.QuietMs == 0 {
			if who, cstage, cerr := c28Crowd(addr, 4); cerr != nil {
				stop()
				stat.Violate(tb, id, check, "concurrent-clients-not-served-like-a-single-one:"+c.Path, c, "server started through %s: one conformant client was served, but of 4 clients talking at the same time client %d failed at %s: %v", c.Path, who, cstage, cerr)
				return
			}
		}
		if err == nil && c.QuietMs > 0 {
			time.Sleep(time.Duration(c.QuietMs) * time.Millisecond)
			if stage, err = c28Talk(addr); err != nil {
				stage = "second conversation, " + stage
			}
		}
		stop()
		if err != nil && c.QuietMs > 0 {
			stat.Violate(tb, id, check, "server-stops-serving-after-quiet-period:"+c.Path, c, "server started through %s, nobody connected for %d ms: a conformant record-marking client then failed at %s: %v", c.Path, c.QuietMs, stage, err)
			return
		}
		if err != nil {
			stat.Violate(tb, id, check, "start-path-does-not-speak-record-marked-rpc:"+c.Path, c, "server started through %s (round %d of %d on the same AbsfsNFS, debug=%v explicit port=%v backend=%s): a conformant record-marking client failed at %s: %v", c.Path, round, cycles, c.Debug, c.Explicit, c.Backend, stage, err)
			return
		}
	}
	if c.QuietMs > 0 {
		stat.Case(c, true, "path_"+c.Path, "quiet_period_before_first_client")
		return
	}
	stat.Case(c, true, "path_"+c.Path)
}

// TestC28Quiet: every start path, with quiet periods before and between the conversations (one path per shard).
func TestC28Quiet(t *testing.T) {
	stat.SetProperty("C28")
	stat.SetDisjoint(true)
	quiets := []int{4500}
	if thorough() {
		quiets = []int{4500, 12000, 33000}
	}
	for i, p := range []string{"export", "listen", "portmapper"} {
		if i%nshards != shard {
			continue
		}
		for _, q := range quiets {
			runC28(t, c28Case{Path: p, Explicit: q == 12000, Backend: "vfs", QuietMs: q})
		}
	}
}

func init() {
	registry["TestC28"] = func(tb stat.TB, raw json.RawMessage) error {
		var c c28Case
		if err := json.Unmarshal(raw, &c); err != nil {
			return err
		}
		runC28(tb, c)
		return nil
	}
}

func TestC28(t *testing.T) {
	stat.SetProperty("C28")
	stat.SetDisjoint(true)
	if shard == 0 {
		for _, rf := range replaysFor("C28", "TestC28") {
			registry["TestC28"](t, rf.Case)
		}
	}
	i := 0
	for _, p := range []string{"export", "listen", "portmapper"} {
		for _, dbg := range []bool{false, true} {
			for _, ex := range []bool{false, true} {
				for opt := 0; opt < 3; opt++ {
					for _, be := range []string{"vfs", "memfs"} {
						i++
						if i%nshards != shard {
							continue
						}
						if p == "export" && dbg {
							continue // Export has no debug switch
						}
						runC28(t, c28Case{Path: p, Debug: dbg, Explicit: ex, Opt: opt, Backend: be})
						if be == "vfs" {
							runC28(t, c28Case{Path: p, Debug: dbg, Explicit: ex, Opt: opt, Backend: be, Cycles: 2 + opt%2})
						}
					}
				}
			}
		}
	}
}
