package checks

// C18 Rate limiters never admit more than burst + rate x elapsed.
// C19 Traffic refused to one client does not consume capacity shared with others.
//
// rate_limiter.go is compiled with time.Now/time.Since redirected to a
// virtual clock (mechanical go/ast rewrite at check time). Oracle: exact
// (big.Rat) ideal token buckets: an upper bound per bucket, no false refusal
// of clients that stay within their own limits while the ideal global bucket
// (fed by admitted requests only) has room, and cleanup invisibility
// (differential against an effectively infinite CleanupInterval).

import (
	"fmt"
	"math/big"
	"sync"
	"testing"
	"time"

	"github.com/absfs/absnfs"
	"pgregory.net/rapid"

	"verif/harness/drv"
	"verif/harness/nfsx"
	"verif/harness/stat"
	"verif/harness/vfs"
)

var (
	vclockMu sync.Mutex
	vclock   = time.Unix(1_700_000_000, 0)
)

func vnow() time.Time { vclockMu.Lock(); defer vclockMu.Unlock(); return vclock }
func vadvance(d time.Duration) {
	vclockMu.Lock()
	vclock = vclock.Add(d)
	vclockMu.Unlock()
}

// requireVirtualClock fails the run as a harness error when the binary was built without the clock overlay.
func requireVirtualClock(tb stat.TB) {
	absnfs.VerifSetClock(vnow)
	b := absnfs.NewTokenBucket(1, 1)
	b.Allow()
	if b.Allow() {
		tb.Fatalf("harness: token bucket admits twice at the same instant")
	}
	vadvance(2 * time.Second)
	if !b.Allow() {
		tb.Fatalf("harness: this binary was built without the virtual clock overlay (run it through ./vcheck)")
	}
}

type ideal struct {
	tokens, max, rate *big.Rat
	last              time.Time
	created           time.Time
	admitted          int64
}

func newIdeal(rate float64, burst int, now time.Time) *ideal {
	r := new(big.Rat)
	r.SetFloat64(rate)
	return &ideal{tokens: big.NewRat(int64(burst), 1), max: big.NewRat(int64(burst), 1), rate: r, last: now, created: now}
}

func (b *ideal) refill(now time.Time) {
	el := new(big.Rat).SetFrac64(now.Sub(b.last).Nanoseconds(), 1_000_000_000)
	b.tokens.Add(b.tokens, el.Mul(el, b.rate))
	if b.tokens.Cmp(b.max) > 0 {
		b.tokens.Set(b.max)
	}
	b.last = now
}

var (
	ratOne    = big.NewRat(1, 1)
	ratEps    = big.NewRat(1, 1_000_000)
	ratOneHi  = new(big.Rat).Add(ratOne, ratEps)
	ratOneLow = new(big.Rat).Sub(ratOne, ratEps)
)

// has reports whether the bucket clearly holds a token (>= 1+eps).
func (b *ideal) has() bool     { return b.tokens.Cmp(ratOneHi) >= 0 }
func (b *ideal) lacks() bool   { return b.tokens.Cmp(ratOneLow) < 0 }
func (b *ideal) take()         { b.tokens.Sub(b.tokens, ratOne); b.admitted++ }
func (b *ideal) bound(now time.Time) *big.Rat {
	el := new(big.Rat).SetFrac64(now.Sub(b.created).Nanoseconds(), 1_000_000_000)
	out := new(big.Rat).Add(b.max, el.Mul(el, b.rate))
	return out.Add(out, ratEps)
}

type rlEvent struct {
	Adv  int    `json:"adv"` // index into rlAdvances
	Kind string `json:"kind"` // req | op | close (the connection ends; the next request of this slot comes on a new connection)
	IP   int    `json:"ip"`
	Conn int    `json:"conn"`
	Op   int    `json:"op"`
}

type rlCase struct {
	Global, PerIP, IPBurst, PerConn, ConnBurst int
	RL, WL, RD, MountPM                           int
	CleanupS                                      int       `json:"cleanup_s"`
	Abusive                                       bool      `json:"abusive"` // C19 shape: ip 0 floods
	Events                                        []rlEvent `json:"events"`
	// Crowd > 0: before the events, this many further clients (one address and one connection each) send one request
	// each at the start instant, then one second passes. Thousands of addresses are an ordinary population for an
	// NFS server; whatever the limiter does to keep its tables small may not couple unrelated clients.
	Crowd int `json:"crowd,omitempty"`
}

// expand returns the crowd prefix followed by the case's events.
func (c rlCase) expand() []rlEvent {
	if c.Crowd <= 0 {
		return c.Events
	}
	out := make([]rlEvent, 0, c.Crowd+1+len(c.Events))
	for i := 0; i < c.Crowd; i++ {
		out = append(out, rlEvent{Kind: "req", IP: 1000 + i})
	}
	out = append(out, rlEvent{Adv: 5, Kind: "close", IP: 999}) // one second passes (closing a connection nobody opened is a no-op)
	return append(out, c.Events...)
}

func rlIP(n int) string { return fmt.Sprintf("10.%d.%d.%d", n>>16&255, n>>8&255, n&255) }

var rlAdvances = []time.Duration{0, 0, 1, time.Millisecond, time.Second / 3, time.Second, 7 * time.Second, 90 * time.Second, 2 * time.Hour}
var rlOps = []absnfs.OperationType{absnfs.OpTypeReadLarge, absnfs.OpTypeWriteLarge, absnfs.OpTypeReaddir, absnfs.OpTypeMount}
var rlOpBursts = []int{10, 5, 5, 2}

func genRL(abusive bool) func(t *rapid.T) rlCase {
	return func(t *rapid.T) rlCase {
		vals := []int{0, 1, 2, 5, 1000}
		c := rlCase{
			Global: pick(t, "global", vals...), PerIP: pick(t, "perip", vals...), IPBurst: pick(t, "ipburst", vals...),
			PerConn: pick(t, "perconn", vals...), ConnBurst: pick(t, "connburst", vals...),
			RL: pick(t, "rl", vals...), WL: pick(t, "wl", vals...), RD: pick(t, "rd", vals...), MountPM: pick(t, "mount", 0, 1, 7, 60),
			CleanupS: pick(t, "cleanup", 1, 60, 3600), Abusive: abusive,
		}
		if abusive {
			// global limit comfortably above the compliant traffic, small per-client limits
			c.Global = pick(t, "global", 5, 20, 1000)
			c.PerIP, c.IPBurst = pick(t, "perip", 1, 2, 5), pick(t, "ipburst", 1, 2, 5)
			c.PerConn, c.ConnBurst = pick(t, "perconn", 0, 1, 2, 5), pick(t, "connburst", 1, 2, 5)
		}
		n := rapid.IntRange(5, 80).Draw(t, "n")
		for i := 0; i < n; i++ {
			ev := rlEvent{Adv: rapid.IntRange(0, len(rlAdvances)-1).Draw(t, "adv"), Kind: pick(t, "kind", "req", "req", "req", "req", "req", "req", "op", "op", "close"),
				IP: rapid.IntRange(0, 3).Draw(t, "ip"), Conn: rapid.IntRange(0, 2).Draw(t, "conn"), Op: rapid.IntRange(0, 3).Draw(t, "op")}
			if abusive {
				if ev.Kind != "close" {
					ev.Kind = "req"
				}
				if rapid.IntRange(0, 9).Draw(t, "flood") < 6 {
					ev.IP, ev.Adv = 0, rapid.IntRange(0, 3).Draw(t, "fadv") // the abusive client: many arrivals, tiny gaps
				} else if ev.IP == 0 {
					ev.IP = 1
				}
				if ev.Adv >= 7 {
					ev.Adv = 5
				}
			}
			c.Events = append(c.Events, ev)
		}
		crowdOdds := 40
		if abusive {
			crowdOdds = 12
		}
		if rapid.IntRange(0, crowdOdds-1).Draw(t, "crowded") == 0 {
			c.Crowd = pick(t, "crowd", 300, 300, 1100, 1100, 2100, 4200)
		}
		return c
	}
}

func (c rlCase) config(cleanup time.Duration) absnfs.RateLimiterConfig {
	return absnfs.RateLimiterConfig{GlobalRequestsPerSecond: c.Global, PerIPRequestsPerSecond: c.PerIP, PerIPBurstSize: c.IPBurst,
		PerConnectionRequestsPerSecond: c.PerConn, PerConnectionBurstSize: c.ConnBurst, ReadLargeOpsPerSecond: c.RL, WriteLargeOpsPerSecond: c.WL,
		ReaddirOpsPerSecond: c.RD, MountOpsPerMinute: c.MountPM, CleanupInterval: cleanup}
}

// rlRun executes the events against a fresh limiter and returns the decisions.
func rlRun(c rlCase, cleanup time.Duration, start time.Time) []bool {
	vclockMu.Lock()
	vclock = start
	vclockMu.Unlock()
	rl := absnfs.NewRateLimiter(c.config(cleanup))
	evs := c.expand()
	out := make([]bool, len(evs))
	connGen := map[string]int{}
	for i, ev := range evs {
		vadvance(rlAdvances[ev.Adv])
		ip := rlIP(ev.IP)
		slot := fmt.Sprintf("%d-%d", ev.IP, ev.Conn)
		if ev.Kind == "close" {
			// the connection handler's exit path; connection ids are never reused by the server
			rl.CleanupConnection(fmt.Sprintf("conn-%s-g%d", slot, connGen[slot]))
			connGen[slot]++
			out[i] = true
		} else if ev.Kind == "req" {
			out[i] = rl.AllowRequest(ip, fmt.Sprintf("conn-%s-g%d", slot, connGen[slot]))
		} else {
			out[i] = rl.AllowOperation(ip, rlOps[ev.Op])
		}
	}
	return out
}

func runRL(tb stat.TB, c rlCase, id, check string) {
	requireVirtualClock(tb)
	start := time.Unix(1_700_000_000, 0)
	dec := rlRun(c, time.Duration(c.CleanupS)*time.Second, start)
	// ---- replay the same events against the ideal buckets
	now := start
	global := newIdeal(float64(c.Global), c.Global, now)
	perIP := map[int]*ideal{}    // fed by arrivals
	perConn := map[string]*ideal{}
	admIP := map[int]*ideal{}    // admitted counters per IP (upper bound)
	admConn := map[string]*ideal{}
	perOp := map[string]*ideal{}
	compliant := map[int]bool{}
	sawRefusal, admittedAfterRefusal := false, false
	abusiveRefused, compliantAfterAbuse := false, false
	closes := 0
	opRates := []float64{float64(c.RL), float64(c.WL), float64(c.RD), float64(c.MountPM) / 60}
	for i, ev := range c.expand() {
		now = now.Add(rlAdvances[ev.Adv])
		got := dec[i]
		what := fmt.Sprintf("event#%d %s ip=%d conn=%d op=%d at +%v", i, ev.Kind, ev.IP, ev.Conn, ev.Op, now.Sub(start))
		if ev.Kind == "close" {
			// a new connection starts with a full bucket of its own
			slot := fmt.Sprintf("%d-%d", ev.IP, ev.Conn)
			delete(perConn, slot)
			delete(admConn, slot)
			if ev.IP != 999 {
				closes++
			}
			continue
		}
		if !got {
			sawRefusal = true
		} else if sawRefusal {
			admittedAfterRefusal = true
		}
		if ev.Kind == "op" {
			key := fmt.Sprintf("%d/%d", ev.IP, ev.Op)
			b := perOp[key]
			if b == nil {
				b = newIdeal(opRates[ev.Op], rlOpBursts[ev.Op], now)
				perOp[key] = b
			}
			b.refill(now)
			if got {
				if id == "C18" && new(big.Rat).SetInt64(b.admitted+1).Cmp(b.bound(now)) > 0 {
					if stat.Violate(tb, id, check, "per-operation-limit-over-admits", c, "%s: %d admissions of %s for this IP exceed burst %d + rate %v x elapsed", what, b.admitted+1, rlOps[ev.Op], rlOpBursts[ev.Op], opRates[ev.Op]) {
						return
					}
				}
				if b.tokens.Cmp(ratOne) >= 0 {
					b.take()
				} else {
					b.admitted++
					b.tokens.SetInt64(0)
				}
			} else if id == "C18" && b.has() {
				if stat.Violate(tb, id, check, "per-operation-limit-false-refusal", c, "%s refused although the ideal %s bucket of this IP holds %s tokens", what, rlOps[ev.Op], b.tokens.FloatString(6)) {
					return
				}
			}
			continue
		}
		ck := fmt.Sprintf("%d-%d", ev.IP, ev.Conn)
		if perIP[ev.IP] == nil {
			perIP[ev.IP] = newIdeal(float64(c.PerIP), c.IPBurst, now)
			admIP[ev.IP] = newIdeal(float64(c.PerIP), c.IPBurst, now)
			compliant[ev.IP] = true
		}
		if perConn[ck] == nil {
			perConn[ck] = newIdeal(float64(c.PerConn), c.ConnBurst, now)
			admConn[ck] = newIdeal(float64(c.PerConn), c.ConnBurst, now)
		}
		ib, cb := perIP[ev.IP], perConn[ck]
		global.refill(now)
		ib.refill(now)
		cb.refill(now)
		// is this arrival within the client's own limits?
		within := ib.has() && (c.PerConn <= 0 || cb.has())
		if !within {
			compliant[ev.IP] = false
		}
		// arrivals consume the client's own ideal tokens when they are there
		if ib.tokens.Cmp(ratOne) >= 0 {
			ib.tokens.Sub(ib.tokens, ratOne)
		}
		if c.PerConn > 0 && cb.tokens.Cmp(ratOne) >= 0 {
			cb.tokens.Sub(cb.tokens, ratOne)
		}
		if got {
			admIP[ev.IP].admitted++
			admConn[ck].admitted++
			global.admitted++
			if id == "C18" {
				if new(big.Rat).SetInt64(global.admitted).Cmp(global.bound(now)) > 0 {
					if stat.Violate(tb, id, check, "global-limit-over-admits", c, "%s: %d admissions exceed global burst %d + rate %d x elapsed", what, global.admitted, c.Global, c.Global) {
						return
					}
				}
				if new(big.Rat).SetInt64(admIP[ev.IP].admitted).Cmp(admIP[ev.IP].bound(now)) > 0 {
					if stat.Violate(tb, id, check, "per-ip-limit-over-admits", c, "%s: %d admissions of this IP exceed burst %d + rate %d x elapsed", what, admIP[ev.IP].admitted, c.IPBurst, c.PerIP) {
						return
					}
				}
				if c.PerConn > 0 && new(big.Rat).SetInt64(admConn[ck].admitted).Cmp(admConn[ck].bound(now)) > 0 {
					if stat.Violate(tb, id, check, "per-connection-limit-over-admits", c, "%s: %d admissions of this connection exceed burst %d + rate %d x elapsed", what, admConn[ck].admitted, c.ConnBurst, c.PerConn) {
						return
					}
				}
			}
			// the ideal global bucket is fed by admitted requests only
			if global.tokens.Cmp(ratOne) >= 0 {
				global.tokens.Sub(global.tokens, ratOne)
			} else {
				global.tokens.SetInt64(0)
			}
			if c.Abusive && ev.IP != 0 && abusiveRefused {
				compliantAfterAbuse = true
			}
		} else {
			if c.Abusive && ev.IP == 0 {
				abusiveRefused = true
			}
			if compliant[ev.IP] && within && global.has() {
				sig := "compliant-client-refused-while-global-budget-has-room"
				if stat.Violate(tb, id, check, sig, c, "%s refused: every arrival of this client fits its own limits and the ideal global bucket (fed by admitted requests only) holds %s tokens", what, global.tokens.FloatString(6)) {
					return
				}
			}
			if c.Abusive && ev.IP != 0 && abusiveRefused {
				compliantAfterAbuse = true
			}
		}
	}
	// ---- cleanup invisibility (C18)
	if id == "C18" {
		dec2 := rlRun(c, 1000*time.Hour, start)
		for i := range dec {
			if dec[i] != dec2[i] {
				if stat.Violate(tb, id, check, "cleanup-changes-decision", c, "event#%d decided %v with CleanupInterval=%ds and %v with cleanup effectively off", i, dec[i], c.CleanupS, dec2[i]) {
					return
				}
				break
			}
		}
	}
	if closes > 0 {
		stat.Label("connection_closed_and_reopened", 1)
	}
	if c.Crowd > 0 {
		stat.Label(fmt.Sprintf("crowd_of_%d_addresses_first", c.Crowd), 1)
	}
	nt := sawRefusal && admittedAfterRefusal
	if id == "C19" {
		nt = abusiveRefused && compliantAfterAbuse
	}
	stat.Case(c, nt)
}

var propC18 = defProp("C18", "TestC18", genRL(false), func(tb stat.TB, c rlCase) { runRL(tb, c, "C18", "TestC18") })
var propC19 = defProp("C19", "TestC19", genRL(true), func(tb stat.TB, c rlCase) { runRL(tb, c, "C19", "TestC19") })

func TestC18(t *testing.T) { propC18.Test(t) }
func TestC19(t *testing.T) { propC19.Test(t) }

// ------------------------------------------------------------------ handler integration (C18)

type rlhEvent struct {
	Adv int    `json:"adv"`
	Op  string `json:"op"` // read write readdir readdirplus mnt smallread
	IP  int    `json:"ip"`
}
type rlhCase struct {
	RL, WL, RD, MountPM int
	Events              []rlhEvent `json:"events"`
}

func genRLH(t *rapid.T) rlhCase {
	c := rlhCase{RL: pick(t, "rl", 0, 1, 2, 5), WL: pick(t, "wl", 0, 1, 2, 5), RD: pick(t, "rd", 0, 1, 2, 5), MountPM: pick(t, "mount", 0, 1, 7, 60)}
	n := rapid.IntRange(5, 50).Draw(t, "n")
	for i := 0; i < n; i++ {
		c.Events = append(c.Events, rlhEvent{Adv: rapid.IntRange(0, 6).Draw(t, "adv"), Op: pick(t, "op", "read", "write", "readdir", "readdirplus", "readdir_next", "readdirplus_next", "mnt", "smallread"), IP: rapid.IntRange(0, 1).Draw(t, "ip")})
	}
	return c
}

func runRLH(tb stat.TB, c rlhCase) {
	const id, check = "C18", "TestC18Handlers"
	requireVirtualClock(tb)
	start := time.Unix(1_700_000_000, 0)
	vclockMu.Lock()
	vclock = start
	vclockMu.Unlock()
	v := vfs.New()
	v.SeedFile("/f", 0644, 0, 0, make([]byte, 100))
	rc := absnfs.DefaultRateLimiterConfig()
	rc.ReadLargeOpsPerSecond, rc.WriteLargeOpsPerSecond, rc.ReaddirOpsPerSecond, rc.MountOpsPerMinute = c.RL, c.WL, c.RD, c.MountPM
	rc.CleanupInterval = 1000 * time.Hour
	s := newSession(tb, v, absnfs.ExportOptions{EnableRateLimiting: true, RateLimitConfig: &rc, TransferSize: 1 << 20, AttrCacheTimeout: 1, AttrCacheSize: 4})
	defer s.close()
	s.tolerateMalformed = true
	now := start
	perOp := map[string]*ideal{}
	rates := map[string]float64{"read": float64(c.RL), "write": float64(c.WL), "readdir": float64(c.RD), "mnt": float64(c.MountPM) / 60}
	bursts := map[string]int{"read": 10, "write": 5, "readdir": 5, "mnt": 2}
	nt := false
	abandoned := guard(func() {
		// the setup MNT/LOOKUP consume mount tokens of the harness' own address only
		root := s.mount()
		fr := s.nfs(nfsx.ProcLookup, nfsx.ArgsDirop(root, "f"))
		big := make([]byte, 70000)
		refusals := 0
		for i, ev := range c.Events {
			vadvance(rlAdvances[ev.Adv])
			now = now.Add(rlAdvances[ev.Adv])
			cl := drv.Client{IP: fmt.Sprintf("10.1.1.%d", ev.IP), Port: 700, Cred: nfsx.AuthSys(1, "h", 0, 0, nil)}
			bucket := ev.Op
			if ev.Op == "readdirplus" || ev.Op == "readdir_next" || ev.Op == "readdirplus_next" {
				bucket = "readdir" // (a continuation call - cookie other than 0 - is a READDIR operation like the first)
			}
			var refused bool
			switch ev.Op {
			case "read":
				r := s.nfsAs(cl, nfsx.ProcRead, nfsx.ArgsRead(fr.Fh, 0, 70000))
				refused = r.Status == nfsx.ErrJukebox
			case "smallread":
				r := s.nfsAs(cl, nfsx.ProcRead, nfsx.ArgsRead(fr.Fh, 0, 65536))
				if r.Status == nfsx.ErrJukebox {
					if stat.Violate(tb, id, check, "small-read-rate-limited", c, "event#%d: a 64 KiB READ was refused by the large-read limiter", i) {
						return
					}
				}
				continue
			case "write":
				r := s.nfsAs(cl, nfsx.ProcWrite, nfsx.ArgsWrite(fr.Fh, 0, uint32(len(big)), 2, big))
				refused = r.Status == nfsx.ErrJukebox
			case "readdir":
				r := s.nfsAs(cl, nfsx.ProcReaddir, nfsx.ArgsReaddir(root, 0, [8]byte{}, 4096))
				refused = r.Status == nfsx.ErrJukebox
			case "readdirplus":
				r := s.nfsAs(cl, nfsx.ProcReaddirplus, nfsx.ArgsReaddirplus(root, 0, [8]byte{}, 4096, 8192))
				refused = r.Status == nfsx.ErrJukebox
			case "readdir_next":
				r := s.nfsAs(cl, nfsx.ProcReaddir, nfsx.ArgsReaddir(root, uint64(1+i%3), [8]byte{}, 4096))
				refused = r.Status == nfsx.ErrJukebox
			case "readdirplus_next":
				r := s.nfsAs(cl, nfsx.ProcReaddirplus, nfsx.ArgsReaddirplus(root, uint64(1+i%3), [8]byte{}, 4096, 8192))
				refused = r.Status == nfsx.ErrJukebox
			case "mnt":
				_, st, err := s.e.Mount(cl, "/")
				if err != nil {
					stat.Discard(drv.IsMalformed(err))
					panic(abandon{err.Error()})
				}
				refused = st == 10006
			}
			key := fmt.Sprintf("%d/%s", ev.IP, bucket)
			b := perOp[key]
			if b == nil {
				b = newIdeal(rates[bucket], bursts[bucket], now)
				perOp[key] = b
			}
			b.refill(now)
			what := fmt.Sprintf("event#%d %s from ip %d at +%v (ideal bucket %s tokens)", i, ev.Op, ev.IP, now.Sub(start), b.tokens.FloatString(6))
			if refused {
				refusals++
				if b.has() {
					if stat.Violate(tb, id, check, "handler-refuses-with-tokens-available", c, "%s was refused", what) {
						return
					}
				}
			} else {
				if refusals > 0 {
					nt = true
				}
				if b.lacks() {
					if stat.Violate(tb, id, check, "handler-admits-with-empty-bucket", c, "%s was served", what) {
						return
					}
				}
				if b.tokens.Cmp(ratOne) >= 0 {
					b.tokens.Sub(b.tokens, ratOne)
				} else {
					b.tokens.SetInt64(0)
				}
			}
		}
	})
	if abandoned {
		return
	}
	stat.Case(c, nt)
}

var propC18H = defProp("C18", "TestC18Handlers", genRLH, runRLH)

func TestC18Handlers(t *testing.T) { propC18H.Test(t) }
