package checks

import (
	"errors"
	"fmt"
	"sync"
	"sync/atomic"
	"time"

	"github.com/absfs/absfs"
	"github.com/absfs/absnfs"

	"verif/harness/drv"
	"verif/harness/nfsx"
	"verif/harness/stat"
	"verif/harness/vfs"
)

// errAbandon is panicked through a case when a reply is malformed (only C14
// judges reply shape) or the RPC layer refused a call the check needs.
type abandon struct{ why string }

// session wraps an Env with case-level bookkeeping.
type session struct {
	tb  stat.TB
	e   *drv.Env
	v   *vfs.FS
	cl  drv.Client
	bad bool // a malformed reply was seen: the case is discarded
	// tolerateMalformed: a reply the strict decoder rejects yields a placeholder
	// result (Status 0xFFFFFFFF) instead of abandoning the case. For checks whose
	// oracle does not read the reply (backend recorder checks).
	tolerateMalformed bool
	decoy             *absnfs.AbsfsNFS
	wedged            bool // a configuration call never returned; the export is left alone
}

// newDecoy creates a second, unrelated export in the same process with settings that contrast with opts (other
// read-only flag, tiny transfer size and file-size limit, other squash mode, one cache slot) and retunes it once.
// Exports share nothing: whatever the decoy is configured with may not show in the export under test.
func newDecoy(opts absnfs.ExportOptions) *absnfs.AbsfsNFS {
	sq := "all"
	if opts.Squash == "all" {
		sq = "none"
	}
	d, err := absnfs.New(vfs.New(), absnfs.ExportOptions{ReadOnly: !opts.ReadOnly, TransferSize: 512, MaxFileSize: 1, Squash: sq, AttrCacheSize: 1, AttrCacheTimeout: time.Hour,
		CacheNegativeLookups: !opts.CacheNegativeLookups, EnableDirCache: !opts.EnableDirCache, MaxWorkers: 1, Secure: true, AllowedIPs: []string{"203.0.113.77"}})
	if err != nil {
		return nil
	}
	d.UpdateTuningOptions(func(o *absnfs.TuningOptions) { o.TransferSize = 600; o.AttrCacheSize = 2 })
	return d
}

func newSession(tb stat.TB, v *vfs.FS, opts absnfs.ExportOptions) *session {
	e, err := drv.New(v, opts)
	if err != nil {
		tb.Fatalf("harness: absnfs.New: %v", err)
	}
	return &session{tb: tb, e: e, v: v, cl: drv.Root(), decoy: newDecoy(opts)}
}

// newSessionOn is newSession with the server running on backend (a wrapper around v).
func newSessionOn(tb stat.TB, backend absfs.SymlinkFileSystem, v *vfs.FS, opts absnfs.ExportOptions) *session {
	e, err := drv.New(backend, opts)
	if err != nil {
		tb.Fatalf("harness: absnfs.New: %v", err)
	}
	return &session{tb: tb, e: e, v: v, cl: drv.Root(), decoy: newDecoy(opts)}
}

func (s *session) close() {
	if s.decoy != nil {
		s.decoy.Close()
	}
	if s.wedged {
		return // a configuration call of this export never returned: closing it would park this goroutine too
	}
	if s.e.ViaConn {
		stat.Label("session_over_connection_loop", 1)
	}
	o := s.e.NFS.GetExportOptions()
	if o.Log != nil && o.Log.Level == "debug" {
		stat.Label("session_with_debug_logging", 1)
	}
	if o.EnableRateLimiting && o.RateLimitConfig != nil && o.RateLimitConfig.GlobalRequestsPerSecond == 1000000 {
		stat.Label("session_with_idle_rate_limiting", 1)
	}
	s.e.Close()
}

// updWait: how long a configuration update of an export with no request in flight may take before the case is decided
// as "never returns". The first detection in a process waits generously; the repetitions rapid makes while shrinking
// use a short wait (they only decide how small the reported case gets).
var updSeen atomic.Bool

func updWait() time.Duration {
	if updSeen.Load() {
		return 2 * time.Second
	}
	return 30 * time.Second
}

// bounded runs a configuration call of the session's export that has nothing to wait for (no request of the session is
// in flight) and reports whether it returned. When it did not, the session is marked wedged and is not closed.
func (s *session) bounded(f func() error) (err error, returned bool) {
	done := make(chan error, 1)
	go func() { done <- f() }()
	select {
	case err = <-done:
		return err, true
	case <-time.After(updWait()):
		updSeen.Store(true)
		s.wedged = true
		return nil, false
	}
}

// guard runs f and converts an abandon panic into a discarded case.
func guard(f func()) (abandoned bool) {
	defer func() {
		if r := recover(); r != nil {
			if a, ok := r.(abandon); ok {
				abandoned = true
				why := a.why
				if len(why) > 60 {
					why = why[:60]
				}
				stat.Label("abandoned: "+why, 1)
				return
			}
			panic(r)
		}
	}()
	f()
	return false
}

// nfs issues an NFSv3 call as s.cl; malformed replies abandon the case.
func (s *session) nfs(proc uint32, args []byte) *nfsx.Res { return s.nfsAs(s.cl, proc, args) }

func (s *session) nfsAs(cl drv.Client, proc uint32, args []byte) *nfsx.Res {
	res, err := s.e.NFS3(cl, proc, args)
	if err != nil {
		if drv.IsMalformed(err) {
			if s.tolerateMalformed {
				stat.Label("malformed_reply_tolerated", 1)
				return &nfsx.Res{Proc: proc, Status: 0xFFFFFFFF}
			}
			stat.Discard(true)
			panic(abandon{err.Error()})
		}
		var na *drv.ErrNotAccepted
		if errors.Is(err, drv.ErrConnClosed) && s.tolerateMalformed {
			stat.Label("connection_closed_instead_of_reply_tolerated", 1)
			return &nfsx.Res{Proc: proc, Status: 0xFFFFFFFD}
		}
		if errors.As(err, &na) && s.tolerateMalformed {
			stat.Label("rpc_not_accepted_tolerated", 1)
			return &nfsx.Res{Proc: proc, Status: 0xFFFFFFFE}
		}
		if errors.As(err, &na) {
			stat.Discard(false)
			panic(abandon{err.Error()})
		}
		if errors.Is(err, drv.ErrTimeout) || errors.Is(err, drv.ErrConnClosed) {
			stat.Discard(false)
			panic(abandon{err.Error()})
		}
		s.tb.Fatalf("harness: %v", err)
	}
	return res
}

func (s *session) mount() []byte {
	fh, st, err := s.e.Mount(drv.Root(), "/")
	if err != nil {
		if drv.IsMalformed(err) {
			stat.Discard(true)
			panic(abandon{err.Error()})
		}
		if errors.Is(err, drv.ErrTimeout) {
			// (a request timeout of the export under test expired during the harness' own setup: a starved machine)
			stat.Discard(false)
			panic(abandon{err.Error()})
		}
		s.tb.Fatalf("harness: MNT: %v", err)
	}
	if st != 0 {
		s.tb.Fatalf("harness: MNT / status %d", st)
	}
	return fh
}

func statusName(s uint32) string {
	names := map[uint32]string{0: "OK", 1: "PERM", 2: "NOENT", 5: "IO", 6: "NXIO", 13: "ACCES", 17: "EXIST", 18: "XDEV", 19: "NODEV", 20: "NOTDIR",
		21: "ISDIR", 22: "INVAL", 27: "FBIG", 28: "NOSPC", 30: "ROFS", 31: "MLINK", 63: "NAMETOOLONG", 66: "NOTEMPTY", 69: "DQUOT", 70: "STALE",
		71: "REMOTE", 10001: "BADHANDLE", 10002: "NOT_SYNC", 10003: "BAD_COOKIE", 10004: "NOTSUPP", 10005: "TOOSMALL", 10006: "SERVERFAULT",
		10007: "BADTYPE", 10008: "JUKEBOX"}
	if n, ok := names[s]; ok {
		return n
	}
	return fmt.Sprintf("status(%d)", s)
}

func ttlOf(ns int64) time.Duration { return time.Duration(ns) }

// cacheCfg is the cache part of ExportOptions in serialisable form.
type cacheCfg struct {
	AttrTTLns int64 `json:"attr_ttl_ns"`
	AttrSize  int   `json:"attr_size"`
	DirCache  bool  `json:"dir_cache"`
	Negative  bool  `json:"negative"`
	// Conn (not a cache setting; it travels with the session configuration of the history checks): every request of
	// the case goes through the server's record-marking connection loop (drv.Env.ViaConn) instead of a direct HandleCall.
	Conn bool `json:"conn,omitempty"`
	// Verbose (not a cache setting either): debug-level JSON logging of operations, file access and client addresses
	// is switched on (to /dev/null). Logging must not change any reply.
	Verbose bool `json:"verbose,omitempty"`
	// Limits (likewise): rate limiting is enabled with limits far above anything a case sends (10^6 everywhere), so
	// that nothing is ever refused. Enabled-but-idle rate limiting must not change any reply.
	Limits bool `json:"limits,omitempty"`
}

func (c cacheCfg) apply(o *absnfs.ExportOptions) {
	o.AttrCacheTimeout = time.Duration(c.AttrTTLns)
	o.AttrCacheSize = c.AttrSize
	o.EnableDirCache = c.DirCache
	o.CacheNegativeLookups = c.Negative
	if c.DirCache {
		o.DirCacheTimeout = time.Hour
	}
	if c.Negative {
		o.NegativeCacheTimeout = time.Hour
	}
	if c.Limits {
		o.EnableRateLimiting = true
		o.RateLimitConfig = &absnfs.RateLimiterConfig{GlobalRequestsPerSecond: 1000000, PerIPRequestsPerSecond: 1000000, PerIPBurstSize: 1000000,
			PerConnectionRequestsPerSecond: 1000000, PerConnectionBurstSize: 1000000, ReadLargeOpsPerSecond: 1000000, WriteLargeOpsPerSecond: 1000000,
			ReaddirOpsPerSecond: 1000000, MountOpsPerMinute: 1000000, FileHandlesPerIP: 1000000, FileHandlesGlobal: 10000000, CleanupInterval: 5 * time.Minute}
	}
	if c.Verbose {
		o.Log = &absnfs.LogConfig{Level: "debug", Format: "json", Output: "/dev/null", LogClientIPs: true, LogOperations: true, LogFileAccess: true}
	}
}

// baselineCaches is the "all caches off" configuration (minimal TTL, size 1).
var baselineCaches = cacheCfg{AttrTTLns: 1, AttrSize: 1}

func (c cacheCfg) anyOn() bool { return c.AttrTTLns > 1000 || c.DirCache || c.Negative }

func newOpts(c cacheCfg) absnfs.ExportOptions {
	var o absnfs.ExportOptions
	c.apply(&o)
	return o
}

// startDrain puts the server into the policy-drain state: a LOOKUP of /f (the caller seeds it) issued as cl is
// parked inside the backend, UpdatePolicyOptions(pol) is started and blocks on it, and the function returns once a
// probe as cl is answered NFS3ERR_JUKEBOX (the drain is then in progress until release is called). ok=false: the
// state could not be established (nothing is left running).
func startDrain(tb stat.TB, s *session, v *vfs.FS, cl drv.Client, pol absnfs.PolicyOptions) (release func(), ok bool) {
	root, st, err := s.e.Mount(cl, "/")
	if err != nil || st != 0 {
		return func() {}, false
	}
	gate, parked := make(chan struct{}), make(chan struct{})
	var once sync.Once
	var armed atomic.Bool
	armed.Store(true)
	v.SetBefore(func(call *vfs.Call) {
		if call.Op == "Lstat" && armed.CompareAndSwap(true, false) {
			once.Do(func() { close(parked) })
			<-gate
		}
	})
	reqDone, updDone := make(chan struct{}), make(chan error, 1)
	go func() {
		defer close(reqDone)
		s.e.Call(cl, nfsx.ProgNFS, 3, nfsx.ProcLookup, nfsx.ArgsDirop(root, "f"))
	}()
	released := false
	release = func() {
		if released {
			return
		}
		released = true
		close(gate)
		<-reqDone
		select {
		case <-updDone:
		case <-time.After(20 * time.Second):
			tb.Fatalf("harness: policy update did not finish after the gate opened")
		}
		v.SetBefore(nil)
	}
	select {
	case <-parked:
	case <-time.After(10 * time.Second):
		armed.Store(false)
		close(gate)
		<-reqDone
		v.SetBefore(nil)
		return func() {}, false
	}
	go func() { updDone <- s.e.NFS.UpdatePolicyOptions(pol) }()
	deadline := time.Now().Add(10 * time.Second)
	for {
		rp, err := s.e.Call(cl, nfsx.ProgNFS, 3, nfsx.ProcGetattr, nfsx.ArgsFh(root))
		if err == nil && rp.Stat == nfsx.MsgAccepted && rp.AcceptStat == 0 && len(rp.Body) >= 4 && (&nfsx.R{B: rp.Body}).U32() == nfsx.ErrJukebox {
			return release, true
		}
		if time.Now().After(deadline) {
			release()
			return func() {}, false
		}
		time.Sleep(200 * time.Microsecond)
	}
}
