package checks

// C05 File handles are live when issued, one per path, and the table is bounded.
// C06 A handle value never silently refers to a different object.
//
// Two levels: (a) FileHandleMap alone (rapid histories of Allocate / Release /
// ReleaseAll / Get for small and default maxima); (b) protocol level with a
// small handle limit set through the shim and a client that keeps and re-uses
// every handle value it was ever given, including across Unexport/re-export.

import (
	"path"
	"strings"
	"fmt"
	"testing"

	"github.com/absfs/absnfs"
	"pgregory.net/rapid"

	"verif/harness/drv"
	"verif/harness/nfsx"
	"verif/harness/stat"
	"verif/harness/vfs"
)

// ------------------------------------------------------------------ (a) FileHandleMap alone

type fmOp struct {
	Kind string `json:"kind"` // alloc release releaseall get
	Arg  int    `json:"arg"`
}
type fmCase struct {
	Max int    `json:"max"`
	Ops []fmOp `json:"ops"`
}

func genFM(t *rapid.T) fmCase {
	c := fmCase{Max: pick(t, "max", 1, 2, 3, 5, 10, 20, 25, 37)}
	n := rapid.IntRange(1, 20*c.Max+10).Draw(t, "nops")
	if n > 400 {
		n = 400
	}
	for i := 0; i < n; i++ {
		op := fmOp{Kind: pick(t, "kind", "alloc", "alloc", "alloc", "alloc", "alloc", "alloc", "release", "get", "releaseall")}
		if op.Kind == "releaseall" && rapid.IntRange(0, 5).Draw(t, "rare") != 0 {
			op.Kind = "alloc"
		}
		op.Arg = rapid.IntRange(0, 3*c.Max+2).Draw(t, "arg")
		c.Ops = append(c.Ops, op)
	}
	return c
}

func runFM(tb stat.TB, c fmCase, id, check string) {
	fs := vfs.New()
	fm := absnfs.VerifNewFileHandleMap(c.Max)
	last := map[string]uint64{}   // path -> last value issued for it
	ghost := map[uint64]string{}  // value -> path it was first given for (current epoch)
	var issued []uint64
	fullWithFree, evictions := false, false
	usedAfterGone := false
	for i, op := range c.Ops {
		switch op.Kind {
		case "alloc":
			p := fmt.Sprintf("/p%d", op.Arg)
			h0, had := last[p]
			live0 := false
			if had {
				pp, ok := fm.VerifHandlePaths()[h0]
				live0 = ok && pp == p
			}
			if fm.Count() >= c.Max && fm.VerifFreeLen() > 0 {
				fullWithFree = true
			}
			before := fm.Count()
			liveBefore := fm.VerifHandlePaths()
			h := fm.Allocate(absnfs.VerifNewNode(fs, p))
			if id == "C06" {
				if g, was := liveBefore[h]; was && g != p {
					// not the documented recycling of a freed id: the value was live for another path a moment ago
					if stat.Violate(tb, id, check, "live-handle-value-issued-for-another-path", c, "op#%d Allocate(%s) returned %d, which was live for %s immediately before", i, p, h, g) {
						return
					}
				}
			}
			if fm.Count() <= before && !live0 {
				evictions = true
			}
			if id == "C05" {
				// (only C05 resolves the fresh handle: C06 must not disturb whatever
				// state Get keeps between lookups)
				f, ok := fm.Get(h)
				pp, _ := absnfs.VerifNodePath(f)
				if !ok || pp != p {
					if stat.Violate(tb, id, check, "allocate-returns-dead-handle", c, "op#%d Allocate(%s) returned %d but Get(%d) = (%q, %v)", i, p, h, h, pp, ok) {
						return
					}
				}
				if live0 && h != h0 {
					if stat.Violate(tb, id, check, "live-path-gets-second-handle", c, "op#%d Allocate(%s) returned %d although %d was still live for that path", i, p, h, h0) {
						return
					}
				}
				if n := fm.Count(); n > c.Max {
					if stat.Violate(tb, id, check, "table-exceeds-maximum", c, "op#%d Count()=%d > max %d", i, n, c.Max) {
						return
					}
				}
				// one handle per path: the table and its path index describe the same bijection
				byHandle, byPath := fm.VerifHandlePaths(), fm.VerifPathHandles()
				for pp, hh := range byPath {
					if byHandle[hh] != pp {
						if stat.Violate(tb, id, check, "two-live-paths-share-a-handle-value", c, "op#%d after Allocate(%s)=%d: the path index maps %s to %d, which the table serves as %q", i, p, h, pp, hh, byHandle[hh]) {
							return
						}
					}
				}
				if len(byHandle) != len(byPath) {
					if stat.Violate(tb, id, check, "two-live-paths-share-a-handle-value", c, "op#%d after Allocate(%s)=%d: %d live handles but %d indexed paths", i, p, h, len(byHandle), len(byPath)) {
						return
					}
				}
			}
			if id == "C06" {
				if g, seen := ghost[h]; seen && g != p {
					// the design recycles freed ids (docs/internals/file-handles.md, pinned tests): listed known finding
					if stat.IsKnown(id, "handle-value-reissued-after-eviction-or-release") {
						stat.KnownObserved(id, "handle-value-reissued-after-eviction-or-release", fmt.Sprintf("value %d first given for %s was re-issued for %s", h, g, p))
					} else if stat.Violate(tb, id, check, "handle-value-reissued-after-eviction-or-release", c, "op#%d value %d first given for %s was re-issued for %s", i, h, g, p) {
						return
					}
				}
			}
			ghost[h] = p
			last[p] = h
			issued = append(issued, h)
		case "release":
			if len(issued) > 0 {
				fm.Release(issued[op.Arg%len(issued)])
			}
		case "releaseall":
			fm.ReleaseAll()
		case "get":
			if len(issued) == 0 {
				continue
			}
			h := issued[op.Arg%len(issued)]
			_, tracked := fm.VerifHandlePaths()[h]
			f, ok := fm.Get(h)
			if id == "C06" && ok && !tracked {
				pp, _ := absnfs.VerifNodePath(f)
				if stat.Violate(tb, id, check, "untracked-handle-not-stale", c, "op#%d Get(%d) = (%s, true) although the table no longer tracks that value", i, h, pp) {
					return
				}
			}
			if !ok {
				usedAfterGone = true
				continue
			}
			pp, _ := absnfs.VerifNodePath(f)
			if id == "C06" && pp != ghost[h] {
				if stat.Violate(tb, id, check, "handle-resolves-to-foreign-path", c, "op#%d Get(%d) = %s, but the value was given out for %s", i, h, pp, ghost[h]) {
					return
				}
			}
		}
	}
	nt := fullWithFree
	if id == "C06" {
		nt = usedAfterGone || evictions
	}
	var ls []string
	if fullWithFree {
		ls = append(ls, "alloc_while_full_with_free_list")
	}
	if evictions {
		ls = append(ls, "eviction")
	}
	stat.Case(c, nt, ls...)
}

var propC05FM = defProp("C05", "TestC05Map", genFM, func(tb stat.TB, c fmCase) { runFM(tb, c, "C05", "TestC05Map") })
var propC06FM = defProp("C06", "TestC06Map", genFM, func(tb stat.TB, c fmCase) { runFM(tb, c, "C06", "TestC06Map") })

func TestC05Map(t *testing.T) { propC05FM.Test(t) }
func TestC06Map(t *testing.T) { propC06FM.Test(t) }

// ------------------------------------------------------------------ (b) protocol level

type fhOp struct {
	Kind string `json:"kind"` // mnt lookup create mkdir symlink readdirplus use lookupvia release unexport remove rename
	Dir  int    `json:"dir"`
	Name int    `json:"name"`
	K    int    `json:"k"`
}
type fhCase struct {
	Max int    `json:"max"` // 0 = default limit
	Ops []fhOp `json:"ops"`
}

const fhDirs, fhFiles = 3, 6

func genFH(t *rapid.T) fhCase {
	c := fhCase{Max: pick(t, "max", 3, 5, 8, 12, 37, 0)}
	n := rapid.IntRange(3, 60).Draw(t, "nops")
	for i := 0; i < n; i++ {
		op := fhOp{Kind: pick(t, "kind", "lookup", "lookup", "lookup", "lookup", "create", "mkdir", "symlink", "readdirplus", "use", "use", "use", "lookupvia", "release", "unexport", "mnt", "remove", "rename")}
		if op.Kind == "unexport" && rapid.IntRange(0, 3).Draw(t, "rare") != 0 {
			op.Kind = "use"
		}
		op.Dir = rapid.IntRange(0, fhDirs-1).Draw(t, "dir")
		op.Name = rapid.IntRange(0, fhFiles+3).Draw(t, "name")
		op.K = rapid.IntRange(0, 200).Draw(t, "k")
		c.Ops = append(c.Ops, op)
	}
	return c
}

func runFH(tb stat.TB, c fhCase, id, check string) {
	v := vfs.New()
	for d := 0; d < fhDirs; d++ {
		v.SeedDir(fmt.Sprintf("/d%d", d), 0755, 0, 0)
		for f := 0; f < fhFiles; f++ {
			v.SeedFile(fmt.Sprintf("/d%d/n%d", d, f), 0644, 0, 0, []byte{byte(d), byte(f)})
		}
	}
	s := newSession(tb, v, absnfs.ExportOptions{AttrCacheTimeout: 1, AttrCacheSize: 2})
	defer s.close()
	fm := s.e.NFS.VerifFileMap()
	v.SetRecording(true)
	effMax := c.Max
	if c.Max > 0 {
		fm.VerifSetMax(c.Max)
	} else {
		effMax = absnfs.DefaultMaxHandles
	}
	last := map[string]uint64{}
	ghost := map[uint64]string{}
	gepoch := map[uint64]int{}
	epoch := 0
	var issued []uint64
	var dirFh [fhDirs][]byte
	var root []byte
	usedGone, evicted := false, false
	fullFree := false
	everFull := false                  // the table has been at its limit at some point: entries may have been evicted
	releasedByUs := map[uint64]bool{} // values the harness released explicitly (Release, Unexport)
	labels := map[string]bool{}

	// got is called for every handle a reply carried.
	got := func(i int, via string, p string, fh []byte, preLive map[string]bool) bool {
		h, ok := nfsx.FhVal(fh)
		if !ok {
			return false
		}
		if id == "C05" {
			hp, live := s.e.NFS.VerifHandlePath(h)
			if !live || hp != p {
				return stat.Violate(tb, id, check, "reply-carries-dead-handle", c, "op#%d %s returned handle %d for %s but the table maps it to (%q, live=%v)", i, via, h, p, hp, live)
			}
			g := s.nfs(nfsx.ProcGetattr, nfsx.ArgsFh(fh))
			if g.Status == nfsx.ErrStale {
				return stat.Violate(tb, id, check, "reply-carries-dead-handle", c, "op#%d %s returned handle %d for %s; the immediately following GETATTR replied STALE", i, via, h, p)
			}
			if h0, had := last[p]; had && preLive[p] && h0 != h {
				return stat.Violate(tb, id, check, "live-path-gets-second-handle", c, "op#%d %s returned %d for %s although %d was still live for it", i, via, h, p, h0)
			}
			if n := fm.Count(); n > effMax {
				return stat.Violate(tb, id, check, "table-exceeds-maximum", c, "op#%d Count()=%d > max %d", i, n, effMax)
			}
		}
		if id == "C06" {
			if g, seen := ghost[h]; seen && g != p && preLive != nil && preLive[g] && last[g] == h {
				// a single-allocation request cannot have freed the id it returns: this is not the documented
				// recycling of a freed id, the value was live for another path when the request arrived
				return stat.Violate(tb, id, check, "live-handle-value-issued-for-another-path", c, "op#%d %s: value %d was live for %s when the request arrived and was issued for %s", i, via, h, g, p)
			}
			if g, seen := ghost[h]; seen && g != p && !everFull && !releasedByUs[h] && gepoch[h] == epoch {
				// the documented design recycles ids freed by eviction (table at its limit) or by an explicit
				// Release/ReleaseAll: neither happened to this value, something else gave it away
				return stat.Violate(tb, id, check, "handle-value-freed-without-eviction-or-release", c, "op#%d %s: value %d, given out for %s, was issued for %s although the table never reached its limit and nobody released the value", i, via, h, g, p)
			}
			if g, seen := ghost[h]; seen && g != p {
				sig := "handle-value-reissued-after-eviction-or-release"
				if gepoch[h] < epoch {
					sig = "handle-value-reissued-across-unexport"
				}
				msg := fmt.Sprintf("op#%d %s: value %d first given for %s was re-issued for %s", i, via, h, g, p)
				if stat.IsKnown(id, sig) {
					stat.KnownObserved(id, sig, msg)
				} else if stat.Violate(tb, id, check, sig, c, "%s", msg) {
					return true
				}
			}
		}
		ghost[h] = p
		gepoch[h] = epoch
		last[p] = h
		issued = append(issued, h)
		return false
	}
	liveNow := func() map[string]bool {
		out := map[string]bool{}
		for p, h := range last {
			if hp, ok := s.e.NFS.VerifHandlePath(h); ok && hp == p {
				out[p] = true
			}
		}
		return out
	}
	// useValue issues a request through an old value and applies the C06 oracle.
	useValue := func(i int, h uint64, proc uint32, args []byte, what string) (res *nfsx.Res, stop bool) {
		want, seen := ghost[h]
		hp, live := s.e.H.VerifLookupNodePath(h)
		n0 := v.NumCalls()
		res = s.nfs(proc, args)
		if id != "C06" || !seen {
			return res, false
		}
		// backend log: the request may touch only the path the value was given
		// for (and, for LOOKUP, names below it), whatever the table claims
		for _, call := range v.Calls()[n0:] {
			for _, bp := range call.Paths {
				bp = path.Clean("/" + bp)
				if bp == want || (proc == nfsx.ProcLookup && strings.HasPrefix(bp, strings.TrimSuffix(want, "/")+"/")) {
					continue
				}
				return res, stat.Violate(tb, id, check, "request-served-against-foreign-path", c, "op#%d %s through value %d (given to the client for %s, table: %q live=%v): backend call %s", i, what, h, want, hp, live, call)
			}
		}
		if !live {
			usedGone = true
			if res.Status != nfsx.ErrStale {
				return res, stat.Violate(tb, id, check, "untracked-handle-not-stale", c, "op#%d %s through value %d (no longer tracked) replied %s, want NFS3ERR_STALE", i, what, h, statusName(res.Status))
			}
			return res, false
		}
		if hp != want {
			return res, stat.Violate(tb, id, check, "handle-resolves-to-foreign-path", c, "op#%d %s through value %d is served against %s, but the value was given to the client for %s", i, what, h, hp, want)
		}
		if proc == nfsx.ProcGetattr && res.Status == nfsx.OK {
			if ent, ok := v.PeekLstat(want); ok {
				wt := map[string]uint32{"file": nfsx.TypeReg, "dir": nfsx.TypeDir, "link": nfsx.TypeLnk}[ent.Type]
				if res.Attr.Type != wt || (ent.Type == "file" && int64(res.Attr.Size) != ent.Size) {
					return res, stat.Violate(tb, id, check, "handle-serves-foreign-attributes", c, "op#%d GETATTR through value %d (given for %s) returned type %d size %d, the object is %+v", i, h, want, res.Attr.Type, res.Attr.Size, ent)
				}
			}
		}
		return res, false
	}

	abandoned := guard(func() {
		root = s.mount()
		if got(-1, "MNT", "/", root, liveNow()) {
			return
		}
		for i, op := range c.Ops {
			if fm.Count() >= effMax && fm.VerifFreeLen() > 0 {
				fullFree = true
			}
			if fm.Count()+fhFiles+3 >= effMax {
				everFull = true // (conservative: one more request could fill the table)
			}
			before := fm.Count()
			pre := liveNow()
			dpath := fmt.Sprintf("/d%d", op.Dir)
			ensureDir := func() bool {
				// (re)obtain a live handle for the directory
				if dirFh[op.Dir] != nil {
					if h, ok := nfsx.FhVal(dirFh[op.Dir]); ok {
						if hp, live := s.e.NFS.VerifHandlePath(h); live && hp == dpath {
							return true
						}
					}
				}
				if hr, ok := nfsx.FhVal(root); !ok || func() bool { hp, live := s.e.NFS.VerifHandlePath(hr); return !live || hp != "/" }() {
					pre = liveNow()
					root = s.mount()
					if got(i, "MNT", "/", root, pre) {
						return false
					}
				}
				pre = liveNow()
				r := s.nfs(nfsx.ProcLookup, nfsx.ArgsDirop(root, fmt.Sprintf("d%d", op.Dir)))
				if r.Status != nfsx.OK {
					labels["dir_lookup_failed"] = true
					return false
				}
				dirFh[op.Dir] = r.Fh
				return !got(i, "LOOKUP", dpath, r.Fh, pre)
			}
			switch op.Kind {
			case "mnt":
				pre = liveNow()
				root = s.mount()
				if got(i, "MNT", "/", root, pre) {
					return
				}
				// MNT of a directory under any spelling of its path names the same object: one handle per path
				sp := []string{"/d%d", "/d%d/", "//d%d", "/d%d/.", "/./d%d", "/d%d/../d%d", "/d%d//"}[op.K%7]
				mp := strings.ReplaceAll(sp, "%d", fmt.Sprint(op.Dir))
				pre = liveNow()
				if mfh, st, err := s.e.Mount(drv.Root(), mp); err == nil && st == 0 {
					labels["mnt_directory_spelling"] = true
					if got(i, "MNT "+mp, dpath, mfh, pre) {
						return
					}
				}
			case "lookup":
				if !ensureDir() {
					continue
				}
				name := fmt.Sprintf("n%d", op.Name)
				pre = liveNow()
				r := s.nfs(nfsx.ProcLookup, nfsx.ArgsDirop(dirFh[op.Dir], name))
				if r.Status == nfsx.OK && got(i, "LOOKUP", dpath+"/"+name, r.Fh, pre) {
					return
				}
			case "create", "mkdir", "symlink":
				if !ensureDir() {
					continue
				}
				name := fmt.Sprintf("%s%d_%d", op.Kind[:1], op.Name, i)
				var r *nfsx.Res
				switch op.Kind {
				case "create":
					pre = liveNow()
					r = s.nfs(nfsx.ProcCreate, nfsx.ArgsCreate(dirFh[op.Dir], name, nfsx.Unchecked, nfsx.Sattr{}, [8]byte{}))
				case "mkdir":
					pre = liveNow()
					r = s.nfs(nfsx.ProcMkdir, nfsx.ArgsMkdir(dirFh[op.Dir], name, nfsx.Sattr{}))
				default:
					pre = liveNow()
					r = s.nfs(nfsx.ProcSymlink, nfsx.ArgsSymlink(dirFh[op.Dir], name, nfsx.Sattr{}, "n0"))
				}
				if r.Status == nfsx.OK && r.Fh != nil && got(i, op.Kind, dpath+"/"+name, r.Fh, pre) {
					return
				}
			case "readdirplus":
				if !ensureDir() {
					continue
				}
				pre = liveNow()
				beforeRD := fm.Count() // (ensureDir may have allocated: count again right before the request)
				// (every other listing asks for a page of about three entries: only what a reply carries needs a handle)
				rdMax := uint32(1 << 16)
				if op.K%2 == 1 {
					rdMax = 700
					labels["readdirplus_one_small_page"] = true
				}
				r := s.nfs(nfsx.ProcReaddirplus, nfsx.ArgsReaddirplus(dirFh[op.Dir], 0, [8]byte{}, rdMax, rdMax))
				if r.Status != nfsx.OK {
					continue
				}
				if len(r.Entries)+2 >= effMax {
					// a listing with more entries than the table can hold necessarily returns dead handles (documented limit)
					labels["readdirplus_larger_than_table_skipped"] = true
					for _, e := range r.Entries {
						if h, ok := nfsx.FhVal(e.Fh); ok {
							ghost[h], gepoch[h] = dpath+"/"+e.Name, epoch
							last[dpath+"/"+e.Name] = h
							issued = append(issued, h)
						}
					}
					continue
				}
				// all handles of one reply must be live together: check after the reply.
				// An entry's old handle may have been evicted by an earlier allocation of
				// this same reply, so "same value while live" is only judged when the
				// request could not have evicted anything.
				preRD := pre
				if beforeRD+len(r.Entries) > effMax {
					preRD = nil
				}
				for _, e := range r.Entries {
					if e.Fh != nil && got(i, "READDIRPLUS", dpath+"/"+e.Name, e.Fh, preRD) {
						return
					}
				}
			case "use":
				if len(issued) == 0 {
					continue
				}
				h := issued[op.K%len(issued)]
				if _, stop := useValue(i, h, nfsx.ProcGetattr, nfsx.ArgsFh(nfsx.Fh8(h)), "GETATTR"); stop {
					return
				}
			case "lookupvia":
				if len(issued) == 0 {
					continue
				}
				h := issued[op.K%len(issued)]
				name := fmt.Sprintf("n%d", op.Name)
				base, liveBefore := s.e.H.VerifLookupNodePath(h)
				r, stop := useValue(i, h, nfsx.ProcLookup, nfsx.ArgsDirop(nfsx.Fh8(h), name), "LOOKUP")
				if stop {
					return
				}
				if r.Status == nfsx.OK && liveBefore {
					// the reply's handle names <path the request was served against>/<name>
					p := base + "/" + name
					if base == "/" {
						p = "/" + name
					}
					if got(i, "LOOKUP", p, r.Fh, pre) {
						return
					}
				}
			case "release":
				if len(issued) > 0 {
					fm.Release(issued[op.K%len(issued)])
					releasedByUs[issued[op.K%len(issued)]] = true
				}
			case "unexport":
				s.e.NFS.Unexport()
				epoch++
				labels["unexport"] = true
			case "remove", "rename":
				// namespace changes do not free handle values: a value given out for a path that is gone stays
				// bound to that path (NOENT / STALE), it is not handed to the next new path
				if !ensureDir() {
					continue
				}
				name := fmt.Sprintf("n%d", op.Name)
				if op.Kind == "remove" {
					s.nfs(nfsx.ProcRemove, nfsx.ArgsDirop(dirFh[op.Dir], name))
				} else {
					s.nfs(nfsx.ProcRename, nfsx.ArgsRename(dirFh[op.Dir], name, dirFh[op.Dir], fmt.Sprintf("r%d_%d", op.Name, i)))
				}
				labels["namespace_change"] = true
			}
			if fm.Count() < before || (fm.Count() == before && before >= effMax) {
				evicted = true
			}
		}
	})
	if abandoned {
		return
	}
	nt := fullFree
	if id == "C06" {
		nt = usedGone
	}
	var ls []string
	for l := range labels {
		ls = append(ls, l)
	}
	if evicted {
		ls = append(ls, "eviction_or_release")
	}
	if fullFree {
		ls = append(ls, "alloc_while_full_with_free_list")
	}
	if usedGone {
		ls = append(ls, "used_value_after_entry_gone")
	}
	stat.Case(c, nt, ls...)
}

var propC05FH = defProp("C05", "TestC05Proto", genFH, func(tb stat.TB, c fhCase) { runFH(tb, c, "C05", "TestC05Proto") })
var propC06FH = defProp("C06", "TestC06Proto", genFH, func(tb stat.TB, c fhCase) { runFH(tb, c, "C06", "TestC06Proto") })

func TestC05Proto(t *testing.T) { propC05FH.Test(t) }
func TestC06Proto(t *testing.T) { propC06FH.Test(t) }
