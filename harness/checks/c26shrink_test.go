package checks

// C26 with a directory that shrinks between two pages: a client lists a directory page by page (following the
// returned cookies) and removes entries through the server in between - the ordinary "rm -r". The directory is not
// the same for all pages, so completeness is not judged; what must still hold: every call is answered (OK, or
// NFS3ERR_BAD_COOKIE when the server says the cookie is no longer good), no entry is listed twice, every listed name
// was in the directory when the listing started, entries removed before the first page are not listed, and the
// listing ends with eof after a bounded number of calls.

import (
	"fmt"
	"sort"
	"strings"
	"sync"
	"testing"

	"pgregory.net/rapid"

	"verif/harness/drv"
	"verif/harness/nfsx"
	"verif/harness/stat"
	"verif/harness/vfs"
)

type c26sCase struct {
	N        int      `json:"n"`
	Plus     bool     `json:"plus"`
	PerPage  int      `json:"per_page"`  // roughly this many entries fit a page
	ShrinkAt []int    `json:"shrink_at"` // after these pages ...
	Remove   []int    `json:"remove"`    // ... entries with these ranks (mod what is left, in sorted order) are removed
	AtRoot   bool     `json:"at_root"`
	Cache    cacheCfg `json:"cache"`
}

func genC26s(t *rapid.T) c26sCase {
	return c26sCase{N: rapid.IntRange(2, 40).Draw(t, "n"), Plus: rapid.Bool().Draw(t, "plus"), PerPage: rapid.IntRange(1, 8).Draw(t, "perpage"),
		ShrinkAt: rapid.SliceOfN(rapid.IntRange(1, 6), 1, 3).Draw(t, "shrinkat"), Remove: rapid.SliceOfN(rapid.IntRange(0, 60), 1, 40).Draw(t, "remove"),
		AtRoot: rapid.Bool().Draw(t, "atroot"),
		Cache:  cacheCfg{AttrTTLns: pick(t, "ttl", int64(1), int64(3600e9)), AttrSize: 10000, DirCache: rapid.Bool().Draw(t, "dc"), Conn: rapid.IntRange(0, 3).Draw(t, "conn") == 0}}
}

func runC26s(tb stat.TB, c c26sCase) {
	const id, check = "C26", "TestC26Shrink"
	v := vfs.New()
	base := "/dir"
	if c.AtRoot {
		base = ""
	} else {
		v.SeedDir("/dir", 0755, 0, 0)
	}
	orig := map[string]bool{}
	var left []string
	for i := 0; i < c.N; i++ {
		n := fmt.Sprintf("entry%02d", i)
		orig[n] = true
		left = append(left, n)
		v.SeedFile(base+"/"+n, 0644, 0, 0, []byte("x"))
	}
	sort.Strings(left)
	s := newSession(tb, v, newOpts(c.Cache))
	defer s.close()
	s.e.ViaConn = c.Cache.Conn
	removed := 0
	abandoned := guard(func() {
		root := s.mount()
		dir := root
		if !c.AtRoot {
			r := s.nfs(nfsx.ProcLookup, nfsx.ArgsDirop(root, "dir"))
			if r.Status != nfsx.OK {
				tb.Fatalf("harness: lookup dir")
			}
			dir = r.Fh
		}
		entry := 4 + 8 + 4 + 8 + 8
		if c.Plus {
			entry += 4 + 84 + 4 + 4 + 8
		}
		count := uint32(4 + 84 + 8 + 8 + c.PerPage*entry + 4)
		proc, pname := uint32(nfsx.ProcReaddir), "READDIR"
		if c.Plus {
			proc, pname = nfsx.ProcReaddirplus, "READDIRPLUS"
		}
		var cookie uint64
		var verf [8]byte
		seen := map[string]bool{}
		shrinkAt := map[int]bool{}
		for _, p := range c.ShrinkAt {
			shrinkAt[p] = true
		}
		ri := 0
		for page := 1; page <= c.N+8; page++ {
			var args []byte
			if c.Plus {
				args = nfsx.ArgsReaddirplus(dir, cookie, verf, count, count)
			} else {
				args = nfsx.ArgsReaddir(dir, cookie, verf, count)
			}
			res := s.nfs(proc, args)
			what := fmt.Sprintf("%s page %d (cookie %d) of a directory that held %d entries at the start and has lost %d since", pname, page, cookie, c.N, removed)
			if res.Status == nfsx.ErrBadCookie {
				stat.Label("bad_cookie_after_shrink", 1)
				return
			}
			if res.Status != nfsx.OK {
				stat.Violate(tb, id, check, "listing-of-shrinking-directory-fails", c, "%s replied %s", what, statusName(res.Status))
				return
			}
			for _, e := range res.Entries {
				if !orig[e.Name] {
					stat.Violate(tb, id, check, "listing-invents-entry", c, "%s lists %q, which was never in the directory", what, e.Name)
					return
				}
				if seen[e.Name] {
					stat.Violate(tb, id, check, "entry-listed-twice", c, "%s: %q returned again (entries were only removed, never added)", what, e.Name)
					return
				}
				seen[e.Name] = true
				cookie = e.Cookie
			}
			verf = res.CookieVerf
			if res.EOF {
				return
			}
			if len(res.Entries) == 0 {
				stat.Violate(tb, id, check, "empty-page-without-eof", c, "%s returned no entry and eof=false", what)
				return
			}
			if shrinkAt[page] {
				k := len(c.Remove) / len(c.ShrinkAt)
				if k < 1 {
					k = 1
				}
				for j := 0; j < k && len(left) > 0 && ri < len(c.Remove); j++ {
					idx := c.Remove[ri] % len(left)
					ri++
					name := left[idx]
					if r := s.nfs(nfsx.ProcRemove, nfsx.ArgsDirop(dir, name)); r.Status == nfsx.OK {
						left = append(left[:idx], left[idx+1:]...)
						removed++
					}
				}
			}
		}
		stat.Violate(tb, id, check, "listing-never-ends", c, "%s did not reach eof within %d calls", pname, c.N+8)
	})
	if abandoned {
		return
	}
	stat.Case(c, removed > 0)
}

var propC26s = defProp("C26", "TestC26Shrink", genC26s, runC26s)

func TestC26Shrink(t *testing.T) { propC26s.Test(t) }

// ---- several clients listing their own directories at the same time
//
// Each client pages through a directory of its own (distinct names, small counts); what the others list at the same
// moment may not show up in its pages: names, fileids, cookies and eof are this directory's.

type c26cCase struct {
	Clients int  `json:"clients"`
	N       int  `json:"n"`
	PerPage int  `json:"per_page"`
	Rounds  int  `json:"rounds"`
	Conn    bool `json:"conn"`
}

func genC26c(t *rapid.T) c26cCase {
	return c26cCase{Clients: rapid.IntRange(2, 5).Draw(t, "clients"), N: rapid.IntRange(3, 20).Draw(t, "n"), PerPage: rapid.IntRange(1, 6).Draw(t, "perpage"), Rounds: rapid.IntRange(1, 4).Draw(t, "rounds"), Conn: rapid.Bool().Draw(t, "conn")}
}

func runC26c(tb stat.TB, c c26cCase) {
	const id, check = "C26", "TestC26Concurrent"
	v := vfs.New()
	for ci := 0; ci < c.Clients; ci++ {
		v.SeedDir(fmt.Sprintf("/c%d", ci), 0755, 0, 0)
		for k := 0; k < c.N+ci; k++ {
			v.SeedFile(fmt.Sprintf("/c%d/n%d_%02d", ci, ci, k), 0644, 0, 0, []byte("x"))
		}
	}
	s := newSession(tb, v, newOpts(cacheCfg{AttrTTLns: 1, AttrSize: 100}))
	defer s.close()
	s.e.ViaConn = c.Conn
	var mu sync.Mutex
	var msg string
	guard(func() {
		root := s.mount()
		dirs := make([][]byte, c.Clients)
		for ci := range dirs {
			r := s.nfs(nfsx.ProcLookup, nfsx.ArgsDirop(root, fmt.Sprintf("c%d", ci)))
			if r.Status != nfsx.OK {
				tb.Fatalf("harness: lookup c%d", ci)
			}
			dirs[ci] = r.Fh
		}
		var wg sync.WaitGroup
		start := make(chan struct{})
		for ci := 0; ci < c.Clients; ci++ {
			wg.Add(1)
			go func(ci int) {
				defer wg.Done()
				defer func() { recover() }()
				cl := drv.Client{IP: fmt.Sprintf("10.8.0.%d", ci+1), Port: 700, Cred: drv.Root().Cred}
				<-start
				for round := 0; round < c.Rounds; round++ {
					plus := (round+ci)%2 == 0
					entry := 4 + 8 + 4 + 8 + 8
					if plus {
						entry += 4 + 84 + 4 + 4 + 8
					}
					count := uint32(4 + 84 + 8 + 8 + c.PerPage*entry + 4)
					var cookie uint64
					var verf [8]byte
					seen := map[string]bool{}
					for page := 0; page < c.N+ci+4; page++ {
						var res *nfsx.Res
						if plus {
							res = s.nfsAs(cl, nfsx.ProcReaddirplus, nfsx.ArgsReaddirplus(dirs[ci], cookie, verf, count, count))
						} else {
							res = s.nfsAs(cl, nfsx.ProcReaddir, nfsx.ArgsReaddir(dirs[ci], cookie, verf, count))
						}
						if res.Status != nfsx.OK {
							mu.Lock()
							msg = fmt.Sprintf("client %d page %d of its own directory replied %s while %d other clients were listing theirs", ci, page, statusName(res.Status), c.Clients-1)
							mu.Unlock()
							return
						}
						for _, e := range res.Entries {
							if !strings.HasPrefix(e.Name, fmt.Sprintf("n%d_", ci)) || seen[e.Name] {
								mu.Lock()
								msg = fmt.Sprintf("client %d page %d of /c%d lists %q (another directory's entry, or a repeat) while %d other clients were listing theirs", ci, page, ci, e.Name, c.Clients-1)
								mu.Unlock()
								return
							}
							seen[e.Name] = true
							cookie = e.Cookie
						}
						verf = res.CookieVerf
						if res.EOF {
							break
						}
						if len(res.Entries) == 0 {
							break
						}
					}
					if len(seen) != c.N+ci {
						mu.Lock()
						msg = fmt.Sprintf("client %d listed %d of the %d entries of /c%d (round %d) while %d other clients were listing theirs", ci, len(seen), c.N+ci, ci, round, c.Clients-1)
						mu.Unlock()
						return
					}
				}
			}(ci)
		}
		close(start)
		wg.Wait()
	})
	if msg != "" {
		stat.Violate(tb, id, check, "listing-mixed-with-another-clients", c, "%s", msg)
		return
	}
	stat.Case(c, true)
}

var propC26c = defProp("C26", "TestC26Concurrent", genC26c, runC26c)

func TestC26Concurrent(t *testing.T) { propC26c.Test(t) }
