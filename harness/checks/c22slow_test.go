package checks

// C22 with a slow backend and a short write timeout: a large FILE_SYNC WRITE whose backend writes take longer than
// WriteTimeout. Whatever the server then does - answer late, answer with a short count, not answer at all - a reply
// that says NFS3_OK, count n, committed FILE_SYNC promises that the first n bytes of the payload are on stable
// storage. The durable image is examined when the reply arrives and again after a further small FILE_SYNC write.

import (
	"fmt"
	"testing"
	"time"

	"github.com/absfs/absnfs"
	"pgregory.net/rapid"

	"verif/harness/drv"
	"verif/harness/nfsx"
	"verif/harness/stat"
	"verif/harness/vfs"
)

type c22sCase struct {
	Len       int    `json:"len"`
	Off       int    `json:"off"`
	SlowUs    int    `json:"slow_us"`    // every backend WriteAt takes this long
	TimeoutMs int    `json:"timeout_ms"` // WriteTimeout
	Stable    uint32 `json:"stable"`
}

func genC22s(t *rapid.T) c22sCase {
	return c22sCase{Len: pick(t, "len", 1000, 33000, 65536, 70000, 200000), Off: pick(t, "off", 0, 1, 4096), SlowUs: pick(t, "slow", 0, 2000, 8000, 30000),
		TimeoutMs: pick(t, "timeout", 5, 20, 60, 5000), Stable: pick(t, "stable", uint32(nfsx.Unstable), nfsx.DataSync, nfsx.FileSync, nfsx.FileSync)}
}

func runC22s(tb stat.TB, c c22sCase) {
	const id, check = "C22", "TestC22Slow"
	v := vfs.New()
	v.CrashMode = true
	to := drv.FastTimeouts(10 * time.Second)
	to.WriteTimeout = time.Duration(c.TimeoutMs) * time.Millisecond
	s := newSession(tb, v, absnfs.ExportOptions{AttrCacheTimeout: 1, AttrCacheSize: 2, TransferSize: 1 << 20, Timeouts: to})
	defer s.close()
	s.tolerateMalformed = true
	payload := make([]byte, c.Len)
	for i := range payload {
		payload[i] = byte(i*7+3) | 1
	}
	var sig, msg string
	judged := false
	guard(func() {
		root := s.mount()
		cr := s.nfs(nfsx.ProcCreate, nfsx.ArgsCreate(root, "slow", nfsx.Unchecked, nfsx.Sattr{}, [8]byte{}))
		if cr.Status != nfsx.OK || len(cr.Fh) == 0 {
			tb.Fatalf("harness: create: %s", statusName(cr.Status))
		}
		if c.SlowUs > 0 {
			d := time.Duration(c.SlowUs) * time.Microsecond
			v.SetBefore(func(call *vfs.Call) {
				if call.Op == "File.WriteAt" {
					time.Sleep(d)
				}
			})
		}
		res := s.nfs(nfsx.ProcWrite, nfsx.ArgsWrite(cr.Fh, uint64(c.Off), uint32(c.Len), c.Stable, payload))
		v.SetBefore(nil)
		examine := func(where string) bool {
			if res.Status != nfsx.OK || res.Committed != nfsx.FileSync || res.Count == 0 {
				return true
			}
			judged = true
			if int(res.Count) > c.Len {
				sig, msg = "write-count-exceeds-payload", fmt.Sprintf("%s: WRITE of %d bytes replied count %d", where, c.Len, res.Count)
				return false
			}
			got, dsize, ok := v.PeekDurable("/slow", int64(c.Off), int(res.Count))
			if !ok || dsize < int64(c.Off)+int64(res.Count) || len(got) < int(res.Count) {
				sig, msg = "stable-data-lost-on-crash", fmt.Sprintf("%s: WRITE offset=%d len=%d (backend writes take %d us each, WriteTimeout %d ms) replied OK count=%d committed=FILE_SYNC, but the durable image of the file is %d bytes long", where, c.Off, c.Len, c.SlowUs, c.TimeoutMs, res.Count, dsize)
				return false
			}
			for i := 0; i < int(res.Count); i++ {
				if got[i] != payload[i] {
					sig, msg = "stable-data-lost-on-crash", fmt.Sprintf("%s: WRITE offset=%d len=%d (backend writes take %d us each, WriteTimeout %d ms) replied OK count=%d committed=FILE_SYNC, but byte %d of the acknowledged range is %#x in the durable image, the payload has %#x", where, c.Off, c.Len, c.SlowUs, c.TimeoutMs, res.Count, i, got[i], payload[i])
					return false
				}
			}
			return true
		}
		if !examine("when the reply arrived") {
			return
		}
		// the server keeps working: a small stable write elsewhere in the file
		tail := s.nfs(nfsx.ProcWrite, nfsx.ArgsWrite(cr.Fh, 900000, 3, nfsx.FileSync, []byte{9, 9, 9}))
		if tail.Status == nfsx.OK && tail.Committed == nfsx.FileSync && tail.Count == 3 {
			if got, _, ok := v.PeekDurable("/slow", 900000, 3); !ok || len(got) != 3 || got[0] != 9 {
				sig, msg = "stable-data-lost-on-crash", "a 3-byte FILE_SYNC write after the slow one is not in the durable image"
				return
			}
		}
	})
	v.SetBefore(nil)
	if msg != "" {
		stat.Violate(tb, id, check, sig, c, "%s", msg)
		return
	}
	ls := []string{}
	if judged {
		ls = append(ls, "ok_file_sync_reply_judged")
	} else {
		ls = append(ls, "no_ok_file_sync_reply")
	}
	stat.Case(c, judged && c.SlowUs > 0 && c.Len > 32768, ls...)
}

var propC22s = defProp("C22", "TestC22Slow", genC22s, runC22s)

func TestC22Slow(t *testing.T) { propC22s.Test(t) }
