package checks

// C15, stalled clients: a client that stops sending in the middle of a record
// for longer than the server's read timeout (30 s on a record-marking
// connection) and then resumes. A server that gives up on the read must close
// the connection; it must not go on reading from the middle of the record, or
// the rest of the payload is parsed as fragment headers and calls embedded in
// it are answered. Generated: where the stall falls (byte offset inside the
// record) and what the record's payload embeds. All cases of a run stall
// concurrently, so the phase costs one timeout (about 32 s) of wall time.

import (
	"encoding/binary"
	"encoding/json"
	"errors"
	"fmt"
	"io"
	"net"
	"os"
	"sync"
	"testing"
	"time"

	"github.com/absfs/absnfs"

	"verif/harness/drv"
	"verif/harness/nfsx"
	"verif/harness/stat"
	"verif/harness/vfs"
)

type c15StallCase struct {
	StallAt int    `json:"stall_at"` // bytes of the framed record sent before the stall
	Embed   string `json:"embed"`    // what the call's name argument embeds: null-call getattr-call garbage
	StallMs int    `json:"stall_ms"`
}

const c15EmbeddedXid = 0xDEADBEEF

func runC15Stall(tb stat.TB, c c15StallCase) {
	const id, check = "C15", "TestC15Stall"
	v := vfs.New()
	v.SeedFile("/f", 0644, 0, 0, []byte("x"))
	s := newSession(tb, v, absnfs.ExportOptions{AttrCacheTimeout: 1, AttrCacheSize: 4, Timeouts: drv.FastTimeouts(5 * time.Second)})
	defer s.close()
	root := s.e.MustMount(tb)
	// the payload of the outer call embeds a complete framed call, so that a reader that resumes at the
	// wrong place finds something it can answer
	var inner []byte
	switch c.Embed {
	case "null-call":
		inner = nfsx.Frame(nfsx.Call(c15EmbeddedXid, nfsx.ProgNFS, 3, 0, nfsx.AuthNone(), nfsx.AuthNone(), nil))
	case "getattr-call":
		inner = nfsx.Frame(nfsx.Call(c15EmbeddedXid, nfsx.ProgNFS, 3, nfsx.ProcGetattr, nfsx.AuthSys(1, "h", 0, 0, nil), nfsx.AuthNone(), nfsx.ArgsFh(root)))
	default:
		inner = []byte{0x80, 0, 0, 4, 1, 2, 3, 4}
	}
	name := "A" + string(inner) // (contains NUL bytes: the LOOKUP itself is refused, which is fine)
	outer := nfsx.Frame(nfsx.Call(7001, nfsx.ProgNFS, 3, nfsx.ProcLookup, nfsx.AuthSys(1, "h", 0, 0, nil), nfsx.AuthNone(), nfsx.ArgsDirop(root, name)))
	sentinel := nfsx.Frame(nfsx.Call(7002, nfsx.ProgNFS, 3, 0, nfsx.AuthNone(), nfsx.AuthNone(), nil))
	at := c.StallAt
	if at >= len(outer) {
		at = len(outer) - 1
	}
	pc := s.e.PipeAdmitted("10.9.8.6", 700)
	if pc == nil {
		tb.Fatalf("harness: connection not admitted")
	}
	defer pc.Close()
	if err := pc.SendRaw(outer[:at]); err != nil {
		tb.Fatalf("harness: %v", err)
	}
	time.Sleep(time.Duration(c.StallMs) * time.Millisecond)
	// resume: the rest of the record and one more call
	werr := pc.SendRaw(append(append([]byte{}, outer[at:]...), sentinel...))
	var got []uint32
	closed := false
	for {
		rec, err := pc.Recv(2 * time.Second)
		if err != nil {
			var ne net.Error
			if errors.Is(err, io.EOF) || errors.Is(err, io.ErrClosedPipe) || errors.Is(err, io.ErrUnexpectedEOF) {
				closed = true
			} else if errors.As(err, &ne) && ne.Timeout() || errors.Is(err, os.ErrDeadlineExceeded) {
			} else {
				closed = true
			}
			break
		}
		if len(rec) >= 4 {
			got = append(got, binary.BigEndian.Uint32(rec))
		}
	}
	what := fmt.Sprintf("client stalled %d ms after %d of %d bytes of a record whose payload embeds a %s, then resumed (write error: %v)", c.StallMs, at, len(outer), c.Embed, werr)
	for _, x := range got {
		if x != 7001 && x != 7002 {
			stat.Violate(tb, id, check, "reply-for-bytes-inside-a-record-after-stall", c, "%s: the server answered xid %#x, which is not a call of the stream (replies: %#x)", what, x, got)
			return
		}
	}
	if len(got) == 2 && got[0] != 7001 {
		stat.Violate(tb, id, check, "reply-for-no-decodable-call-or-out-of-order", c, "%s: replies %#x", what, got)
		return
	}
	var ls []string
	if closed {
		ls = append(ls, "connection_closed_at_timeout")
	}
	if len(got) > 0 {
		ls = append(ls, "stream_served_after_stall")
	}
	stat.Case(c, c.StallMs >= 30000, ls...)
}

func init() {
	registry["TestC15Stall"] = func(tb stat.TB, raw json.RawMessage) error {
		var c c15StallCase
		if err := json.Unmarshal(raw, &c); err != nil {
			return err
		}
		runC15Stall(tb, c)
		return nil
	}
}

func TestC15Stall(t *testing.T) {
	stat.SetProperty("C15")
	// offsets: inside the fragment header, right after it, inside the RPC header, just before / inside / after the embedded frame
	var cases []c15StallCase
	for _, embed := range []string{"null-call", "getattr-call", "garbage"} {
		for _, at := range []int{2, 4, 12, 60, 84, 85, 86, 88, 92, 100, 1000} {
			cases = append(cases, c15StallCase{StallAt: at, Embed: embed, StallMs: 31500})
		}
		cases = append(cases, c15StallCase{StallAt: 85, Embed: embed, StallMs: 50}) // a short stall is harmless
	}
	var wg sync.WaitGroup
	for i, c := range cases {
		if i%nshards != shard {
			continue
		}
		wg.Add(1)
		go func(c c15StallCase) {
			defer wg.Done()
			stat.Begin(c)
			runC15Stall(t, c)
		}(c)
	}
	wg.Wait()
}
