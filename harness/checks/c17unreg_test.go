package checks

// C17, "every accepted connection is counted exactly once and uncounted when it
// ends": a connection can be ended by several parties at once (its own handler
// goroutine, the idle reaper, Stop). Generated schedules: connections are
// admitted through the server's own admission path and then unregistered by
// 2-4 goroutines released from a barrier, interleaved with new admissions.
// Oracle: the counter equals the size of the tracked set at every quiescent
// point, is never negative, returns to zero, and never admits more than
// MaxConnections simultaneously registered connections.

import (
	"fmt"
	"net"
	"sync"
	"testing"
	"time"

	"github.com/absfs/absnfs"
	"pgregory.net/rapid"

	"verif/harness/drv"
	"verif/harness/nfsx"
	"verif/harness/stat"
	"verif/harness/vfs"
)

type c17URound struct {
	Admit   int `json:"admit"`   // connections admitted in this round
	Callers int `json:"callers"` // goroutines that unregister each of them at the same moment
	Keep    int `json:"keep"`    // of the admitted ones, this many stay registered into the next round
}

type c17UCase struct {
	Max    int         `json:"max_conn"`
	Rounds []c17URound `json:"rounds"`
}

func genC17U(t *rapid.T) c17UCase {
	c := c17UCase{Max: rapid.IntRange(1, 6).Draw(t, "max")}
	n := rapid.IntRange(3, 12).Draw(t, "rounds")
	for i := 0; i < n; i++ {
		c.Rounds = append(c.Rounds, c17URound{Admit: rapid.IntRange(1, 8).Draw(t, "admit"), Callers: rapid.IntRange(2, 4).Draw(t, "callers"), Keep: rapid.IntRange(0, 2).Draw(t, "keep")})
	}
	return c
}

type c17FakeConn struct {
	net.Conn
	addr net.Addr
}

func (f *c17FakeConn) RemoteAddr() net.Addr { return f.addr }
func (f *c17FakeConn) LocalAddr() net.Addr  { return f.addr }
func (f *c17FakeConn) Close() error         { return nil }

func runC17U(tb stat.TB, c c17UCase) {
	const id, check = "C17", "TestC17Unreg"
	n, err := absnfs.New(vfs.New(), absnfs.ExportOptions{MaxConnections: c.Max, IdleTimeout: time.Hour, MaxWorkers: 1})
	if err != nil {
		tb.Fatalf("harness: %v", err)
	}
	defer n.Close()
	srv, err := absnfs.NewServer(absnfs.ServerOptions{Port: 0, Hostname: "127.0.0.1", UseRecordMarking: true})
	if err != nil {
		tb.Fatalf("harness: %v", err)
	}
	srv.SetHandler(n)
	var kept []*c17FakeConn
	port := 20000
	concurrent := false
	for ri, r := range c.Rounds {
		var admitted []*c17FakeConn
		for i := 0; i < r.Admit; i++ {
			port++
			fc := &c17FakeConn{addr: &net.TCPAddr{IP: net.IPv4(127, 0, 0, 1), Port: port}}
			if srv.VerifAdmit(fc) {
				admitted = append(admitted, fc)
			}
		}
		registered := len(kept) + len(admitted)
		if registered > c.Max {
			stat.Violate(tb, id, check, "registered-connections-exceed-max", c, "round#%d: %d connections are registered at once with MaxConnections=%d", ri, registered, c.Max)
			return
		}
		if cnt, tracked := srv.VerifConnCounts(); cnt != registered || tracked != registered {
			stat.Violate(tb, id, check, "connection-count-differs-from-registered", c, "round#%d: %d connections were admitted and not yet ended, connCount=%d tracked=%d", ri, registered, cnt, tracked)
			return
		}
		// end all but Keep of the newly admitted ones (and every connection kept from earlier rounds):
		// each is unregistered by Callers goroutines at the same moment
		keep := r.Keep
		if keep > len(admitted) {
			keep = len(admitted)
		}
		ending := append(append([]*c17FakeConn{}, kept...), admitted[keep:]...)
		kept = append([]*c17FakeConn{}, admitted[:keep]...)
		start := make(chan struct{})
		var wg sync.WaitGroup
		for _, fc := range ending {
			for k := 0; k < r.Callers; k++ {
				wg.Add(1)
				go func(fc *c17FakeConn) {
					defer wg.Done()
					<-start
					srv.VerifUnregister(fc)
				}(fc)
			}
		}
		if len(ending) > 0 {
			concurrent = true
		}
		close(start)
		wg.Wait()
		cnt, tracked := srv.VerifConnCounts()
		if cnt != len(kept) || tracked != len(kept) {
			sig := "ended-connection-uncounted-more-than-once"
			if cnt > len(kept) || tracked > len(kept) {
				sig = "ended-connections-still-counted"
			}
			stat.Violate(tb, id, check, sig, c, "round#%d: %d connections were each ended by %d parties at once, %d stay registered; connCount=%d tracked=%d", ri, len(ending), r.Callers, len(kept), cnt, tracked)
			return
		}
	}
	stat.Case(c, concurrent, fmt.Sprintf("max_%d", c.Max))
}

var propC17U = defProp("C17", "TestC17Unreg", genC17U, runC17U)

func TestC17Unreg(t *testing.T) { propC17U.Test(t) }

// ---- connections that arrive while Stop is closing the registered ones
//
// Stop closes every registered connection; a connection the accept loop registers during that pass (accepted
// just before the listener closed) must not outlive Stop either. The schedule is owned by the harness: one of
// the registered connections blocks in Close() until the late connections have been admitted and their
// handlers started, exactly what the accept loop does after Accept returned.

type c17SCase struct {
	Pre     int  `json:"pre"`      // registered connections before Stop
	Blocker int  `json:"blocker"`  // which of them blocks in Close
	Late    int  `json:"late"`     // connections admitted while Stop is inside its closing pass
	CallNow bool `json:"call_now"` // the late clients send their NULL call before Stop goes on (else after Stop returned)
}

func genC17S(t *rapid.T) c17SCase {
	c := c17SCase{Pre: rapid.IntRange(1, 4).Draw(t, "pre"), Late: rapid.IntRange(1, 3).Draw(t, "late"), CallNow: rapid.Bool().Draw(t, "call_now")}
	c.Blocker = rapid.IntRange(0, c.Pre-1).Draw(t, "blocker")
	return c
}

type c17BlockConn struct {
	c17FakeConn
	entered chan struct{}
	gate    chan struct{}
	once    sync.Once
}

func (b *c17BlockConn) Close() error {
	b.once.Do(func() { close(b.entered) })
	<-b.gate
	return nil
}

func runC17S(tb stat.TB, c c17SCase) {
	const id, check = "C17", "TestC17StopRace"
	v := vfs.New()
	s := newSession(tb, v, absnfs.ExportOptions{MaxConnections: 100, IdleTimeout: time.Hour})
	defer s.close()
	srv := s.e.Srv
	blocker := &c17BlockConn{entered: make(chan struct{}), gate: make(chan struct{})}
	blocker.addr = &net.TCPAddr{IP: net.IPv4(127, 0, 0, 1), Port: 30000}
	for i := 0; i < c.Pre; i++ {
		if i == c.Blocker {
			if !srv.VerifAdmit(blocker) {
				tb.Fatalf("harness: blocker not admitted")
			}
			continue
		}
		if !srv.VerifAdmit(&c17FakeConn{addr: &net.TCPAddr{IP: net.IPv4(127, 0, 0, 1), Port: 30001 + i}}) {
			tb.Fatalf("harness: connection not admitted")
		}
	}
	stopDone := make(chan error, 1)
	go func() { stopDone <- srv.Stop() }()
	select {
	case <-blocker.entered:
	case err := <-stopDone:
		// Stop did not close the registered connection at all
		stat.Violate(tb, id, check, "stop-leaves-registered-connection-open", c, "Stop returned (%v) without closing a registered connection", err)
		close(blocker.gate)
		return
	case <-time.After(10 * time.Second):
		close(blocker.gate)
		tb.Fatalf("harness: Stop neither closed the blocking connection nor returned")
	}
	// Stop is now inside its closing pass: the accept loop hands over connections accepted just before
	var late []*drv.PipeConn
	for i := 0; i < c.Late; i++ {
		if pc := s.e.PipeAdmitted("127.0.0.1", 40000+i); pc != nil {
			late = append(late, pc)
		}
	}
	null := func(pc *drv.PipeConn, xid uint32) bool {
		if err := pc.Send(nfsx.Call(xid, nfsx.ProgNFS, 3, 0, nfsx.AuthNone(), nfsx.AuthNone(), nil)); err != nil {
			return false
		}
		rec, err := pc.Recv(700 * time.Millisecond)
		if err != nil {
			return false
		}
		rp, err := nfsx.ParseReply(rec)
		return err == nil && rp.Xid == xid
	}
	if c.CallNow {
		for i, pc := range late {
			null(pc, uint32(900+i)) // during Stop: may or may not be served
		}
	}
	close(blocker.gate)
	select {
	case <-stopDone:
	case <-time.After(15 * time.Second):
		stat.Violate(tb, id, check, "stop-hangs", c, "Stop did not return within 15 s after every Close returned")
		return
	}
	for i, pc := range late {
		if null(pc, uint32(950+i)) {
			stat.Violate(tb, id, check, "served-after-stop", c, "a connection registered while Stop was closing connections (%d registered before, %d arrived during the pass) still answers a NULL call after Stop returned", c.Pre, len(late))
			return
		}
	}
	for _, pc := range late {
		pc.Close()
	}
	if cnt, tracked := srv.VerifConnCounts(); cnt != 0 || tracked != 0 {
		stat.Violate(tb, id, check, "connections-counted-after-stop", c, "connCount=%d tracked=%d after Stop returned and every handler ended", cnt, tracked)
		return
	}
	stat.Case(c, len(late) > 0)
}

var propC17S = defProp("C17", "TestC17StopRace", genC17S, runC17S)

func TestC17StopRace(t *testing.T) { propC17S.Test(t) }
