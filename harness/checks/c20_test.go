package checks

// C20 Worker pool: bounded concurrency and every accepted task resolved exactly once.
//
// Generator: action lists {submit a task that blocks on a gate (Submit, or
// SubmitWait in a goroutine), submit a quick task, open a gate, Stop, Resize}
// so that Stop/Resize happen with the queue empty, partly full and full behind
// busy workers. Oracle: per-task accounting (executions, deliveries, what the
// submitter was told), decided by inspecting state after the pool has stopped.

import (
	"fmt"
	"sync"
	"sync/atomic"
	"testing"
	"time"

	"github.com/absfs/absnfs"
	"pgregory.net/rapid"

	"verif/harness/stat"
	"verif/harness/vfs"
)

type c20Act struct {
	Kind string `json:"kind"` // gated quick open stop resize fill (pool-size gated tasks, then N more: a backlog behind busy workers)
	Wait bool   `json:"wait"` // SubmitWait (in a goroutine) instead of Submit
	N    int    `json:"n"`
	Nil  bool   `json:"nil,omitempty"` // the task's result is nil (a result like any other: it has to be delivered)
}
type c20Case struct {
	Size int      `json:"size"`
	Acts []c20Act `json:"acts"`
}

func genC20(t *rapid.T) c20Case {
	c := c20Case{Size: rapid.IntRange(1, 3).Draw(t, "size")}
	n := rapid.IntRange(2, 14).Draw(t, "n")
	for i := 0; i < n; i++ {
		a := c20Act{Kind: pick(t, "kind", "gated", "gated", "gated", "quick", "quick", "open", "open", "resize", "stop"), Wait: rapid.Bool().Draw(t, "wait"), N: rapid.IntRange(0, 6).Draw(t, "n"), Nil: rapid.IntRange(0, 4).Draw(t, "nilres") == 0}
		if a.Kind == "stop" && rapid.IntRange(0, 2).Draw(t, "rare") != 0 {
			a.Kind = "open"
		}
		c.Acts = append(c.Acts, a)
	}
	if rapid.IntRange(0, 2).Draw(t, "backlog") == 0 {
		// a backlog behind busy workers, then a Resize (mostly shrinking) or Stop, then whatever was drawn above
		pre := []c20Act{{Kind: "fill", Wait: rapid.Bool().Draw(t, "fillwait"), N: rapid.IntRange(1, 2*c.Size+1).Draw(t, "filln")},
			{Kind: pick(t, "after_fill", "resize", "resize", "resize", "stop"), N: pick(t, "newsize", 0, 0, 1, 2)}}
		c.Acts = append(pre, c.Acts...)
	}
	return c
}

type c20Task struct {
	id       int
	gate     chan struct{}
	gated    bool
	wait     bool
	execs    int32
	started  chan struct{}
	ch       chan interface{} // Submit variant
	rejected bool             // Submit returned nil
	submitReturned chan struct{}
	waitDone chan struct{} // SubmitWait variant
	res      interface{}
	ok       bool
	gateOpen bool
	nilRes   bool
}

var c20Logger *absnfs.AbsfsNFS
var c20LoggerOnce sync.Once

func runC20(tb stat.TB, c c20Case) {
	const id, check = "C20", "TestC20"
	c20LoggerOnce.Do(func() {
		n, err := absnfs.New(vfs.New(), absnfs.ExportOptions{MaxWorkers: 1})
		if err != nil {
			tb.Fatalf("harness: %v", err)
		}
		c20Logger = n
	})
	p := absnfs.NewWorkerPool(c.Size, c20Logger)
	p.Start()
	var mu sync.Mutex
	allowed := c.Size
	var running, peakOver int32
	var overMsg string
	var tasks []*c20Task
	stopped := false
	nt := false
	resizeDone := []chan struct{}{}

	settle := 120 * time.Millisecond
	submit := func(gated, wait, nilRes bool) *c20Task {
		t := &c20Task{id: len(tasks), nilRes: nilRes, gated: gated, wait: wait, gate: make(chan struct{}), started: make(chan struct{}), submitReturned: make(chan struct{}), waitDone: make(chan struct{})}
		tasks = append(tasks, t)
		fn := func() interface{} {
			r := atomic.AddInt32(&running, 1)
			mu.Lock()
			if int(r) > allowed && peakOver == 0 {
				peakOver = r
				overMsg = fmt.Sprintf("task %d started as the %d-th concurrently running task while the pool size allows %d", t.id, r, allowed)
			}
			mu.Unlock()
			if atomic.AddInt32(&t.execs, 1) == 1 {
				close(t.started)
			}
			if t.gated {
				<-t.gate
			}
			atomic.AddInt32(&running, -1)
			if t.nilRes {
				return nil
			}
			return fmt.Sprintf("token-%d", t.id)
		}
		if wait {
			go func() {
				close(t.submitReturned)
				t.res, t.ok = p.SubmitWait(fn)
				close(t.waitDone)
			}()
		} else {
			go func() {
				ch := p.Submit(fn)
				t.ch = ch
				t.rejected = ch == nil
				close(t.submitReturned)
			}()
		}
		// let the submission settle: started, queued/rejected (Submit returned) or SubmitWait finished
		select {
		case <-t.started:
		case <-t.waitDone:
		case <-time.After(settle):
		}
		if !wait {
			select {
			case <-t.submitReturned:
			case <-time.After(300 * time.Millisecond):
			}
		}
		return t
	}
	openGate := func(t *c20Task) {
		if t.gated && !t.gateOpen {
			t.gateOpen = true
			close(t.gate)
		}
	}

	// queuedNow counts accepted tasks that have not started (harness-side; WorkerPool.Stats blocks during a Resize).
	queuedNow := func() int {
		k := 0
		for _, t := range tasks {
			if atomic.LoadInt32(&t.execs) != 0 {
				continue
			}
			select {
			case <-t.waitDone:
				continue
			default:
			}
			if !t.wait {
				select {
				case <-t.submitReturned:
					if t.rejected {
						continue
					}
				default:
				}
			}
			k++
		}
		return k
	}
	for _, a := range c.Acts {
		switch a.Kind {
		case "gated":
			submit(true, a.Wait, a.Nil)
		case "quick":
			submit(false, a.Wait, a.Nil)
		case "fill":
			for k := 0; k < c.Size; k++ {
				submit(true, a.Wait, false)
			}
			settle = 15 * time.Millisecond // these only queue up: nothing to wait for
			for k := 0; k < a.N; k++ {
				submit(k%2 == 0, a.Wait && k%3 != 0, false)
			}
			settle = 120 * time.Millisecond
		case "open":
			var cand []*c20Task
			for _, t := range tasks {
				if t.gated && !t.gateOpen {
					cand = append(cand, t)
				}
			}
			if len(cand) > 0 {
				openGate(cand[a.N%len(cand)])
				time.Sleep(2 * time.Millisecond)
			}
		case "resize":
			// (also after Stop was issued: a Resize may overlap a Stop that is still waiting for busy workers)
			if stopped {
				stat.Label("resize_after_stop_was_issued", 1)
			}
			if queuedNow() > 0 {
				nt = true
			}
			newSize := a.N%3 + 1
			mu.Lock()
			if newSize > allowed {
				allowed = newSize
			}
			mu.Unlock()
			done := make(chan struct{})
			resizeDone = append(resizeDone, done)
			go func() {
				p.Resize(newSize)
				mu.Lock()
				allowed = newSize
				mu.Unlock()
				close(done)
			}()
			// Resize waits for running tasks: give it a moment, then keep going (gates open later)
			select {
			case <-done:
			case <-time.After(30 * time.Millisecond):
			}
		case "stop":
			if stopped {
				continue
			}
			if queuedNow() > 0 {
				nt = true
			}
			stopped = true
			sd := make(chan struct{})
			go func() { p.Stop(); close(sd) }()
			select {
			case <-sd:
			case <-time.After(30 * time.Millisecond):
			}
			resizeDone = append(resizeDone, sd)
		}
	}
	// ---- wind down: open every gate, wait for resizes, final Stop
	for _, t := range tasks {
		openGate(t)
	}
	for _, d := range resizeDone {
		select {
		case <-d:
		case <-time.After(20 * time.Second):
			stat.Violate(tb, id, check, "stop-or-resize-never-returns", c, "a Stop/Resize call did not return within 20 s after every task gate was opened")
			return
		}
	}
	fin := make(chan struct{})
	go func() { p.Stop(); close(fin) }()
	select {
	case <-fin:
	case <-time.After(20 * time.Second):
		stat.Violate(tb, id, check, "stop-or-resize-never-returns", c, "the final Stop did not return within 20 s after every task gate was opened")
		return
	}
	// After Stop returned all workers are gone: nothing can be executed or delivered any more.
	for _, t := range tasks {
		select {
		case <-t.submitReturned:
		case <-time.After(5 * time.Second):
			stat.Violate(tb, id, check, "submit-never-returns", c, "Submit of task %d did not return within 5 s after the pool stopped", t.id)
			return
		}
	}
	time.Sleep(5 * time.Millisecond)
	if peakOver != 0 {
		if stat.Violate(tb, id, check, "concurrency-exceeds-pool-size", c, "%s", overMsg) {
			return
		}
	}
	for _, t := range tasks {
		ex := atomic.LoadInt32(&t.execs)
		var want interface{} = fmt.Sprintf("token-%d", t.id)
		if t.nilRes {
			want = nil
		}
		if ex > 1 {
			if stat.Violate(tb, id, check, "task-executed-twice", c, "task %d was executed %d times", t.id, ex) {
				return
			}
		}
		if t.wait {
			select {
			case <-t.waitDone:
			case <-time.After(300 * time.Millisecond):
				// the pool has stopped, every worker is gone: this submitter can never be served
				if stat.Violate(tb, id, check, "submitwait-blocks-forever", c, "task %d (executed %d times): its SubmitWait caller is still blocked after the pool stopped and every worker exited", t.id, ex) {
					return
				}
				continue
			}
			switch {
			case ex == 1 && !(t.ok && t.res == want):
				if stat.Violate(tb, id, check, "executed-task-result-not-delivered", c, "task %d was executed but SubmitWait returned (%v, %v)", t.id, t.res, t.ok) {
					return
				}
			case ex == 0 && t.ok:
				if stat.Violate(tb, id, check, "unexecuted-task-reported-as-done", c, "task %d was never executed but SubmitWait returned (%v, ok=true): the submitter cannot know it must run the task itself", t.id, t.res) {
					return
				}
			}
			continue
		}
		if t.rejected {
			if ex != 0 {
				if stat.Violate(tb, id, check, "rejected-task-executed", c, "Submit returned nil for task %d but it was executed", t.id) {
					return
				}
			}
			continue
		}
		// accepted through Submit: look at the channel
		select {
		case r, open := <-t.ch:
			switch {
			case ex == 1 && !(open && r == want):
				if stat.Violate(tb, id, check, "executed-task-result-not-delivered", c, "task %d was executed but its channel yielded (%v, open=%v)", t.id, r, open) {
					return
				}
			case ex == 0 && open:
				if stat.Violate(tb, id, check, "unexecuted-task-reported-as-done", c, "task %d was never executed but its channel delivered %v", t.id, r) {
					return
				}
			}
		default:
			sig := "accepted-task-never-resolved"
			if ex == 1 {
				sig = "executed-task-result-not-delivered"
			}
			if stat.Violate(tb, id, check, sig, c, "task %d (executed %d times): its result channel is still empty and open after the pool stopped and every worker exited", t.id, ex) {
				return
			}
		}
	}
	stat.Case(c, nt)
}

var propC20 = defProp("C20", "TestC20", genC20, runC20)

func TestC20(t *testing.T) { propC20.Test(t) }
