package checks

// C24 Runtime reconfiguration keeps the server serviceable and is all-or-nothing.
//
// Generator: sequences of UpdateExportOptions / UpdateTuningOptions /
// UpdatePolicyOptions with every field drawn from {zero, negative, small,
// default, large} and every pointer from {nil, partly filled, full}; Squash
// unchanged, changed case, changed value.
// Oracle: GetExportOptions() positivity, in-force = reported for the observable
// fields, serviceability of LOOKUP/READ/WRITE, unchanged configuration after a
// rejected update.

import (
	"errors"
	"fmt"
	"testing"
	"time"

	"github.com/absfs/absnfs"
	"pgregory.net/rapid"

	"verif/harness/drv"
	"verif/harness/nfsx"
	"verif/harness/stat"
	"verif/harness/vfs"
)

type c24Upd struct {
	API string `json:"api"` // export tuning policy getmodify (GetExportOptions, edit the returned value in place, UpdateExportOptions)
	// numeric selectors: index into c24Ints / c24Durs
	TransferSize, AttrCacheSize, DirEntries, DirSize, Workers, MaxConn, SendBuf, RecvBuf int
	AttrTTL, NegTTL, DirTTL, Idle                                                        int
	Timeouts                                                                             int // 0 nil, 1 all zero, 2 partly filled, 3 full, 4 negative
	ReadOnly, DirCache, NegCache, RateLimit                                              bool
	RLConfig                                                                             int // 0 nil, 1 zero struct, 2 default
	Squash                                                                               string
	MaxFileSize                                                                          int
}

type c24Case struct {
	InitSquash string   `json:"init_squash"`
	Upds       []c24Upd `json:"upds"`
}

var c24Ints = []int{0, -1, 1, 7, 4096, 65536, 1 << 20}
var c24Durs = []time.Duration{0, -time.Second, time.Nanosecond, time.Millisecond, 5 * time.Second, time.Hour}

func genC24(t *rapid.T) c24Case {
	c := c24Case{InitSquash: pick(t, "isq", "", "root", "none")}
	n := rapid.IntRange(1, 6).Draw(t, "n")
	ii := func(l string) int { return rapid.IntRange(0, len(c24Ints)-1).Draw(t, l) }
	dd := func(l string) int { return rapid.IntRange(0, len(c24Durs)-1).Draw(t, l) }
	for i := 0; i < n; i++ {
		u := c24Upd{API: pick(t, "api", "export", "export", "tuning", "policy", "getmodify", "getmodify", "allow", "allow"),
			TransferSize: ii("ts"), AttrCacheSize: ii("acs"), DirEntries: ii("de"), DirSize: ii("ds"), Workers: pick(t, "w", 0, 1, 2, 3), MaxConn: ii("mc"), SendBuf: ii("sb"), RecvBuf: ii("rb"),
			AttrTTL: dd("attl"), NegTTL: dd("nttl"), DirTTL: dd("dttl"), Idle: dd("idle"), Timeouts: rapid.IntRange(0, 4).Draw(t, "to"),
			ReadOnly: rapid.Bool().Draw(t, "ro"), DirCache: rapid.Bool().Draw(t, "dc"), NegCache: rapid.Bool().Draw(t, "nc"), RateLimit: rapid.Bool().Draw(t, "rl"),
			RLConfig: rapid.IntRange(0, 2).Draw(t, "rlc"), MaxFileSize: ii("mfs"),
			Squash: pick(t, "sq", "same", "same", "same", "empty", "case", "other")}
		c.Upds = append(c.Upds, u)
	}
	return c
}

func (u c24Upd) timeouts() *absnfs.TimeoutConfig {
	switch u.Timeouts {
	case 1:
		return &absnfs.TimeoutConfig{}
	case 2:
		return &absnfs.TimeoutConfig{ReadTimeout: 2 * time.Second, LookupTimeout: 0, DefaultTimeout: 0, WriteTimeout: -1}
	case 3:
		return drv.FastTimeouts(3 * time.Second)
	case 4:
		return drv.FastTimeouts(-time.Second)
	}
	return nil
}

func c24Describe(o absnfs.ExportOptions) string {
	s := fmt.Sprintf("ro=%v secure=%v ips=%v squash=%q async=%v maxfile=%d ts=%d attl=%v acs=%d neg=%v nttl=%v dc=%v dttl=%v de=%d ds=%d w=%d mc=%d idle=%v ka=%v nd=%v sb=%d rb=%d rl=%v",
		o.ReadOnly, o.Secure, o.AllowedIPs, o.Squash, o.Async, o.MaxFileSize, o.TransferSize, o.AttrCacheTimeout, o.AttrCacheSize, o.CacheNegativeLookups, o.NegativeCacheTimeout,
		o.EnableDirCache, o.DirCacheTimeout, o.DirCacheMaxEntries, o.DirCacheMaxDirSize, o.MaxWorkers, o.MaxConnections, o.IdleTimeout, o.TCPKeepAlive, o.TCPNoDelay, o.SendBufferSize, o.ReceiveBufferSize, o.EnableRateLimiting)
	if o.RateLimitConfig != nil {
		s += fmt.Sprintf(" rlc=%+v", *o.RateLimitConfig)
	} else {
		s += " rlc=nil"
	}
	if o.Timeouts != nil {
		s += fmt.Sprintf(" to=%+v", *o.Timeouts)
	} else {
		s += " to=nil"
	}
	if o.Log != nil {
		s += fmt.Sprintf(" log=%+v", *o.Log)
	}
	return s
}

func runC24(tb stat.TB, c c24Case) {
	const id, check = "C24", "TestC24"
	v := vfs.New()
	content := make([]byte, 200000)
	for i := range content {
		content[i] = byte(i%250) + 1
	}
	v.SeedFile("/f", 0644, 0, 0, content)
	// construction options carry pointers too: what New was given stays the caller's to edit afterwards
	ctorTimeouts := drv.FastTimeouts(7 * time.Second)
	ctorRL := absnfs.DefaultRateLimiterConfig()
	s := newSession(tb, v, absnfs.ExportOptions{Squash: c.InitSquash, MaxWorkers: 2, Timeouts: ctorTimeouts, RateLimitConfig: &ctorRL})
	defer s.close()
	ctorDesc := c24Describe(s.e.NFS.GetExportOptions())
	*ctorTimeouts = absnfs.TimeoutConfig{ReadTimeout: -5, WriteTimeout: -5, LookupTimeout: -5, ReaddirTimeout: -5, CreateTimeout: -5, RemoveTimeout: -5, RenameTimeout: -5, HandleTimeout: -5, DefaultTimeout: -5}
	ctorRL = absnfs.RateLimiterConfig{GlobalRequestsPerSecond: -1}
	if d := c24Describe(s.e.NFS.GetExportOptions()); d != ctorDesc {
		stat.Violate(tb, id, check, "configuration-aliases-caller-struct", c, "editing the structs passed to New after it returned changed the configuration in force:\n before %s\n after  %s", ctorDesc, d)
		return
	}
	nt := false
	squash0 := s.e.NFS.GetExportOptions().Squash
	abandoned := guard(func() {
		root := s.mount()
		fr := s.nfs(nfsx.ProcLookup, nfsx.ArgsDirop(root, "f"))
		if fr.Status != nfsx.OK {
			tb.Fatalf("harness: lookup f")
		}
		for i, u := range c.Upds {
			before := s.e.NFS.GetExportOptions()
			beforeDesc := c24Describe(before)
			sq := before.Squash
			switch u.Squash {
			case "empty":
				sq = ""
			case "case":
				if sq == "root" {
					sq = "ROOT"
				} else if sq == "none" {
					sq = "None"
				}
			case "other":
				sq = "all"
			}
			var rlc *absnfs.RateLimiterConfig
			switch u.RLConfig {
			case 1:
				rlc = &absnfs.RateLimiterConfig{}
			case 2:
				d := absnfs.DefaultRateLimiterConfig()
				rlc = &d
			}
			var err error
			what := fmt.Sprintf("update#%d via %s", i, u.API)
			// every request of the case so far has been answered, so an update has nothing to wait for: one that does
			// not return leaves a server that serves nothing any more
			stuck := false
			upd := func(f func() error) error {
				e, returned := s.bounded(f)
				if !returned {
					stuck = true
				}
				return e
			}
			zeroish := u.TransferSize <= 1 || u.AttrCacheSize <= 1 || u.Timeouts != 3 || u.AttrTTL <= 1 || rlc == nil
			switch u.API {
			case "export":
				o := absnfs.ExportOptions{ReadOnly: u.ReadOnly, Squash: sq, MaxFileSize: int64(c24Ints[u.MaxFileSize]), TransferSize: c24Ints[u.TransferSize],
					AttrCacheTimeout: c24Durs[u.AttrTTL], AttrCacheSize: c24Ints[u.AttrCacheSize], CacheNegativeLookups: u.NegCache, NegativeCacheTimeout: c24Durs[u.NegTTL],
					EnableDirCache: u.DirCache, DirCacheTimeout: c24Durs[u.DirTTL], DirCacheMaxEntries: c24Ints[u.DirEntries], DirCacheMaxDirSize: c24Ints[u.DirSize],
					MaxWorkers: u.Workers, MaxConnections: c24Ints[u.MaxConn], IdleTimeout: c24Durs[u.Idle], SendBufferSize: c24Ints[u.SendBuf], ReceiveBufferSize: c24Ints[u.RecvBuf],
					EnableRateLimiting: u.RateLimit, RateLimitConfig: rlc, Timeouts: u.timeouts()}
				err = upd(func() error { return s.e.NFS.UpdateExportOptions(o) })
				if stuck {
					break
				}
				// what the caller passed in is the caller's: editing it after the call returned changes nothing
				afterCall := c24Describe(s.e.NFS.GetExportOptions())
				if o.Timeouts != nil {
					*o.Timeouts = absnfs.TimeoutConfig{ReadTimeout: -5, WriteTimeout: -5, LookupTimeout: -5, ReaddirTimeout: -5, CreateTimeout: -5, RemoveTimeout: -5, RenameTimeout: -5, HandleTimeout: -5, DefaultTimeout: -5}
				}
				if o.RateLimitConfig != nil {
					*o.RateLimitConfig = absnfs.RateLimiterConfig{GlobalRequestsPerSecond: -1}
				}
				for k := range o.AllowedIPs {
					o.AllowedIPs[k] = "203.0.113.9"
				}
				if d := c24Describe(s.e.NFS.GetExportOptions()); d != afterCall {
					if stat.Violate(tb, id, check, "configuration-aliases-caller-struct", c, "%s: editing the structs passed to UpdateExportOptions after it returned changed the configuration in force:\n before %s\n after  %s", what, afterCall, d) {
						return
					}
				}
			case "getmodify":
				o := s.e.NFS.GetExportOptions()
				// edit what the returned value points to, in place
				if nt := u.timeouts(); nt != nil && o.Timeouts != nil {
					*o.Timeouts = *nt
				} else {
					o.Timeouts = nt
				}
				if o.RateLimitConfig != nil && rlc != nil {
					*o.RateLimitConfig = *rlc
				} else {
					o.RateLimitConfig = rlc
				}
				if o.Log != nil {
					o.Log.Level = "debug"
				}
				for k := range o.AllowedIPs {
					o.AllowedIPs[k] = "203.0.113.9"
				}
				if d := c24Describe(s.e.NFS.GetExportOptions()); d != beforeDesc {
					// The edited value shares storage with the live configuration. Complete
					// the history the statement speaks about: an update that must be
					// rejected (Squash change) has to leave the configuration as it was.
					o.Squash = "all"
					if before.Squash == "all" {
						o.Squash = "root"
					}
					if rerr := upd(func() error { return s.e.NFS.UpdateExportOptions(o) }); rerr != nil && !stuck {
						if d2 := c24Describe(s.e.NFS.GetExportOptions()); d2 != beforeDesc {
							if stat.Violate(tb, id, check, "rejected-update-changes-configuration", c, "%s: GetExportOptions, in-place edit of the returned value, then an update rejected with %v; the configuration changed:\n before %s\n after  %s", what, rerr, beforeDesc, d2) {
								return
							}
						}
					}
					stat.Label("returned_options_share_storage_with_live_configuration", 1)
					return
				}
				o.AllowedIPs = append([]string(nil), before.AllowedIPs...) // (the probe above scribbled on the list; the update keeps the list in force)
				o.ReadOnly, o.Squash, o.MaxFileSize, o.TransferSize = u.ReadOnly, sq, int64(c24Ints[u.MaxFileSize]), c24Ints[u.TransferSize]
				o.AttrCacheTimeout, o.AttrCacheSize, o.CacheNegativeLookups, o.NegativeCacheTimeout = c24Durs[u.AttrTTL], c24Ints[u.AttrCacheSize], u.NegCache, c24Durs[u.NegTTL]
				o.EnableDirCache, o.MaxWorkers, o.EnableRateLimiting = u.DirCache, u.Workers, u.RateLimit
				err = upd(func() error { return s.e.NFS.UpdateExportOptions(o) })
			case "tuning":
				upd(func() error {
					s.e.NFS.UpdateTuningOptions(func(t *absnfs.TuningOptions) {
					t.TransferSize, t.AttrCacheSize, t.AttrCacheTimeout = c24Ints[u.TransferSize], c24Ints[u.AttrCacheSize], c24Durs[u.AttrTTL]
					t.NegativeCacheTimeout, t.DirCacheTimeout, t.DirCacheMaxEntries, t.DirCacheMaxDirSize = c24Durs[u.NegTTL], c24Durs[u.DirTTL], c24Ints[u.DirEntries], c24Ints[u.DirSize]
					t.MaxWorkers, t.MaxConnections, t.IdleTimeout, t.SendBufferSize, t.ReceiveBufferSize = u.Workers, c24Ints[u.MaxConn], c24Durs[u.Idle], c24Ints[u.SendBuf], c24Ints[u.RecvBuf]
					t.Timeouts = u.timeouts()
					t.EnableDirCache, t.CacheNegativeLookups = u.DirCache, u.NegCache
					})
					return nil
				})
			case "policy":
				err = upd(func() error {
					return s.e.NFS.UpdatePolicyOptions(absnfs.PolicyOptions{ReadOnly: u.ReadOnly, Squash: sq, MaxFileSize: int64(c24Ints[u.MaxFileSize]), EnableRateLimiting: u.RateLimit, RateLimitConfig: rlc})
				})
			case "allow":
				// the documented way of changing one setting: read the options, edit a copy, write them back - here one
				// more allowed host is appended (the harness' own address first, so that it stays served), nothing else
				o := s.e.NFS.GetExportOptions()
				want := append([]string(nil), o.AllowedIPs...)
				if len(want) == 0 {
					want = append(want, "127.0.0.1")
				} else {
					want = append(want, fmt.Sprintf("10.7.0.%d", len(want)))
				}
				o.AllowedIPs = append([]string(nil), want...)
				err = upd(func() error { return s.e.NFS.UpdateExportOptions(o) })
				if err == nil && !stuck {
					got := s.e.NFS.GetExportOptions().AllowedIPs
					if fmt.Sprint(got) != fmt.Sprint(want) {
						if stat.Violate(tb, id, check, "accepted-update-not-in-force:AllowedIPs", c, "%s: UpdateExportOptions(GetExportOptions() with AllowedIPs = %v) returned nil, GetExportOptions().AllowedIPs = %v", what, want, got) {
							return
						}
					}
					// in force: an address that is not listed is refused, the last one listed is served
					probe := func(ip string) bool {
						rp, perr := s.e.Call(drv.Client{IP: ip, Port: 700, Cred: drv.Root().Cred}, nfsx.ProgNFS, 3, 0, nil)
						return perr == nil && rp.Stat == nfsx.MsgAccepted
					}
					if probe("192.0.2.99") || !probe(want[len(want)-1]) {
						if stat.Violate(tb, id, check, "reported-differs-from-in-force:AllowedIPs", c, "%s: AllowedIPs reported %v, but 192.0.2.99 served=%v and %s served=%v", what, got, probe("192.0.2.99"), want[len(want)-1], probe(want[len(want)-1])) {
							return
						}
					}
				}
			}
			if stuck {
				stat.Violate(tb, id, check, "update-never-returns", c, "%s did not return within %v although every request of the case had been answered: the export accepts no further update and serves nothing", what, updWait())
				return
			}
			if zeroish {
				nt = true
			}
			after := s.e.NFS.GetExportOptions()
			if err != nil {
				nt = true
				if d := c24Describe(after); d != beforeDesc {
					if stat.Violate(tb, id, check, "rejected-update-changes-configuration", c, "%s was rejected (%v) but the configuration changed:\n before %s\n after  %s", what, err, beforeDesc, d) {
						return
					}
				}
			}
			// ---- Squash is immutable at runtime (docs/api/export-options.md): whatever the update asked for and
			// whether or not it was accepted, the construction mode stays the one reported (and in force)
			if after.Squash != squash0 {
				if stat.Violate(tb, id, check, "squash-changed-at-runtime", c, "%s (squash field %q, error %v): GetExportOptions().Squash was %q at construction and is %q now", what, sq, err, squash0, after.Squash) {
					return
				}
			}
			// ---- reported configuration is positive
			type nf struct {
				name string
				v    int64
			}
			fields := []nf{{"TransferSize", int64(after.TransferSize)}, {"AttrCacheTimeout", int64(after.AttrCacheTimeout)}, {"AttrCacheSize", int64(after.AttrCacheSize)},
				{"NegativeCacheTimeout", int64(after.NegativeCacheTimeout)}, {"DirCacheTimeout", int64(after.DirCacheTimeout)}, {"DirCacheMaxEntries", int64(after.DirCacheMaxEntries)},
				{"DirCacheMaxDirSize", int64(after.DirCacheMaxDirSize)}, {"MaxWorkers", int64(after.MaxWorkers)}, {"MaxConnections", int64(after.MaxConnections)}, {"IdleTimeout", int64(after.IdleTimeout)},
				{"SendBufferSize", int64(after.SendBufferSize)}, {"ReceiveBufferSize", int64(after.ReceiveBufferSize)}}
			if after.Timeouts == nil {
				if stat.Violate(tb, id, check, "timeouts-nil-after-update", c, "%s: GetExportOptions().Timeouts is nil", what) {
					return
				}
			} else {
				to := after.Timeouts
				fields = append(fields, nf{"ReadTimeout", int64(to.ReadTimeout)}, nf{"WriteTimeout", int64(to.WriteTimeout)}, nf{"LookupTimeout", int64(to.LookupTimeout)}, nf{"ReaddirTimeout", int64(to.ReaddirTimeout)},
					nf{"CreateTimeout", int64(to.CreateTimeout)}, nf{"RemoveTimeout", int64(to.RemoveTimeout)}, nf{"RenameTimeout", int64(to.RenameTimeout)}, nf{"HandleTimeout", int64(to.HandleTimeout)}, nf{"DefaultTimeout", int64(to.DefaultTimeout)})
			}
			for _, f := range fields {
				if f.v <= 0 {
					if stat.Violate(tb, id, check, "non-positive-setting-in-force:"+f.name, c, "%s: GetExportOptions().%s = %d (zero/negative values must take the construction default)", what, f.name, f.v) {
						return
					}
				}
			}
			if after.EnableRateLimiting && after.RateLimitConfig == nil {
				if stat.Violate(tb, id, check, "rate-limiting-enabled-without-config", c, "%s: rate limiting is reported enabled but RateLimitConfig is nil", what) {
					return
				}
			}
			// ---- in force = reported
			if got := s.e.NFS.GetAttrCacheSize(); got != after.AttrCacheSize {
				if stat.Violate(tb, id, check, "reported-differs-from-in-force:AttrCacheSize", c, "%s: reported AttrCacheSize=%d, cache capacity in force=%d", what, after.AttrCacheSize, got) {
					return
				}
			}
			if mw, _, _ := s.e.NFS.VerifWorkerPool().Stats(); mw != after.MaxWorkers {
				if stat.Violate(tb, id, check, "reported-differs-from-in-force:MaxWorkers", c, "%s: reported MaxWorkers=%d, pool size in force=%d", what, after.MaxWorkers, mw) {
					return
				}
			}
			if (s.e.NFS.VerifRateLimiter() != nil) != after.EnableRateLimiting {
				if stat.Violate(tb, id, check, "reported-differs-from-in-force:EnableRateLimiting", c, "%s: reported EnableRateLimiting=%v, limiter present=%v", what, after.EnableRateLimiting, s.e.NFS.VerifRateLimiter() != nil) {
					return
				}
			}
			// ---- serviceability
			defer func() {}()
			call := func(proc uint32, args []byte, name string) *nfsx.Res {
				res, err := s.e.NFS3(drv.Root(), proc, args)
				if err != nil {
					if errors.Is(err, drv.ErrTimeout) {
						stat.Violate(tb, id, check, "request-times-out-after-update", c, "%s: %s timed out inside HandleCall (timeouts in force: %+v)", what, name, after.Timeouts)
						panic(abandon{"violation"})
					}
					if drv.IsMalformed(err) {
						stat.Discard(true)
						panic(abandon{err.Error()})
					}
					var na *drv.ErrNotAccepted
					if errors.As(err, &na) {
						stat.Violate(tb, id, check, "request-not-accepted-after-update", c, "%s: %s: %v", what, name, err)
						panic(abandon{"violation"})
					}
					tb.Fatalf("harness: %v", err)
				}
				return res
			}
			lr := call(nfsx.ProcLookup, nfsx.ArgsDirop(root, "f"), "LOOKUP")
			if lr.Status != nfsx.OK {
				if stat.Violate(tb, id, check, "lookup-fails-after-update", c, "%s: LOOKUP f replied %s", what, statusName(lr.Status)) {
					return
				}
			}
			rr := call(nfsx.ProcRead, nfsx.ArgsRead(fr.Fh, 0, 1<<30), "READ")
			if rr.Status != nfsx.OK || len(rr.Data) < 1 {
				if stat.Violate(tb, id, check, "read-serves-nothing-after-update", c, "%s: READ replied %s with %d bytes (reported TransferSize=%d)", what, statusName(rr.Status), len(rr.Data), after.TransferSize) {
					return
				}
			} else {
				want := after.TransferSize
				if want > len(content) {
					want = len(content)
				}
				if len(rr.Data) != want {
					if stat.Violate(tb, id, check, "reported-differs-from-in-force:TransferSize", c, "%s: READ of a %d-byte file returned %d bytes, reported TransferSize=%d", what, len(content), len(rr.Data), after.TransferSize) {
						return
					}
				}
			}
			if after.EnableDirCache {
				call(nfsx.ProcReaddir, nfsx.ArgsReaddir(root, 0, [8]byte{}, 4096), "READDIR")
				v.SetRecording(true)
				v.ResetCalls()
				call(nfsx.ProcReaddir, nfsx.ArgsReaddir(root, 0, [8]byte{}, 4096), "READDIR")
				opens := 0
				for _, bc := range v.Calls() {
					if bc.Op == "OpenFile" || bc.Op == "File.Readdir" || bc.Op == "ReadDir" {
						opens++
					}
				}
				v.SetRecording(false)
				if opens > 0 {
					if stat.Violate(tb, id, check, "reported-differs-from-in-force:EnableDirCache", c, "%s: EnableDirCache is reported true but a repeated READDIR still read the directory from the backend (%d calls)", what, opens) {
						return
					}
				}
			}
			wr := call(nfsx.ProcWrite, nfsx.ArgsWrite(fr.Fh, 0, 1, nfsx.FileSync, []byte{content[0]}), "WRITE")
			if after.ReadOnly != (wr.Status == nfsx.ErrROFS) || (!after.ReadOnly && wr.Status != nfsx.OK) {
				if stat.Violate(tb, id, check, "reported-differs-from-in-force:ReadOnly", c, "%s: reported ReadOnly=%v but a 1-byte WRITE replied %s", what, after.ReadOnly, statusName(wr.Status)) {
					return
				}
			}
		}
	})
	if abandoned {
		return
	}
	stat.Case(c, nt)
}

var propC24 = defProp("C24", "TestC24", genC24, runC24)

func TestC24(t *testing.T) { propC24.Test(t) }
