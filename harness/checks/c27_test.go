package checks

// C27 Portmapper: registry semantics and loopback-only modification.
//
// Call sequences go through Portmapper.handleCall (shim) with a chosen remote
// address. Oracle: a model map (program, version, protocol) -> port, the
// strict nfsx decoders for every reply, and GetMappings() before/after for
// calls from non-loopback addresses.

import (
	"fmt"
	"net"
	"sort"
	"strconv"
	"strings"
	"testing"

	"github.com/absfs/absnfs"
	"pgregory.net/rapid"

	"verif/harness/nfsx"
	"verif/harness/stat"
)

type c27Call struct {
	Addr  int    `json:"addr"`
	Vers  uint32 `json:"vers"`
	Proc  uint32 `json:"proc"`
	Prog  int    `json:"prog"`
	PVers int    `json:"pvers"`
	Prot  int    `json:"prot"` // 0 tcp, 1 udp, 2 protocol 132 (portmap v2 only; a netid cannot name it)
	Port  uint32 `json:"port"`
	V6    bool   `json:"v6"`   // rpcbind: use tcp6/udp6 netid and an IPv6 universal address
	Bad   int    `json:"bad"`  // 0 well-formed, 1 malformed uaddr, 2 truncated args
	Cut   int    `json:"cut"`
	RProg uint32 `json:"rpc_prog"` // 0 = portmapper program
}

type c27Case struct {
	Calls []c27Call `json:"calls"`
}

type c27Addr struct {
	ip       string
	zone     string
	loopback bool
}

var c27Addrs = []c27Addr{{"127.0.0.1", "", true}, {"127.9.9.9", "", true}, {"::1", "", true}, {"::ffff:127.0.0.1", "", true},
	{"10.0.0.5", "", false}, {"192.168.1.7", "", false}, {"2001:db8::1", "", false}, {"fe80::1", "eth0", false}, {"::ffff:10.0.0.5", "", false}, {"128.0.0.1", "", false}}

var c27Progs = []uint32{100003, 100005, 200001, 100021, 100024, 300019}
var c27PVers = []uint32{1, 3, 2}

func genC27(t *rapid.T) c27Case {
	var c c27Case
	if rapid.IntRange(0, 3).Draw(t, "bulk") == 0 {
		// a registry that grows to many live mappings and is then taken down again, with lookups and dumps on the way
		k := rapid.IntRange(9, 22).Draw(t, "bulk_sets")
		keys := rapid.Permutation([]int{0, 1, 2, 3, 4, 5, 6, 7, 8, 9, 10, 11, 12, 13, 14, 15, 16, 17, 18, 19, 20, 21, 22, 23}).Draw(t, "bulk_keys")[:k]
		mk := func(key int, proc uint32, vers uint32) c27Call {
			return c27Call{Addr: 0, Vers: vers, Proc: proc, Prog: key % 6, PVers: (key / 6) % 2, Prot: (key / 12) % 2, Port: uint32(1000 + key)}
		}
		for _, key := range keys {
			c.Calls = append(c.Calls, mk(key, nfsx.PmapSet, pick(t, "bv", uint32(2), 3, 4)))
		}
		m := rapid.IntRange(1, k).Draw(t, "bulk_unsets")
		for i := 0; i < m; i++ {
			c.Calls = append(c.Calls, mk(keys[i], nfsx.PmapUnset, pick(t, "buv", uint32(2), 3, 4)))
			if rapid.IntRange(0, 2).Draw(t, "bulk_probe") == 0 {
				c.Calls = append(c.Calls, mk(keys[rapid.IntRange(0, k-1).Draw(t, "bulk_pk")], nfsx.PmapGetport, pick(t, "bgv", uint32(2), 3, 4)))
				c.Calls = append(c.Calls, mk(0, nfsx.PmapDump, pick(t, "bdv", uint32(2), 3, 4)))
			}
		}
		c.Calls = append(c.Calls, mk(0, nfsx.PmapDump, 2), mk(0, nfsx.PmapDump, 4))
	}
	n := rapid.IntRange(2, 25).Draw(t, "n")
	for i := 0; i < n; i++ {
		cl := c27Call{Addr: rapid.IntRange(0, len(c27Addrs)-1).Draw(t, "addr"), Vers: pick(t, "vers", uint32(2), 2, 3, 4, 3, 1, 5), Proc: pick(t, "proc", uint32(1), 1, 1, 2, 2, 3, 3, 4, 4, 0, 5, 9),
			Prog: rapid.IntRange(0, 5).Draw(t, "prog"), PVers: rapid.IntRange(0, 2).Draw(t, "pvers"), Prot: pick(t, "prot", 0, 0, 0, 1, 1, 1, 2, 3),
			Port: pick(t, "port", uint32(2049), 635, 1, 65535, 256, 255, 40000), V6: rapid.IntRange(0, 3).Draw(t, "v6") == 0, Cut: rapid.IntRange(0, 5).Draw(t, "cut")}
		if rapid.IntRange(0, 2).Draw(t, "loop") == 0 {
			cl.Addr = rapid.IntRange(0, 3).Draw(t, "laddr")
		}
		switch rapid.IntRange(0, 11).Draw(t, "bad") {
		case 0:
			cl.Bad = 1
		case 1:
			cl.Bad = 2
		}
		if rapid.IntRange(0, 14).Draw(t, "otherprog") == 0 {
			cl.RProg = 100003
		}
		c.Calls = append(c.Calls, cl)
	}
	return c
}

type pmKey struct{ prog, vers, prot uint32 }

func uaddrPort(u string) (uint32, bool) {
	parts := strings.Split(u, ".")
	if len(parts) < 3 {
		return 0, false
	}
	hi, err1 := strconv.Atoi(parts[len(parts)-2])
	lo, err2 := strconv.Atoi(parts[len(parts)-1])
	if err1 != nil || err2 != nil || hi < 0 || hi > 255 || lo < 0 || lo > 255 {
		return 0, false
	}
	return uint32(hi*256 + lo), true
}

func runC27(tb stat.TB, c c27Case) {
	const id, check = "C27", "TestC27"
	pm := absnfs.NewPortmapper()
	model := map[pmKey]uint32{}
	nt := false
	changes := 0
	snapshot := func() string {
		ms := pm.GetMappings()
		var ss []string
		for _, m := range ms {
			ss = append(ss, fmt.Sprintf("%d/%d/%d=%d", m.Program, m.Version, m.Protocol, m.Port))
		}
		sort.Strings(ss)
		return strings.Join(ss, " ")
	}
	modelStr := func() string {
		var ss []string
		for k, p := range model {
			ss = append(ss, fmt.Sprintf("%d/%d/%d=%d", k.prog, k.vers, k.prot, p))
		}
		sort.Strings(ss)
		return strings.Join(ss, " ")
	}
	for i, cl := range c.Calls {
		a := c27Addrs[cl.Addr]
		addr := &net.TCPAddr{IP: net.ParseIP(a.ip), Port: 999, Zone: a.zone}
		prog, pvers := c27Progs[cl.Prog], c27PVers[cl.PVers]
		prot := uint32(6)
		netid := "tcp"
		if cl.Prot == 1 {
			prot, netid = 17, "udp"
		}
		if cl.Prot == 2 && cl.Vers == 2 {
			prot = 132
		}
		if cl.Prot == 3 && cl.Vers == 2 {
			prot = 262 // (a protocol number beyond one byte: the key is the full 32-bit triple)
		}
		if cl.V6 {
			netid += "6"
		}
		var args []byte
		uaddr := fmt.Sprintf("10.1.2.3.%d.%d", cl.Port/256, cl.Port%256)
		if cl.V6 {
			uaddr = fmt.Sprintf("2001:db8::7.%d.%d", cl.Port/256, cl.Port%256)
		}
		if cl.Bad == 1 {
			uaddr = []string{"", "garbage", "1.2.3", "1.2.3.4.999.1", "...."}[cl.Cut%5]
		}
		if cl.Vers == 2 || cl.Vers == 1 || cl.Vers == 5 {
			args = nfsx.ArgsPmap(nfsx.Mapping{Prog: prog, Vers: pvers, Prot: prot, Port: cl.Port})
		} else {
			args = nfsx.ArgsRpcb(nfsx.Rpcb{Prog: prog, Vers: pvers, Netid: netid, Addr: uaddr, Owner: "me"})
		}
		if cl.Proc == nfsx.PmapDump || cl.Proc == nfsx.PmapNull {
			args = nil
		}
		if cl.Bad == 2 && 4*cl.Cut < len(args) {
			args = args[:4*cl.Cut]
		}
		rprog := uint32(nfsx.ProgPmap)
		if cl.RProg != 0 {
			rprog = cl.RProg
		}
		xid := uint32(7000 + i)
		before := snapshot()
		wire, err := pm.VerifHandleCall(nfsx.Call(xid, rprog, cl.Vers, cl.Proc, nfsx.AuthNone(), nfsx.AuthNone(), args), addr)
		after := snapshot()
		what := fmt.Sprintf("call#%d from %s%s rpcbind v%d proc %d (prog %d vers %d %s port %d uaddr %q bad=%d)", i, a.ip, map[bool]string{true: "%" + a.zone}[a.zone != ""], cl.Vers, cl.Proc, prog, pvers, netid, cl.Port, uaddr, cl.Bad)
		isMod := cl.Proc == nfsx.PmapSet || cl.Proc == nfsx.PmapUnset
		if !a.loopback {
			if isMod {
				nt = true
			}
			if before != after {
				if stat.Violate(tb, id, check, fmt.Sprintf("non-loopback-client-changes-registry:v%d", cl.Vers), c, "%s changed the registry: %q -> %q", what, before, after) {
					return
				}
			}
		}
		if err != nil {
			continue // no reply (unparsable header)
		}
		rp, perr := nfsx.ParseReply(wire)
		if perr != nil {
			sig := "portmap-reply-malformed"
			if cl.Vers == 1 || cl.Vers == 5 {
				sig = "prog-mismatch-without-version-range"
			}
			if stat.Violate(tb, id, check, sig, c, "%s: reply is not a well-formed RFC 1831 reply: %v", what, perr) {
				return
			}
			continue
		}
		if rp.Xid != xid {
			if stat.Violate(tb, id, check, "xid-not-echoed", c, "%s: xid %d != %d", what, rp.Xid, xid) {
				return
			}
		}
		if rprog != nfsx.ProgPmap || cl.Vers < 2 || cl.Vers > 4 {
			if rp.Stat == nfsx.MsgAccepted && rp.AcceptStat == nfsx.AcceptSuccess {
				if stat.Violate(tb, id, check, "success-for-unknown-program-or-version", c, "%s answered SUCCESS", what) {
					return
				}
			}
			continue
		}
		if rp.Stat != nfsx.MsgAccepted || rp.AcceptStat != nfsx.AcceptSuccess {
			continue
		}
		if cl.Proc > 4 {
			if stat.Violate(tb, id, check, "success-for-unknown-procedure", c, "%s answered SUCCESS", what) {
				return
			}
			continue
		}
		res, derr := nfsx.DecodePmap(cl.Vers, cl.Proc, rp.Body)
		if derr != nil {
			if stat.Violate(tb, id, check, "portmap-result-malformed", c, "%s: %v (body %d bytes)", what, derr, len(rp.Body)) {
				return
			}
			continue
		}
		key := pmKey{prog, pvers, prot}
		wellFormed := cl.Bad == 0
		switch cl.Proc {
		case nfsx.PmapSet:
			if res.Bool && a.loopback && wellFormed {
				model[key] = cl.Port
				changes++
			} else if res.Bool && a.loopback && !wellFormed {
				// accepted with malformed arguments: resynchronise the model from the registry (not judged)
				model = map[pmKey]uint32{}
				for _, m := range pm.GetMappings() {
					model[pmKey{m.Program, m.Version, m.Protocol}] = m.Port
				}
			}
			if !res.Bool && before != after {
				if stat.Violate(tb, id, check, "set-false-but-registry-changed", c, "%s answered false but the registry changed", what) {
					return
				}
			}
		case nfsx.PmapUnset:
			if res.Bool && a.loopback && wellFormed {
				delete(model, key)
				changes++
			} else if res.Bool && a.loopback {
				model = map[pmKey]uint32{}
				for _, m := range pm.GetMappings() {
					model[pmKey{m.Program, m.Version, m.Protocol}] = m.Port
				}
			}
			if !res.Bool && before != after {
				if stat.Violate(tb, id, check, "unset-false-but-registry-changed", c, "%s answered false but the registry changed", what) {
					return
				}
			}
		case nfsx.PmapGetport:
			if !wellFormed {
				continue
			}
			want := model[key]
			got := res.Port
			if cl.Vers != 2 {
				got = 0
				if res.Addr != "" {
					p, ok := uaddrPort(res.Addr)
					if !ok {
						if stat.Violate(tb, id, check, "getaddr-universal-address-malformed", c, "%s returned %q", what, res.Addr) {
							return
						}
						continue
					}
					got = p
				}
			}
			if got != want {
				if stat.Violate(tb, id, check, fmt.Sprintf("lookup-disagrees-with-registry:v%d", cl.Vers), c, "%s reports port %d, the registrations so far say %d (model %q)", what, got, want, modelStr()) {
					return
				}
			}
		case nfsx.PmapDump:
			got := map[pmKey]uint32{}
			for _, m := range res.List {
				got[pmKey{m.Prog, m.Vers, m.Prot}] = m.Port
			}
			for _, b := range res.RList {
				p, ok := uaddrPort(b.Addr)
				pr := uint32(6)
				if strings.HasPrefix(b.Netid, "udp") {
					pr = 17
				}
				if !ok {
					if stat.Violate(tb, id, check, "dump-universal-address-malformed", c, "%s lists %+v", what, b) {
						return
					}
					continue
				}
				got[pmKey{b.Prog, b.Vers, pr}] = p
			}
			want := model
			if cl.Vers != 2 {
				// a netid cannot name protocols other than tcp/udp: such registrations (made through portmap v2) and
				// whatever shares their (program, version) are not judged in an rpcbind DUMP; everything else is
				other := map[[2]uint32]bool{}
				for k := range model {
					if k.prot != 6 && k.prot != 17 {
						other[[2]uint32{k.prog, k.vers}] = true
					}
				}
				if len(other) > 0 {
					want = map[pmKey]uint32{}
					for k, p := range model {
						if !other[[2]uint32{k.prog, k.vers}] {
							want[k] = p
						}
					}
					for k := range got {
						if other[[2]uint32{k.prog, k.vers}] {
							delete(got, k)
						}
					}
				}
			}
			if fmt.Sprint(got) != fmt.Sprint(want) {
				if stat.Violate(tb, id, check, fmt.Sprintf("dump-disagrees-with-registry:v%d", cl.Vers), c, "%s lists %v, the registrations so far say %v", what, got, want) {
					return
				}
			}
			if changes >= 2 {
				nt = true
			}
		}
		// the registry itself must agree with the model after every loopback call
		if a.loopback && wellFormed && modelStr() != after {
			if stat.Violate(tb, id, check, "registry-disagrees-with-model", c, "%s: registry %q, model %q", what, after, modelStr()) {
				return
			}
		}
	}
	stat.Case(c, nt)
}

var propC27 = defProp("C27", "TestC27", genC27, runC27)

func TestC27(t *testing.T) { propC27.Test(t) }
