package checks

// C20, end to end: AbsfsNFS.ExecuteWithWorker is how every request of a connection reaches the pool ("no request is
// dropped silently", "executed exactly once with its result delivered to the submitter, or the submitter ... can run
// it itself"). Generated schedules of concurrent ExecuteWithWorker calls (gated or quick tasks, results of any kind
// including nil and typed nil), pool resizes through UpdateTuningOptions and Close. Oracle: when every gate is open,
// every call returns; its task ran exactly once; the value returned is the value that task produced.

import (
	"fmt"
	"sync/atomic"
	"testing"
	"time"

	"github.com/absfs/absnfs"
	"pgregory.net/rapid"

	"verif/harness/stat"
	"verif/harness/vfs"
)

type c20xAct struct {
	Kind string `json:"kind"` // gated quick open resize close
	N    int    `json:"n"`
	Res  int    `json:"res"` // result kind: 0 token, 1 nil, 2 typed nil pointer, 3 zero struct, 4 error value
}

type c20xCase struct {
	Workers int       `json:"workers"`
	Acts    []c20xAct `json:"acts"`
}

func genC20x(t *rapid.T) c20xCase {
	c := c20xCase{Workers: rapid.IntRange(1, 3).Draw(t, "workers")}
	n := rapid.IntRange(2, 14).Draw(t, "n")
	for i := 0; i < n; i++ {
		a := c20xAct{Kind: pick(t, "kind", "gated", "gated", "quick", "quick", "quick", "open", "open", "resize", "close"), N: rapid.IntRange(0, 6).Draw(t, "n"), Res: pick(t, "res", 0, 0, 1, 1, 2, 3, 4)}
		if a.Kind == "close" && rapid.IntRange(0, 2).Draw(t, "rare") != 0 {
			a.Kind = "quick"
		}
		c.Acts = append(c.Acts, a)
	}
	return c
}

type c20xTask struct {
	id      int
	gate    chan struct{}
	gated   bool
	open    bool
	execs   int32
	done    chan struct{}
	got     interface{}
	want    interface{}
	started chan struct{}
}

type c20xZero struct{}

func runC20x(tb stat.TB, c c20xCase) {
	const id, check = "C20", "TestC20Exec"
	n, err := absnfs.New(vfs.New(), absnfs.ExportOptions{MaxWorkers: c.Workers})
	if err != nil {
		tb.Fatalf("harness: %v", err)
	}
	defer n.Close()
	var tasks []*c20xTask
	var nilPtr *c20xTask
	results := []interface{}{nil, nil, nilPtr, c20xZero{}, fmt.Errorf("task failed")}
	nt := false
	start := func(gated bool, res int) {
		t := &c20xTask{id: len(tasks), gated: gated, gate: make(chan struct{}), done: make(chan struct{}), started: make(chan struct{})}
		t.want = results[res]
		if res == 0 {
			t.want = fmt.Sprintf("token-%d", t.id)
		} else {
			nt = true
		}
		tasks = append(tasks, t)
		go func() {
			defer close(t.done)
			t.got = n.ExecuteWithWorker(func() interface{} {
				if atomic.AddInt32(&t.execs, 1) == 1 {
					close(t.started)
				}
				if t.gated {
					<-t.gate
				}
				return t.want
			})
		}()
		if !gated {
			select {
			case <-t.done:
			case <-time.After(20 * time.Millisecond):
			}
		} else {
			select {
			case <-t.started:
			case <-time.After(20 * time.Millisecond):
			}
		}
	}
	for _, a := range c.Acts {
		switch a.Kind {
		case "gated":
			start(true, a.Res)
		case "quick":
			start(false, a.Res)
		case "open":
			k := 0
			for _, t := range tasks {
				if t.gated && !t.open {
					if k == a.N%3 {
						t.open = true
						close(t.gate)
						break
					}
					k++
				}
			}
		case "resize":
			size := a.N % 4 // 0 = "take the default"
			done := make(chan struct{})
			go func() {
				defer close(done)
				n.UpdateTuningOptions(func(o *absnfs.TuningOptions) { o.MaxWorkers = size })
			}()
			select {
			case <-done:
			case <-time.After(50 * time.Millisecond): // a shrink may wait for busy workers; the schedule goes on
			}
		case "close":
			done := make(chan struct{})
			go func() { defer close(done); n.Close() }()
			select {
			case <-done:
			case <-time.After(50 * time.Millisecond):
			}
		}
	}
	for _, t := range tasks {
		if t.gated && !t.open {
			t.open = true
			close(t.gate)
		}
	}
	deadline := time.After(20 * time.Second)
	for _, t := range tasks {
		select {
		case <-t.done:
		case <-deadline:
			stat.Violate(tb, id, check, "submitter-waits-forever", c, "ExecuteWithWorker of task %d (executed %d times) has not returned 20 s after every gate was opened", t.id, atomic.LoadInt32(&t.execs))
			return
		}
	}
	time.Sleep(2 * time.Millisecond) // a second execution started by someone else would be under way by now
	for _, t := range tasks {
		if ex := atomic.LoadInt32(&t.execs); ex != 1 {
			sig := "task-executed-more-than-once"
			if ex == 0 {
				sig = "task-dropped-silently"
			}
			if stat.Violate(tb, id, check, sig, c, "task %d (result %#v) submitted through ExecuteWithWorker was executed %d times", t.id, t.want, ex) {
				return
			}
		}
		if t.got != t.want {
			if stat.Violate(tb, id, check, "result-not-delivered-to-submitter", c, "task %d produced %#v but ExecuteWithWorker returned %#v", t.id, t.want, t.got) {
				return
			}
		}
	}
	stat.Case(c, nt && len(tasks) > 0)
}

var propC20x = defProp("C20", "TestC20Exec", genC20x, runC20x)

func TestC20Exec(t *testing.T) { propC20x.Test(t) }
