package checks

// C02 Namespace operations refine a POSIX tree model; caches are transparent.
//
// Generator: sequential histories over names {a,b,c}, depth <= 3, addressed
// through every handle the client was ever given (stale ones included).
// Oracle 1: POSIX-like tree model (OK-vs-fail, decoded payload, backend tree
// after every reply, unchanged tree after a failed request).
// Oracle 2: differential - the same history under cached configurations must
// produce the same replies as under the all-off baseline.

import (
	"fmt"
	"path"
	"sort"
	"strings"
	"testing"

	"github.com/absfs/absnfs"
	"pgregory.net/rapid"

	"verif/harness/drv"
	"verif/harness/nfsx"
	"verif/harness/stat"
	"verif/harness/vfs"
)

type c02Op struct {
	Kind   string `json:"kind"`
	Dir    string `json:"dir"`
	Name   string `json:"name,omitempty"`
	Dir2   string `json:"dir2,omitempty"`
	Name2  string `json:"name2,omitempty"`
	How    uint32 `json:"how,omitempty"`
	Target string `json:"target,omitempty"`
	// C04 extras
	SetMode bool   `json:"setmode,omitempty"`
	Mode    uint32 `json:"mode,omitempty"`
	SetSize bool   `json:"setsize,omitempty"`
	Size    uint64 `json:"size,omitempty"`
	Times   int    `json:"times,omitempty"` // 0 none, 1 server time, 2 client time
	Off     uint64 `json:"off,omitempty"`
	Len     int    `json:"len,omitempty"`
}

type c02Case struct {
	Configs []cacheCfg `json:"configs"`
	Ops     []c02Op    `json:"ops"`
}

const (
	expFail   = 0
	expOK     = 1
	expEither = 2
)

type verdict struct {
	exp   int
	apply func() // effect if the request succeeds
}

// objPath is the path of the object an op addresses directly (getattr/readlink).
func (op c02Op) objPath() string { return path.Join(op.Dir, op.Name) }

// modelVerdict computes what the POSIX-like model says about op.
func modelVerdict(m *mtree, op c02Op) verdict {
	none := func() {}
	switch op.Kind {
	case "lookup":
		_, ch := m.lookupChild(op.Dir, op.Name)
		if ch != nil {
			return verdict{expOK, none}
		}
		return verdict{expFail, none}
	case "create", "mkdir", "symlink":
		d, ch := m.lookupChild(op.Dir, op.Name)
		if d == nil || d.kind != 'd' {
			return verdict{expFail, none}
		}
		if ch != nil {
			if op.Kind == "create" {
				switch {
				case op.How == nfsx.Guarded:
					return verdict{expFail, none}
				case op.How == nfsx.Unchecked && ch.kind == 'f':
					return verdict{expOK, none}
				default: // L2: UNCHECKED on non-regular, EXCLUSIVE on anything existing
					return verdict{expEither, none}
				}
			}
			return verdict{expFail, none}
		}
		kind, target := byte('f'), ""
		if op.Kind == "mkdir" {
			kind = 'd'
		} else if op.Kind == "symlink" {
			kind, target = 'l', op.Target
		}
		return verdict{expOK, func() { d.children[op.Name] = m.mk(kind, target) }}
	case "remove":
		d, ch := m.lookupChild(op.Dir, op.Name)
		if ch == nil {
			return verdict{expFail, none}
		}
		rm := func() { delete(d.children, op.Name) }
		if ch.kind == 'd' {
			if len(ch.children) > 0 {
				return verdict{expFail, none}
			}
			return verdict{expEither, rm} // L1
		}
		return verdict{expOK, rm}
	case "rmdir":
		d, ch := m.lookupChild(op.Dir, op.Name)
		if ch == nil || ch.kind != 'd' || len(ch.children) > 0 {
			return verdict{expFail, none}
		}
		return verdict{expOK, func() { delete(d.children, op.Name) }}
	case "rename":
		fd, src := m.lookupChild(op.Dir, op.Name)
		td, dst := m.lookupChild(op.Dir2, op.Name2)
		if src == nil || td == nil || td.kind != 'd' || fd == nil {
			return verdict{expFail, none}
		}
		if dst == src {
			return verdict{expOK, none}
		}
		if src.kind == 'd' && m.isUnder(src, td) {
			return verdict{expFail, none}
		}
		if dst != nil {
			if src.kind == 'd' {
				if dst.kind != 'd' || len(dst.children) > 0 {
					return verdict{expFail, none}
				}
			} else if dst.kind == 'd' {
				return verdict{expFail, none}
			}
		}
		return verdict{expOK, func() { delete(fd.children, op.Name); td.children[op.Name2] = src }}
	case "readdir", "readdirplus":
		d := m.get(op.Dir)
		if d != nil && d.kind == 'd' {
			return verdict{expOK, none}
		}
		return verdict{expFail, none}
	case "getattr":
		if m.get(op.objPath()) != nil {
			return verdict{expOK, none}
		}
		return verdict{expFail, none}
	case "readlink":
		n := m.get(op.objPath())
		if n != nil && n.kind == 'l' {
			return verdict{expOK, none}
		}
		return verdict{expFail, none}
	case "setattr", "write", "read", "access", "mntattr", "roundtrip":
		return verdict{expEither, none} // only their attributes are judged (C04)
	}
	panic("unknown op " + op.Kind)
}

var c02Names = []string{"a", "b", "c"}

func c02AllDirs() []string {
	out := []string{"/"}
	for _, a := range c02Names {
		out = append(out, "/"+a)
		for _, b := range c02Names {
			out = append(out, "/"+a+"/"+b)
		}
	}
	return out
}

func genC02Ops(t *rapid.T, maxOps int, kinds []string) []c02Op {
	return genC02OpsFrom(t, maxOps, kinds, false)
}

func genC02OpsFrom(t *rapid.T, maxOps int, kinds []string, seeded bool) []c02Op {
	if seeded {
		return genC02OpsSeed(t, maxOps, kinds, func(m *mtree) { seedTree(vfs.New(), m) })
	}
	return genC02OpsSeed(t, maxOps, kinds, nil)
}

func genC02OpsSeed(t *rapid.T, maxOps int, kinds []string, seedFn func(*mtree)) []c02Op {
	m := newMtree()
	if seedFn != nil {
		seedFn(m)
	}
	n := rapid.IntRange(3, maxOps).Draw(t, "nops")
	all := c02AllDirs()
	pickDir := func(label string) string {
		if rapid.IntRange(0, 9).Draw(t, label+"_existing") < 7 {
			ds := m.dirs()
			var ok []string
			for _, d := range ds {
				if len(comps(d)) <= 2 {
					ok = append(ok, d)
				}
			}
			return rapid.SampledFrom(ok).Draw(t, label)
		}
		return rapid.SampledFrom(all).Draw(t, label)
	}
	var ops []c02Op
	emit := func(op c02Op) {
		if v := modelVerdict(m, op); v.exp == expOK {
			v.apply()
		}
		ops = append(ops, op)
	}
	// Structured prefix (fresh trees only, one history in five): two directories with a grandchild of the same relative
	// name but of different kinds are visited (so that whatever is cached about them is cached), the first directory is
	// renamed away and the second renamed into its place, and the old paths are visited again. What is cached two and
	// more levels below a renamed directory has to go with it.
	if seedFn == nil && hasKind(kinds, "rename") && rapid.IntRange(0, 4).Draw(t, "swap") == 0 {
		perm := rapid.Permutation(c02Names).Draw(t, "swapnames")
		p1, p2, p3 := perm[0], perm[1], perm[2]
		sub, leaf := rapid.SampledFrom(c02Names).Draw(t, "swapsub"), rapid.SampledFrom(c02Names).Draw(t, "swapleaf")
		kindsOf := rapid.Permutation([]string{"create", "mkdir", "symlink"}).Draw(t, "swapkinds")
		mkLeaf := func(dir, kind string) c02Op {
			op := c02Op{Kind: kind, Dir: dir, Name: leaf}
			if kind == "symlink" {
				op.Target = "nowhere"
			}
			return op
		}
		for i, top := range []string{p1, p2} {
			emit(c02Op{Kind: "mkdir", Dir: "/", Name: top})
			emit(c02Op{Kind: "mkdir", Dir: "/" + top, Name: sub})
			emit(mkLeaf("/"+top+"/"+sub, kindsOf[i]))
		}
		visit := func() {
			d := "/" + p1 + "/" + sub
			for _, k := range rapid.SliceOfN(rapid.SampledFrom([]string{"lookup", "getattr", "readdirplus", "readdir", "lookupsub"}), 1, 4).Draw(t, "swapvisit") {
				switch k {
				case "lookup", "getattr":
					emit(c02Op{Kind: k, Dir: d, Name: leaf})
				case "lookupsub":
					emit(c02Op{Kind: "lookup", Dir: "/" + p1, Name: sub})
				default:
					emit(c02Op{Kind: k, Dir: d})
				}
			}
		}
		visit()
		emit(c02Op{Kind: "rename", Dir: "/", Name: p1, Dir2: "/", Name2: p3})
		emit(c02Op{Kind: "rename", Dir: "/", Name: p2, Dir2: "/", Name2: p1})
		emit(c02Op{Kind: "lookup", Dir: "/" + p1 + "/" + sub, Name: leaf})
		visit()
	}
	for i := 0; i < n; i++ {
		op := c02Op{Kind: rapid.SampledFrom(kinds).Draw(t, "kind")}
		op.Dir = pickDir("dir")
		op.Name = rapid.SampledFrom(c02Names).Draw(t, "name")
		switch op.Kind {
		case "create":
			op.How = pick(t, "how", uint32(nfsx.Unchecked), uint32(nfsx.Guarded), uint32(nfsx.Exclusive))
		case "symlink":
			op.Target = pick(t, "target", "a", "b/c", "nowhere", "c")
		case "rename":
			op.Dir2 = pickDir("dir2")
			op.Name2 = rapid.SampledFrom(c02Names).Draw(t, "name2")
		case "readdir", "readdirplus":
			op.Name = ""
		case "getattr":
			if rapid.IntRange(0, 3).Draw(t, "onroot") == 0 {
				op.Name = ""
			}
		}
		// sandwich: the same read-only probe of an affected directory or name before and after a mutation
		// (what a cache that misses an invalidation gets wrong)
		var probe *c02Op
		switch op.Kind {
		case "create", "mkdir", "symlink", "remove", "rmdir", "rename":
			if hasKind(kinds, "readdir") && rapid.IntRange(0, 9).Draw(t, "sandwich") < 4 {
				pd, pn := op.Dir, op.Name
				if op.Kind == "rename" && rapid.Bool().Draw(t, "probe_dst") {
					pd, pn = op.Dir2, op.Name2
				}
				switch pick(t, "probekind", "readdir", "readdirplus", "lookup", "getattr") {
				case "readdir":
					probe = &c02Op{Kind: "readdir", Dir: pd}
				case "readdirplus":
					probe = &c02Op{Kind: "readdirplus", Dir: pd}
				case "lookup":
					probe = &c02Op{Kind: "lookup", Dir: pd, Name: pn}
				default:
					probe = &c02Op{Kind: "getattr", Dir: pd, Name: pn}
				}
			}
		}
		if probe != nil {
			ops = append(ops, *probe)
		}
		v := modelVerdict(m, op)
		if v.exp == expOK {
			v.apply()
		}
		ops = append(ops, op)
		if probe != nil {
			ops = append(ops, *probe)
		}
	}
	return ops
}

func hasKind(kinds []string, k string) bool {
	for _, x := range kinds {
		if x == k {
			return true
		}
	}
	return false
}

var c02Kinds = []string{"lookup", "lookup", "lookup", "create", "create", "create", "mkdir", "mkdir", "mkdir", "symlink", "symlink", "remove", "remove", "rmdir", "rmdir", "rename", "rename", "rename", "readdir", "readdir", "readdirplus", "readdirplus", "getattr", "getattr", "readlink", "readlink", "roundtrip"}

var c02CachedConfigs = func() []cacheCfg {
	var out []cacheCfg
	for _, ttl := range []int64{1, 3600e9} {
		for _, sz := range []int{2, 10000} {
			for _, dc := range []bool{false, true} {
				for _, neg := range []bool{false, true} {
					c := cacheCfg{AttrTTLns: ttl, AttrSize: sz, DirCache: dc, Negative: neg}
					if c == (cacheCfg{AttrTTLns: 1, AttrSize: 2}) {
						continue
					}
					out = append(out, c)
				}
			}
		}
	}
	return out
}()

func genC02(t *rapid.T) c02Case {
	maxOps := 25
	if thorough() {
		maxOps = 40
	}
	c := c02Case{Ops: genC02Ops(t, maxOps, c02Kinds)}
	k := 3
	if thorough() {
		k = 6
	}
	c.Configs = append(c.Configs, cacheCfg{AttrTTLns: 1, AttrSize: 2}) // baseline first
	idx := rapid.Permutation(c02CachedConfigs).Draw(t, "cfgs")
	c.Configs = append(c.Configs, idx[:k]...)
	if rapid.IntRange(0, 3).Draw(t, "conn") == 0 {
		for i := range c.Configs {
			c.Configs[i].Conn = true
		}
	}
	if rapid.IntRange(0, 5).Draw(t, "verbose") == 0 {
		// (only the cached configurations: the baseline keeps logging off, so logging takes part in the differential)
		for i := 1; i < len(c.Configs); i++ {
			c.Configs[i].Verbose = true
		}
	}
	if rapid.IntRange(0, 5).Draw(t, "limits") == 0 {
		for i := 1; i < len(c.Configs); i++ {
			c.Configs[i].Limits = true
		}
	}
	return c
}

// nsClient executes namespace ops against one server instance and its model.
type nsClient struct {
	s     *session
	v     *vfs.FS
	m     *mtree
	held  map[string]heldHandle
	canon []string
	lenient bool         // namespace verdict differences abandon the case instead of reporting (used by C04)
	attrs   *attrOracle  // C04 attribute oracle (nil in C02)
	// bookkeeping for labels / non-triviality
	dirty   map[string]bool
	ntReads int
	labels  map[string]bool
}

func newNsClient(s *session, v *vfs.FS) *nsClient {
	c := &nsClient{s: s, v: v, m: newMtree(), held: map[string]heldHandle{}, dirty: map[string]bool{}, labels: map[string]bool{}}
	c.held["/"] = heldHandle{fh: s.mount(), id: 1}
	return c
}

type nsViolation struct {
	sig, msg string
}

func (c *nsClient) note(format string, a ...any) { c.canon = append(c.canon, fmt.Sprintf(format, a...)) }

// handleFor returns the handle the client uses for path p: a held one (possibly
// stale) or one obtained by walking LOOKUPs from the root. mismatch reports that
// the held handle was issued for a different object than the model has at p now.
func (c *nsClient) handleFor(p string) (fh []byte, mismatch bool, viol *nsViolation) {
	if h, ok := c.held[p]; ok {
		n := c.m.get(p)
		return h.fh, n != nil && n.id != h.id, nil
	}
	cur := "/"
	for _, comp := range comps(p) {
		if _, ok := c.held[path.Join(cur, comp)]; !ok {
			if v := c.exec(c02Op{Kind: "lookup", Dir: cur, Name: comp}); v != nil {
				return nil, false, v
			}
		}
		cur = path.Join(cur, comp)
		if _, ok := c.held[cur]; !ok {
			return nil, false, nil
		}
	}
	h := c.held[p]
	n := c.m.get(p)
	return h.fh, n != nil && n.id != h.id, nil
}

func (c *nsClient) hold(p string, fh []byte) {
	if fh == nil {
		return
	}
	id := 0
	if n := c.m.get(p); n != nil {
		id = n.id
	}
	c.held[p] = heldHandle{fh: append([]byte(nil), fh...), id: id}
}

// exec runs one op, checks it against the model and the backend, and returns a
// violation description or nil.
func (c *nsClient) exec(op c02Op) *nsViolation {
	s := c.s
	if op.Kind == "mntattr" {
		return c.execMntAttr(op)
	}
	if op.Kind == "roundtrip" {
		// UpdateExportOptions(GetExportOptions()) is a no-op for every later reply
		if err := s.e.NFS.UpdateExportOptions(s.e.NFS.GetExportOptions()); err != nil {
			return &nsViolation{"options-round-trip-rejected", fmt.Sprintf("UpdateExportOptions(GetExportOptions()): %v", err)}
		}
		c.labels["options_round_trip"] = true
		return nil
	}
	pre := c.v.Snapshot()
	var mismatch bool
	addr := op.Dir
	switch op.Kind {
	case "getattr", "readlink", "setattr", "write", "read", "access":
		addr = op.objPath()
	}
	// A handle kept from earlier whose path now runs through a symbolic link in one of its ancestor components
	// (the ancestor was renamed away and a link put in its place): handles are bound to paths, and POSIX path
	// resolution follows such a link, so the backend answers for the object behind the link. Neither answer can be
	// called wrong against a POSIX-like model; the request is not sent.
	crosses := func(p string) bool {
		if _, held := c.held[p]; !held {
			return false
		}
		cs := comps(p)
		cur := "/"
		for i := 0; i+1 < len(cs); i++ {
			cur = path.Join(cur, cs[i])
			if n := c.m.get(cur); n != nil && n.kind == 'l' {
				return true
			}
		}
		return false
	}
	if crosses(addr) || op.Kind == "rename" && crosses(op.Dir2) {
		c.labels["skipped_kept_handle_path_crosses_symlink"] = true
		return nil
	}
	fh, mm, viol := c.handleFor(addr)
	if viol != nil {
		return viol
	}
	mismatch = mm
	if fh == nil {
		c.labels["skipped_no_handle"] = true
		return nil
	}
	var fh2 []byte
	if op.Kind == "rename" {
		var mm2 bool
		fh2, mm2, viol = c.handleFor(op.Dir2)
		if viol != nil {
			return viol
		}
		if fh2 == nil {
			c.labels["skipped_no_handle"] = true
			return nil
		}
		mismatch = mismatch || mm2
		pre = c.v.Snapshot()
	}
	if mismatch {
		c.labels["handle_of_replaced_object"] = true
	}
	if _, ok := c.held[addr]; ok && c.m.get(addr) == nil {
		c.labels["handle_of_removed_path"] = true
	}
	ver := modelVerdict(c.m, op)
	desc := fmt.Sprintf("%s dir=%s name=%s", op.Kind, op.Dir, op.Name)
	if op.Kind == "rename" {
		desc += fmt.Sprintf(" -> dir=%s name=%s", op.Dir2, op.Name2)
	}

	var res *nfsx.Res
	var gotNames []string
	var allEntries []nfsx.Entry
	preL := map[string]vfs.Entry{}
	for _, p := range []string{op.Dir, op.objPath(), op.Dir2} {
		if p != "" {
			if e, ok := c.v.PeekLstat(p); ok {
				preL[p] = e
			}
		}
	}
	switch op.Kind {
	case "setattr":
		var sa nfsx.Sattr
		if op.SetMode {
			sa.Mode = nfsx.U32p(op.Mode)
		}
		if op.SetSize {
			sa.Size = nfsx.U64p(op.Size)
		}
		if op.Times == 1 {
			sa.Atime, sa.Mtime = nfsx.SetTime{How: 1}, nfsx.SetTime{How: 1}
		} else if op.Times == 2 {
			sa.Atime, sa.Mtime = nfsx.SetTime{How: 2, T: nfsx.Time{Sec: 12345, Nsec: 6}}, nfsx.SetTime{How: 2, T: nfsx.Time{Sec: 54321, Nsec: 7}}
		}
		res = s.nfs(nfsx.ProcSetattr, nfsx.ArgsSetattr(fh, sa, nil))
	case "write":
		data := make([]byte, op.Len)
		for i := range data {
			data[i] = byte(i) | 1
		}
		res = s.nfs(nfsx.ProcWrite, nfsx.ArgsWrite(fh, op.Off, uint32(len(data)), nfsx.FileSync, data))
	case "read":
		res = s.nfs(nfsx.ProcRead, nfsx.ArgsRead(fh, op.Off, uint32(op.Len)))
	case "access":
		res = s.nfs(nfsx.ProcAccess, nfsx.ArgsAccess(fh, 0x3f))
	case "lookup":
		res = s.nfs(nfsx.ProcLookup, nfsx.ArgsDirop(fh, op.Name))
	case "create":
		var verf [8]byte
		copy(verf[:], "verifier")
		var csa nfsx.Sattr
		if op.SetSize {
			csa.Size = nfsx.U64p(op.Size)
		}
		if op.SetMode {
			csa.Mode = nfsx.U32p(op.Mode & 0777)
		}
		res = s.nfs(nfsx.ProcCreate, nfsx.ArgsCreate(fh, op.Name, op.How, csa, verf))
	case "mkdir":
		var msa nfsx.Sattr
		if op.SetMode {
			msa.Mode = nfsx.U32p(op.Mode & 0777)
		}
		res = s.nfs(nfsx.ProcMkdir, nfsx.ArgsMkdir(fh, op.Name, msa))
	case "symlink":
		var ssa nfsx.Sattr
		if op.SetMode {
			ssa.Mode = nfsx.U32p(op.Mode & 0777)
		}
		res = s.nfs(nfsx.ProcSymlink, nfsx.ArgsSymlink(fh, op.Name, ssa, op.Target))
	case "remove":
		res = s.nfs(nfsx.ProcRemove, nfsx.ArgsDirop(fh, op.Name))
	case "rmdir":
		res = s.nfs(nfsx.ProcRmdir, nfsx.ArgsDirop(fh, op.Name))
	case "rename":
		res = s.nfs(nfsx.ProcRename, nfsx.ArgsRename(fh, op.Name, fh2, op.Name2))
	case "getattr":
		res = s.nfs(nfsx.ProcGetattr, nfsx.ArgsFh(fh))
	case "readlink":
		res = s.nfs(nfsx.ProcReadlink, nfsx.ArgsFh(fh))
	case "readdir", "readdirplus":
		// follow cookies to completion
		var cookie uint64
		var verf [8]byte
		seen := map[string]bool{}
		for round := 0; ; round++ {
			if op.Kind == "readdir" {
				res = s.nfs(nfsx.ProcReaddir, nfsx.ArgsReaddir(fh, cookie, verf, 65536))
			} else {
				res = s.nfs(nfsx.ProcReaddirplus, nfsx.ArgsReaddirplus(fh, cookie, verf, 65536, 65536))
			}
			if res.Status != nfsx.OK {
				break
			}
			verf = res.CookieVerf
			for _, e := range res.Entries {
				if e.Name == "." || e.Name == ".." {
					continue
				}
				if seen[e.Name] {
					return &nsViolation{"readdir-duplicate-entry", fmt.Sprintf("%s: entry %q returned twice", desc, e.Name)}
				}
				seen[e.Name] = true
				allEntries = append(allEntries, e)
				gotNames = append(gotNames, e.Name)
				cookie = e.Cookie
				if e.Fh != nil && ver.exp == expOK && !mismatch {
					c.hold(path.Join(op.Dir, e.Name), e.Fh)
				}
			}
			if res.EOF || round > 200 || len(res.Entries) == 0 {
				break
			}
		}
		sort.Strings(gotNames)
	}

	ok := res.Status == nfsx.OK
	c.note("%s st=%d", desc, res.Status)

	// ---- OK-vs-fail against the model
	switch {
	case c.lenient && (ver.exp == expOK && !ok && !mismatch || ver.exp == expFail && ok):
		// the namespace verdict is C02's business; this check only needs a model that is still in step
		stat.Discard(false)
		panic(abandon{"namespace verdict differs from the model (judged by C02)"})
	case ver.exp == expOK && !ok:
		if !mismatch {
			return &nsViolation{"unexpected-failure:" + op.Kind, fmt.Sprintf("%s: model says it succeeds, server replied %s", desc, statusName(res.Status))}
		}
		c.labels["L7_tolerated_failure"] = true
	case ver.exp == expFail && ok:
		return &nsViolation{"unexpected-success:" + op.Kind, fmt.Sprintf("%s: model says it fails, server replied OK", desc)}
	}
	if ok && ver.exp != expFail {
		ver.apply()
	}

	// ---- payload
	if ok {
		switch op.Kind {
		case "lookup":
			n := c.m.get(path.Join(op.Dir, op.Name))
			if n != nil && res.Attr != nil && kindOfType(res.Attr.Type) != n.kind {
				return &nsViolation{"lookup-wrong-type", fmt.Sprintf("%s: reply type %d, model kind %c", desc, res.Attr.Type, n.kind)}
			}
			if res.Attr != nil {
				c.note("  type=%d", res.Attr.Type)
			}
			c.hold(path.Join(op.Dir, op.Name), res.Fh)
		case "create", "mkdir", "symlink":
			if res.Fh != nil {
				c.hold(path.Join(op.Dir, op.Name), res.Fh)
			}
			if res.Attr != nil {
				c.note("  type=%d", res.Attr.Type)
				if n := c.m.get(path.Join(op.Dir, op.Name)); n != nil && kindOfType(res.Attr.Type) != n.kind {
					return &nsViolation{op.Kind + "-wrong-type", fmt.Sprintf("%s: reply type %d, model kind %c", desc, res.Attr.Type, n.kind)}
				}
			}
		case "getattr":
			n := c.m.get(op.objPath())
			if n != nil && kindOfType(res.Attr.Type) != n.kind {
				return &nsViolation{"getattr-wrong-type", fmt.Sprintf("%s: reply type %d, model kind %c", desc, res.Attr.Type, n.kind)}
			}
			c.note("  type=%d", res.Attr.Type)
		case "readlink":
			n := c.m.get(op.objPath())
			if n != nil && res.Link != n.target {
				return &nsViolation{"readlink-wrong-target", fmt.Sprintf("%s: target %q, model %q", desc, res.Link, n.target)}
			}
			c.note("  link=%q", res.Link)
		case "readdir", "readdirplus":
			d := c.m.get(op.Dir)
			var want []string
			if d != nil {
				for k := range d.children {
					want = append(want, k)
				}
			}
			sort.Strings(want)
			c.note("  names=%v", gotNames)
			if strings.Join(want, ",") != strings.Join(gotNames, ",") {
				return &nsViolation{"listing-differs-from-tree", fmt.Sprintf("%s: listed %v, directory holds %v", desc, gotNames, want)}
			}
		}
	}

	if c.attrs != nil {
		if v := c.attrs.check(c, op, res, allEntries, preL, mismatch); v != nil {
			return v
		}
	}

	// ---- backend tree
	post := c.v.Snapshot()
	if !ok && !c.lenient {
		if d := vfs.DiffSnapshots(pre, post); d != "" {
			return &nsViolation{"failed-request-changed-tree:" + op.Kind, fmt.Sprintf("%s replied %s but the backend tree changed: %s", desc, statusName(res.Status), d)}
		}
	}
	if d := diffFlat(c.m.flat(), flatSnapshot(post)); d != "" {
		if c.lenient {
			stat.Discard(false)
			panic(abandon{"tree diverged (judged by C02)"})
		}
		return &nsViolation{"tree-diverges-from-model:" + op.Kind, fmt.Sprintf("after %s (%s): %s", desc, statusName(res.Status), d)}
	}

	// ---- non-triviality bookkeeping
	switch op.Kind {
	case "create", "mkdir", "symlink", "remove", "rmdir":
		if ok {
			c.dirty[op.Dir] = true
			c.dirty[path.Join(op.Dir, op.Name)] = true
		}
	case "rename":
		if ok {
			for _, p := range []string{op.Dir, op.Dir2, path.Join(op.Dir, op.Name), path.Join(op.Dir2, op.Name2)} {
				c.dirty[p] = true
			}
			// everything below a moved directory is affected too
			for k := range c.held {
				if strings.HasPrefix(k, path.Join(op.Dir, op.Name)+"/") {
					c.dirty[k] = true
				}
			}
		}
	default:
		if c.dirty[op.Dir] || c.dirty[path.Join(op.Dir, op.Name)] {
			c.ntReads++
		}
	}
	return nil
}

// execMntAttr mounts op.Dir under one of several spellings of its path and reads the attributes through the
// handle MNT returned: the same object, hence the same fileid and type as every other procedure reports (C04).
func (c *nsClient) execMntAttr(op c02Op) *nsViolation {
	d := c.m.get(op.Dir)
	if d == nil || d.kind != 'd' {
		return nil
	}
	p := op.Dir
	var sp string
	if p == "/" {
		sp = []string{"/", "//", "/.", "/./", "/..", "///", "/"}[op.Len%7]
	} else {
		sp = []string{p, p + "/", "/" + p, p + "/.", "/." + p, p + "//", p + "/../" + path.Base(p)}[op.Len%7]
	}
	fh, st, err := c.s.e.Mount(drv.Root(), sp)
	if err != nil || st != 0 || fh == nil {
		c.labels["mnt_spelling_refused"] = true
		return nil
	}
	res := c.s.nfs(nfsx.ProcGetattr, nfsx.ArgsFh(fh))
	c.note("mntattr %s st=%d", p, res.Status)
	if res.Status != nfsx.OK || c.attrs == nil {
		return nil
	}
	c.labels["getattr_through_mnt_handle"] = true
	return c.attrs.check(c, c02Op{Kind: "getattr", Dir: p}, res, nil, nil, false)
}

// runNsConfig executes ops under one cache configuration.
func runNsConfig(tb stat.TB, id, check string, c any, ops []c02Op, cfg cacheCfg) (cl *nsClient, abandoned, known bool) {
	v := vfs.New()
	opts := absnfs.ExportOptions{}
	cfg.apply(&opts)
	s := newSession(tb, v, opts)
	defer s.close()
	s.e.ViaConn = cfg.Conn
	abandoned = guard(func() {
		cl = newNsClient(s, v)
		for _, op := range ops {
			if viol := cl.exec(op); viol != nil {
				if stat.Violate(tb, id, check, viol.sig, c, "[caches %+v] %s", cfg, viol.msg) {
					known = true
					return
				}
			}
		}
	})
	return
}

func runC02(tb stat.TB, c c02Case) {
	const id, check = "C02", "TestC02"
	var base *nsClient
	nt := false
	labels := map[string]bool{}
	for i, cfg := range c.Configs {
		cl, abandoned, known := runNsConfig(tb, id, check, c, c.Ops, cfg)
		if abandoned {
			return
		}
		if known {
			stat.Case(c, false, "ended_at_known_finding")
			return
		}
		for l := range cl.labels {
			labels[l] = true
		}
		if i == 0 {
			base = cl
			continue
		}
		if cfg.anyOn() && cl.ntReads > 0 {
			nt = true
		}
		// differential: same replies as the all-off baseline
		for j := range base.canon {
			if j >= len(cl.canon) || base.canon[j] != cl.canon[j] {
				got := "<missing>"
				if j < len(cl.canon) {
					got = cl.canon[j]
				}
				if stat.Violate(tb, id, check, "cache-changes-reply", c, "reply #%d differs with caches %+v: baseline %q, cached %q", j, cfg, base.canon[j], got) {
					stat.Case(c, false, "ended_at_known_finding")
					return
				}
			}
		}
	}
	var ls []string
	for l := range labels {
		ls = append(ls, l)
	}
	stat.Case(c, nt, ls...)
}

var propC02 = defProp("C02", "TestC02", genC02, runC02)

func TestC02(t *testing.T) { propC02.Test(t) }
