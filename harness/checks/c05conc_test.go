package checks

// C05 / C06 at the handle table, with allocations that overlap in time: several goroutines allocate handles for
// distinct paths at once in a table far too small for them (so evictions overlap too), then further handles are
// allocated one by one. Judged: the table never exceeds its maximum when nobody is inside Allocate; the path index and
// the table are inverse maps (one handle per path, one path per handle); a handle resolves to the node of the path it
// was just issued for (C05); a value that was live for another path immediately before an allocation is not the
// value that allocation returns (C06 - not the recycling of a freed id, which is the known finding).

import (
	"fmt"
	"runtime"
	"sync"
	"testing"

	"github.com/absfs/absnfs"
	"pgregory.net/rapid"

	"verif/harness/stat"
	"verif/harness/vfs"
)

type c05cCase struct {
	Max     int `json:"max"`
	Workers int `json:"workers"`
	Each    int `json:"each"`
	After   int `json:"after"`
	Rounds  int `json:"rounds"`
}

func genC05c(t *rapid.T) c05cCase {
	return c05cCase{Max: rapid.IntRange(1, 12).Draw(t, "max"), Workers: rapid.IntRange(2, 6).Draw(t, "workers"), Each: rapid.IntRange(2, 20).Draw(t, "each"), After: rapid.IntRange(2, 24).Draw(t, "after"), Rounds: rapid.IntRange(1, 3).Draw(t, "rounds")}
}

// slowCloseFS makes File.Close (what eviction calls on its victims) yield, so that whatever a table does around it
// has time to overlap with other allocations.
func runC05c(tb stat.TB, c c05cCase, id, check string) {
	fs := vfs.New()
	fm := absnfs.VerifNewFileHandleMap(c.Max)
	serial := 0
	for round := 0; round < c.Rounds; round++ {
		var wg sync.WaitGroup
		start := make(chan struct{})
		for g := 0; g < c.Workers; g++ {
			wg.Add(1)
			go func(g int) {
				defer wg.Done()
				<-start
				for k := 0; k < c.Each; k++ {
					fm.Allocate(absnfs.VerifNewNode(fs, fmt.Sprintf("/r%d/g%d/p%d", round, g, k)))
					if k%3 == 0 {
						runtime.Gosched()
					}
				}
			}(g)
		}
		close(start)
		wg.Wait()
		check1 := func(where string) bool {
			ph, hp := fm.VerifPathHandles(), fm.VerifHandlePaths()
			if id == "C05" && len(hp) > c.Max {
				return !stat.Violate(tb, id, check, "table-exceeds-maximum", c, "%s: %d live handles, configured maximum %d", where, len(hp), c.Max)
			}
			for p, h := range ph {
				if q, ok := hp[h]; !ok || q != p {
					sig := "path-index-names-dead-or-foreign-handle"
					if ok {
						sig = "two-live-paths-share-a-handle-value"
					}
					return !stat.Violate(tb, id, check, sig, c, "%s: the path index maps %s to handle %d, the table maps that handle to %q (present=%v)", where, p, h, q, ok)
				}
			}
			if len(ph) != len(hp) {
				return !stat.Violate(tb, id, check, "two-live-paths-share-a-handle-value", c, "%s: %d paths indexed but %d handles in the table", where, len(ph), len(hp))
			}
			return true
		}
		if !check1(fmt.Sprintf("after %d goroutines allocated %d handles each at once (round %d)", c.Workers, c.Each, round)) {
			return
		}
		for k := 0; k < c.After; k++ {
			serial++
			p := fmt.Sprintf("/after/p%d", serial)
			pre := fm.VerifHandlePaths()
			h := fm.Allocate(absnfs.VerifNewNode(fs, p))
			if q, live := pre[h]; live && q != p {
				stat.Violate(tb, id, check, "live-handle-value-issued-for-another-path", c, "allocation #%d after the concurrent phase: handle %d was live for %s immediately before it was returned for %s (nothing evicted or released it)", serial, h, q, p)
				return
			}
			if id == "C05" {
				f, ok := fm.Get(h)
				got, _ := absnfs.VerifNodePath(f)
				if !ok || got != p {
					stat.Violate(tb, id, check, "reply-carries-dead-handle", c, "allocation #%d after the concurrent phase: handle %d just returned for %s resolves to %q (present=%v)", serial, h, p, got, ok)
					return
				}
			}
			if !check1(fmt.Sprintf("after sequential allocation #%d", serial)) {
				return
			}
		}
	}
	stat.Case(c, c.Workers*c.Each > c.Max)
}

var propC05c = defProp("C05", "TestC05ConcurrentMap", genC05c, func(tb stat.TB, c c05cCase) { runC05c(tb, c, "C05", "TestC05ConcurrentMap") })
var propC06c = defProp("C06", "TestC06ConcurrentMap", genC05c, func(tb stat.TB, c c05cCase) { runC05c(tb, c, "C06", "TestC06ConcurrentMap") })

func TestC05ConcurrentMap(t *testing.T) { propC05c.Test(t) }
func TestC06ConcurrentMap(t *testing.T) { propC06c.Test(t) }
