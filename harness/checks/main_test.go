package checks

import (
	"encoding/json"
	"fmt"
	"os"
	"path/filepath"
	"sort"
	"strconv"
	"testing"
	"time"

	"pgregory.net/rapid"

	"verif/harness/stat"
)

// Every check is a prop: a generator of serialisable cases and a runner that
// executes a case against the real absnfs code and its oracle.
type replayFn func(tb stat.TB, raw json.RawMessage) error

var registry = map[string]replayFn{}

var (
	shard, _   = strconv.Atoi(os.Getenv("VERIF_SHARD"))
	nshards, _ = strconv.Atoi(os.Getenv("VERIF_NSHARDS"))
	tier       = os.Getenv("VERIF_TIER")
	verifRoot  = envOr("VERIF_ROOT", "/verif")
)

func envOr(k, d string) string {
	if v := os.Getenv(k); v != "" {
		return v
	}
	return d
}

func thorough() bool { return tier == "thorough" }

func TestMain(m *testing.M) {
	if nshards == 0 {
		nshards = 1
	}
	if os.Getenv("VERIF_DEBUG") == "" {
		if f, err := os.OpenFile(os.DevNull, os.O_WRONLY, 0); err == nil {
			os.Stderr = f
		}
	}
	code := m.Run()
	minimizeViolations()
	stat.Flush()
	if trustFile != "" {
		os.Remove(trustFile)
	}
	os.Exit(code)
}

type prop[C any] struct {
	id, name string
	gen      func(*rapid.T) C
	run      func(stat.TB, C)
}

func defProp[C any](id, name string, gen func(*rapid.T) C, run func(stat.TB, C)) *prop[C] {
	p := &prop[C]{id: id, name: name, gen: gen, run: run}
	registry[name] = func(tb stat.TB, raw json.RawMessage) error {
		var c C
		if err := json.Unmarshal(raw, &c); err != nil {
			return err
		}
		run(tb, c)
		return nil
	}
	return p
}

// replayFile is the on-disk format of /verif/replays/<id>/*.json.
type replayFile struct {
	Property  string          `json:"property_id"`
	Check     string          `json:"check"`
	Signature string          `json:"signature"`
	Message   string          `json:"message"`
	Case      json.RawMessage `json:"case"`
}

func replaysFor(id, name string) []replayFile {
	files, _ := filepath.Glob(filepath.Join(verifRoot, "replays", id, "*.json"))
	sort.Strings(files)
	var out []replayFile
	for _, f := range files {
		b, err := os.ReadFile(f)
		if err != nil {
			continue
		}
		var rf replayFile
		if json.Unmarshal(b, &rf) != nil || rf.Check != name {
			continue
		}
		out = append(out, rf)
	}
	return out
}

// Test runs the regression tier (saved replays, shard 0) and then the rapid search.
func (p *prop[C]) Test(t *testing.T) {
	stat.SetProperty(p.id)
	if shard == 0 {
		for _, rf := range replaysFor(p.id, p.name) {
			var c C
			if err := json.Unmarshal(rf.Case, &c); err != nil {
				t.Fatalf("harness: bad replay case: %v", err)
			}
			stat.Label("regression_replays", 1)
			p.run(t, c)
		}
	}
	rapid.Check(t, func(rt *rapid.T) {
		c := p.gen(rt)
		stat.Begin(c)
		p.run(rt, c)
	})
}

// TestReplayOne re-executes the case stored in $VERIF_REPLAY through the same oracle, bypassing rapid.
func TestReplayOne(t *testing.T) {
	path := os.Getenv("VERIF_REPLAY")
	if path == "" {
		t.Skip("VERIF_REPLAY not set")
	}
	b, err := os.ReadFile(path)
	if err != nil {
		t.Fatalf("harness: %v", err)
	}
	var rf replayFile
	if err := json.Unmarshal(b, &rf); err != nil {
		t.Fatalf("harness: %v", err)
	}
	fn, ok := registry[rf.Check]
	if !ok {
		t.Fatalf("harness: unknown check %q", rf.Check)
	}
	stat.SetProperty(rf.Property)
	if err := fn(t, rf.Case); err != nil {
		t.Fatalf("harness: %v", err)
	}
	fmt.Println("replay passed")
}

// ---------------------------------------------------------------- failure minimisation
//
// rapid shrinks its draw stream; op lists generated with a shadow model shrink
// poorly that way, so every remembered violation is additionally minimised at
// the case level: elements of operation arrays are deleted (ddmin) as long as
// the same oracle still reports the same signature.

type capFail struct{}
type capTB struct{}

func (capTB) Fatalf(string, ...any) { panic(capFail{}) }
func (capTB) Logf(string, ...any)   {}

func trySignature(check string, raw json.RawMessage) string {
	fn := registry[check]
	if fn == nil {
		return ""
	}
	stat.ClearViolation(check)
	func() {
		defer func() {
			if r := recover(); r != nil {
				if _, ok := r.(capFail); !ok {
					// a crash while minimising is not the same failure
					stat.ClearViolation(check)
				}
			}
		}()
		fn(capTB{}, raw)
	}()
	if v := stat.LastViolation(check); v != nil {
		return v.Signature
	}
	return ""
}

var opArrayKeys = map[string]bool{"ops": true, "events": true, "steps": true, "actions": true, "calls": true, "prefix": true, "records": true, "configs": true}

// arrays finds op arrays inside a decoded JSON document.
func findArrays(doc any, path []string, out *[][]string) {
	switch v := doc.(type) {
	case map[string]any:
		for k, x := range v {
			p := append(append([]string{}, path...), k)
			if arr, ok := x.([]any); ok && opArrayKeys[k] && len(arr) >= 2 {
				*out = append(*out, p)
			}
			findArrays(x, p, out)
		}
	}
}

func getArr(doc any, path []string) []any {
	cur := doc
	for _, k := range path {
		m, ok := cur.(map[string]any)
		if !ok {
			return nil
		}
		cur = m[k]
	}
	a, _ := cur.([]any)
	return a
}

func setArr(doc any, path []string, a []any) {
	cur := doc
	for _, k := range path[:len(path)-1] {
		cur = cur.(map[string]any)[k]
	}
	cur.(map[string]any)[path[len(path)-1]] = a
}

func minimizeViolations() {
	if os.Getenv("VERIF_NOMINIMIZE") != "" {
		return
	}
	stat.Pause(true)
	defer stat.Pause(false)
	for _, check := range stat.ViolatedChecks() {
		best := stat.LastViolation(check)
		if best == nil || registry[check] == nil {
			continue
		}
		deadline := time.Now().Add(25 * time.Second)
		// confirm reproducibility first
		if trySignature(check, best.Case) != best.Signature {
			stat.SetViolation(check, best)
			continue
		}
		var doc any
		if json.Unmarshal(best.Case, &doc) != nil {
			stat.SetViolation(check, best)
			continue
		}
		progress := true
		for progress && time.Now().Before(deadline) {
			progress = false
			var paths [][]string
			findArrays(doc, nil, &paths)
			sort.Slice(paths, func(i, j int) bool { return fmt.Sprint(paths[i]) < fmt.Sprint(paths[j]) })
			for _, p := range paths {
				arr := getArr(doc, p)
				minLen := 1
				for chunk := len(arr) / 2; chunk >= 1 && time.Now().Before(deadline); chunk /= 2 {
					for i := 0; i+chunk <= len(arr) && len(arr)-chunk >= minLen && time.Now().Before(deadline); {
						cand := append(append([]any{}, arr[:i]...), arr[i+chunk:]...)
						setArr(doc, p, cand)
						raw, _ := json.Marshal(doc)
						if trySignature(check, raw) == best.Signature {
							arr = cand
							nv := stat.LastViolation(check)
							best = nv
							progress = true
						} else {
							setArr(doc, p, arr)
							i += chunk
						}
					}
				}
				setArr(doc, p, arr)
			}
		}
		stat.SetViolation(check, best)
	}
}

// pick is a tiny helper for weighted generator choices.
func pick[T any](t *rapid.T, label string, xs ...T) T { return rapid.SampledFrom(xs).Draw(t, label) }
