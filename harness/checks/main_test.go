package checks

import (
	"encoding/json"
	"fmt"
	"os"
	"path/filepath"
	"sort"
	"strconv"
	"testing"

	"pgregory.net/rapid"

	"verif/harness/stat"
)

// Every check is a prop: a generator of serialisable cases and a runner that
// executes a case against the real absnfs code and its oracle.
type replayFn func(tb stat.TB, raw json.RawMessage) error

var registry = map[string]replayFn{}

var (
	shard, _   = strconv.Atoi(os.Getenv("VERIF_SHARD"))
	nshards, _ = strconv.Atoi(os.Getenv("VERIF_NSHARDS"))
	tier       = os.Getenv("VERIF_TIER")
	verifRoot  = envOr("VERIF_ROOT", "/verif")
)

func envOr(k, d string) string {
	if v := os.Getenv(k); v != "" {
		return v
	}
	return d
}

func thorough() bool { return tier == "thorough" }

func TestMain(m *testing.M) {
	if nshards == 0 {
		nshards = 1
	}
	if os.Getenv("VERIF_DEBUG") == "" {
		if f, err := os.OpenFile(os.DevNull, os.O_WRONLY, 0); err == nil {
			os.Stderr = f
		}
	}
	code := m.Run()
	stat.Flush()
	os.Exit(code)
}

type prop[C any] struct {
	id, name string
	gen      func(*rapid.T) C
	run      func(stat.TB, C)
}

func defProp[C any](id, name string, gen func(*rapid.T) C, run func(stat.TB, C)) *prop[C] {
	p := &prop[C]{id: id, name: name, gen: gen, run: run}
	registry[name] = func(tb stat.TB, raw json.RawMessage) error {
		var c C
		if err := json.Unmarshal(raw, &c); err != nil {
			return err
		}
		run(tb, c)
		return nil
	}
	return p
}

// replayFile is the on-disk format of /verif/replays/<id>/*.json.
type replayFile struct {
	Property  string          `json:"property_id"`
	Check     string          `json:"check"`
	Signature string          `json:"signature"`
	Message   string          `json:"message"`
	Case      json.RawMessage `json:"case"`
}

func replaysFor(id, name string) []replayFile {
	files, _ := filepath.Glob(filepath.Join(verifRoot, "replays", id, "*.json"))
	sort.Strings(files)
	var out []replayFile
	for _, f := range files {
		b, err := os.ReadFile(f)
		if err != nil {
			continue
		}
		var rf replayFile
		if json.Unmarshal(b, &rf) != nil || rf.Check != name {
			continue
		}
		out = append(out, rf)
	}
	return out
}

// Test runs the regression tier (saved replays, shard 0) and then the rapid search.
func (p *prop[C]) Test(t *testing.T) {
	stat.SetProperty(p.id)
	if shard == 0 {
		for _, rf := range replaysFor(p.id, p.name) {
			var c C
			if err := json.Unmarshal(rf.Case, &c); err != nil {
				t.Fatalf("harness: bad replay case: %v", err)
			}
			stat.Label("regression_replays", 1)
			p.run(t, c)
		}
	}
	rapid.Check(t, func(rt *rapid.T) {
		c := p.gen(rt)
		stat.Begin(c)
		p.run(rt, c)
	})
}

// TestReplayOne re-executes the case stored in $VERIF_REPLAY through the same oracle, bypassing rapid.
func TestReplayOne(t *testing.T) {
	path := os.Getenv("VERIF_REPLAY")
	if path == "" {
		t.Skip("VERIF_REPLAY not set")
	}
	b, err := os.ReadFile(path)
	if err != nil {
		t.Fatalf("harness: %v", err)
	}
	var rf replayFile
	if err := json.Unmarshal(b, &rf); err != nil {
		t.Fatalf("harness: %v", err)
	}
	fn, ok := registry[rf.Check]
	if !ok {
		t.Fatalf("harness: unknown check %q", rf.Check)
	}
	stat.SetProperty(rf.Property)
	if err := fn(t, rf.Case); err != nil {
		t.Fatalf("harness: %v", err)
	}
	fmt.Println("replay passed")
}

// pick is a tiny helper for weighted generator choices.
func pick[T any](t *rapid.T, label string, xs ...T) T { return rapid.SampledFrom(xs).Draw(t, label) }
