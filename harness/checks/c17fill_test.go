package checks

// C17, "after AbsfsNFS.Close or Unexport ... the caches are empty", with a request that straddles the call: a LOOKUP,
// GETATTR, READDIR or READDIRPLUS is parked right after its k-th backend call has returned (it has read the backend
// and not yet stored what it read), Close or Unexport runs to completion, the request goes on and finishes. What it
// read before the shutdown may not end up in the caches the shutdown emptied.

import (
	"sync"
	"sync/atomic"
	"testing"
	"time"

	"github.com/absfs/absnfs"
	"pgregory.net/rapid"

	"verif/harness/nfsx"
	"verif/harness/stat"
	"verif/harness/vfs"
)

type c17fCase struct {
	Op       string `json:"op"`   // lookup getattr readdir readdirplus
	Call     string `json:"call"` // close unexport
	ParkAt   int    `json:"park_at"`
	DirCache bool   `json:"dir_cache"`
	Negative bool   `json:"negative"`
	Missing  bool   `json:"missing"` // the LOOKUP is of a name that does not exist (negative entry)
}

func genC17f(t *rapid.T) c17fCase {
	return c17fCase{Op: pick(t, "op", "lookup", "lookup", "getattr", "readdir", "readdirplus"), Call: pick(t, "call", "close", "unexport"), ParkAt: rapid.IntRange(1, 5).Draw(t, "park"),
		DirCache: rapid.Bool().Draw(t, "dc"), Negative: rapid.Bool().Draw(t, "neg"), Missing: rapid.IntRange(0, 2).Draw(t, "missing") == 0}
}

func runC17f(tb stat.TB, c c17fCase) {
	const id, check = "C17", "TestC17CloseFill"
	v := vfs.New()
	v.SeedDir("/d", 0755, 0, 0)
	v.SeedFile("/d/f", 0644, 0, 0, []byte("x"))
	v.SeedFile("/d/g", 0644, 0, 0, []byte("y"))
	opts := absnfs.ExportOptions{AttrCacheTimeout: time.Hour, AttrCacheSize: 1000, EnableDirCache: c.DirCache, DirCacheTimeout: time.Hour, CacheNegativeLookups: c.Negative, NegativeCacheTimeout: time.Hour}
	s := newSession(tb, v, opts)
	defer s.close()
	var armed atomic.Bool
	var mu sync.Mutex
	seen := 0
	parked, gate := make(chan struct{}), make(chan struct{})
	var once sync.Once
	release := func() { once.Do(func() { close(gate) }) }
	defer release()
	v.SetAfter(func(call *vfs.Call) {
		if !armed.Load() {
			return
		}
		mu.Lock()
		seen++
		hit := seen == c.ParkAt
		if hit {
			armed.Store(false)
		}
		mu.Unlock()
		if hit {
			close(parked)
			<-gate
		}
	})
	wasParked := false
	var stale []string
	guard(func() {
		root := s.mount()
		d := s.nfs(nfsx.ProcLookup, nfsx.ArgsDirop(root, "d"))
		f := s.nfs(nfsx.ProcLookup, nfsx.ArgsDirop(d.Fh, "f"))
		if d.Status != nfsx.OK || f.Status != nfsx.OK {
			tb.Fatalf("harness: setup lookups")
		}
		// start from empty caches (the setup filled them)
		s.e.NFS.VerifAttrCache().Clear()
		if dc := s.e.NFS.VerifDirCache(); dc != nil {
			dc.Clear()
		}
		done := make(chan struct{})
		v.SetRecording(true)
		v.ResetCalls()
		armed.Store(true)
		go func() {
			defer close(done)
			defer func() { recover() }()
			switch c.Op {
			case "lookup":
				name := "g"
				if c.Missing {
					name = "nothere"
				}
				s.nfs(nfsx.ProcLookup, nfsx.ArgsDirop(d.Fh, name))
			case "getattr":
				s.nfs(nfsx.ProcGetattr, nfsx.ArgsFh(f.Fh))
			case "readdir":
				s.nfs(nfsx.ProcReaddir, nfsx.ArgsReaddir(d.Fh, 0, [8]byte{}, 4096))
			default:
				s.nfs(nfsx.ProcReaddirplus, nfsx.ArgsReaddirplus(d.Fh, 0, [8]byte{}, 4096, 8192))
			}
		}()
		select {
		case <-parked:
			wasParked = true
		case <-done:
		case <-time.After(10 * time.Second):
			release()
			tb.Fatalf("harness: request neither parked nor returned")
		}
		armed.Store(false)
		cut := len(v.Calls()) // backend calls made before the shutdown call starts
		callDone := make(chan struct{})
		go func() {
			defer close(callDone)
			if c.Call == "close" {
				s.e.NFS.Close()
			} else {
				s.e.NFS.Unexport()
			}
		}()
		select {
		case <-callDone:
		case <-time.After(300 * time.Millisecond):
			// the call waits for the request in flight: fine, then it clears after the request has stored
			stat.Label("shutdown_call_waits_for_request", 1)
		}
		release()
		select {
		case <-done:
		case <-time.After(20 * time.Second):
			tb.Fatalf("harness: parked request did not finish")
		}
		select {
		case <-callDone:
		case <-time.After(20 * time.Second):
			stat.Violate(tb, id, check, "close-never-returns", c, "%s had not returned 20 s after the only request in flight finished", c.Call)
			return
		}
		// A request that goes on after the shutdown may read the backend again and cache that (nothing stops requests of
		// a handler that is not behind Export's own server); what is judged is data read BEFORE the shutdown only: a
		// cached path that the request read from the backend before the call started and never after.
		calls := v.Calls()
		readBefore, readAfter := map[string]bool{}, map[string]bool{}
		for i, cl := range calls {
			for _, p := range cl.Paths {
				if i < cut {
					readBefore[p] = true
				} else {
					readAfter[p] = true
				}
			}
		}
		keys := s.e.NFS.VerifAttrCache().VerifKeys()
		if dc := s.e.NFS.VerifDirCache(); dc != nil {
			keys = append(keys, dc.VerifKeys()...)
		}
		for _, k := range keys {
			if readBefore[k] && !readAfter[k] {
				stale = append(stale, k)
			}
		}
	})
	release()
	if len(stale) > 0 {
		stat.Violate(tb, id, check, "cache-refilled-after-close-by-request-in-flight", c, "a %s that had read the backend (parked after its backend call #%d) when %s ran stored what it had read before the shutdown afterwards: the caches hold %v, read from the backend only before the call started", c.Op, c.ParkAt, c.Call, stale)
		return
	}
	stat.Case(c, wasParked)
}

var propC17f = defProp("C17", "TestC17CloseFill", genC17f, runC17f)

func TestC17CloseFill(t *testing.T) { propC17f.Test(t) }
