package checks

// C22, overlapping requests: "any data acknowledged by a WRITE reply with committed = FILE_SYNC ... is present in the
// backing store after a crash" also when another WRITE or COMMIT of the same file is in progress at that moment.
// WRITE A is parked immediately before its k-th backend call; WRITE B (or an UNSTABLE WRITE B followed by COMMIT)
// runs to completion meanwhile; the durable image is examined at that instant, and again after A has been released
// and answered. Bytes covered by a request still in flight may hold either value.

import (
	"fmt"
	"sync"
	"sync/atomic"
	"testing"
	"time"

	"github.com/absfs/absnfs"
	"pgregory.net/rapid"

	"verif/harness/nfsx"
	"verif/harness/stat"
	"verif/harness/vfs"
)

type c22xW struct {
	Off    int    `json:"off"`
	Len    int    `json:"len"`
	Stable uint32 `json:"stable"`
}

type c22xCase struct {
	Base   int   `json:"base"` // size of the file before (written FILE_SYNC)
	A      c22xW `json:"a"`
	B      c22xW `json:"b"`
	ParkAt int   `json:"park_at"` // A parks before its k-th backend call
	// After: A parks right after its k-th backend call has taken effect (e.g. its Sync has synced) instead of before it
	After bool `json:"after,omitempty"`
	Commit bool  `json:"commit"`  // B is followed by a COMMIT of the whole file before the first examination
	Async  bool  `json:"async,omitempty"`
	// Rename: instead of WRITE B, the file is renamed away (s0 -> s1) and a new s0 is created while A is parked; the
	// bytes A is acknowledged for must be durable in whichever file holds them
	Rename bool `json:"rename,omitempty"`
	// Shrink > 0: while A is parked, UpdateTuningOptions lowers TransferSize to this many bytes (the server may then
	// write less than A asked for; what A's reply acknowledges is what has to be durable)
	Shrink int `json:"shrink,omitempty"`
}

func genC22x(t *rapid.T) c22xCase {
	w := func(l string) c22xW {
		return c22xW{Off: pick(t, l+"off", 0, 1, 100, 4096, 5000, rapid.IntRange(0, 9000).Draw(t, l+"roff")), Len: pick(t, l+"len", 1, 7, 100, 4096, 5000),
			Stable: pick(t, l+"stable", uint32(nfsx.Unstable), nfsx.DataSync, nfsx.FileSync, nfsx.FileSync)}
	}
	return c22xCase{Base: pick(t, "base", 0, 1, 4096, 10000), A: w("a"), B: w("b"), ParkAt: rapid.IntRange(1, 8).Draw(t, "park"), After: rapid.Bool().Draw(t, "after"), Commit: rapid.IntRange(0, 2).Draw(t, "commit") == 0, Async: rapid.IntRange(0, 3).Draw(t, "async") == 0, Rename: rapid.IntRange(0, 3).Draw(t, "rename") == 0,
		Shrink: pick(t, "shrink", 0, 0, 0, 1, 64, 4096)}
}

func runC22x(tb stat.TB, c c22xCase) {
	const id, check = "C22", "TestC22Overlap"
	v := vfs.New()
	v.CrashMode = true
	s := newSession(tb, v, absnfs.ExportOptions{AttrCacheTimeout: 1, AttrCacheSize: 2, Async: c.Async})
	defer s.close()
	const fillBase, fillA, fillB = 0x11, 0xAA, 0xBB
	mk := func(n int, b byte) []byte {
		d := make([]byte, n)
		for i := range d {
			d[i] = b
		}
		return d
	}
	var armed atomic.Bool
	var mu sync.Mutex
	seen := 0
	parked, gate := make(chan struct{}), make(chan struct{})
	var gateOnce sync.Once
	release := func() { gateOnce.Do(func() { close(gate) }) }
	defer release()
	hook := func(call *vfs.Call) {
		if !armed.Load() {
			return
		}
		mu.Lock()
		seen++
		hit := seen == c.ParkAt
		if hit {
			armed.Store(false)
		}
		mu.Unlock()
		if hit {
			close(parked)
			<-gate
		}
	}
	if c.After {
		v.SetAfter(hook)
	} else {
		v.SetBefore(hook)
	}
	var parkedOK bool
	var resA, resB *nfsx.Res
	aDone := make(chan struct{})
	aStarted := false
	bWaited := false
	abandoned := guard(func() {
		root := s.mount()
		cr := s.nfs(nfsx.ProcCreate, nfsx.ArgsCreate(root, "s0", nfsx.Unchecked, nfsx.Sattr{}, [8]byte{}))
		if cr.Status != nfsx.OK || len(cr.Fh) == 0 {
			tb.Fatalf("harness: create: %s", statusName(cr.Status))
		}
		fh := cr.Fh
		if c.Base > 0 {
			if r := s.nfs(nfsx.ProcWrite, nfsx.ArgsWrite(fh, 0, uint32(c.Base), nfsx.FileSync, mk(c.Base, fillBase))); r.Status != nfsx.OK || int(r.Count) != c.Base || r.Committed != nfsx.FileSync {
				stat.Discard(false)
				panic(abandon{"base write not acknowledged as FILE_SYNC"})
			}
		}
		armed.Store(true)
		aStarted = true
		go func() {
			defer close(aDone)
			defer func() { recover() }() // an abandon inside the goroutine: resA stays nil
			resA = s.nfs(nfsx.ProcWrite, nfsx.ArgsWrite(fh, uint64(c.A.Off), uint32(c.A.Len), c.A.Stable, mk(c.A.Len, fillA)))
		}()
		select {
		case <-parked:
			parkedOK = true
		case <-aDone:
		case <-time.After(10 * time.Second):
			release()
			tb.Fatalf("harness: WRITE A neither parked nor returned")
		}
		if c.Shrink > 0 && parkedOK {
			ud := make(chan struct{})
			go func() {
				defer close(ud)
				s.e.NFS.UpdateTuningOptions(func(t *absnfs.TuningOptions) { t.TransferSize = c.Shrink })
			}()
			select {
			case <-ud:
				stat.Label("transfer_size_lowered_under_parked_write", 1)
			case <-time.After(300 * time.Millisecond):
				// an implementation may make the update wait for requests in flight
				bWaited = true
				release()
				<-ud
			}
		}
		if c.Rename {
			// the namespace changes under the parked write
			rn := make(chan struct{})
			go func() {
				defer close(rn)
				defer func() { recover() }()
				s.nfs(nfsx.ProcRename, nfsx.ArgsRename(root, "s0", root, "s1"))
				s.nfs(nfsx.ProcCreate, nfsx.ArgsCreate(root, "s0", nfsx.Unchecked, nfsx.Sattr{}, [8]byte{}))
			}()
			select {
			case <-rn:
			case <-time.After(300 * time.Millisecond):
				bWaited = true
				release()
				<-rn
			}
			release()
			select {
			case <-aDone:
			case <-time.After(20 * time.Second):
				tb.Fatalf("harness: WRITE A did not return after release")
			}
			if resA == nil || resA.Status != nfsx.OK || resA.Committed != nfsx.FileSync || resA.Count == 0 {
				return
			}
			// whichever file holds A's bytes now (volatile view) must hold them in the durable image too
			found := false
			for _, p := range []string{"/s0", "/s1"} {
				vol, _, ok := v.PeekRead(p, int64(c.A.Off), int(resA.Count))
				if !ok || len(vol) < int(resA.Count) {
					continue
				}
				all := true
				for _, b := range vol {
					if b != fillA {
						all = false
					}
				}
				if !all {
					continue
				}
				found = true
				dur, dsize, dok := v.PeekDurable(p, int64(c.A.Off), int(resA.Count))
				okd := dok && len(dur) >= int(resA.Count)
				for i := 0; okd && i < int(resA.Count); i++ {
					okd = dur[i] == fillA
				}
				if !okd {
					stat.Violate(tb, id, check, "stable-data-lost-on-crash", c, "WRITE A (offset %d, %d bytes, committed=FILE_SYNC) was parked at its backend call #%d while the file was renamed to s1 and a new s0 created; its bytes are in %s, whose durable image is %d bytes long and does not hold them", c.A.Off, resA.Count, c.ParkAt, p, dsize)
					return
				}
			}
			if found {
				stat.Label("write_straddles_rename_judged", 1)
			}
			return
		}
		// B (and its COMMIT) run beside the parked A. An implementation may serialise the requests of one file: if B
		// has not returned after 300 ms, A is released and B is awaited after that.
		bStable := false
		bDone := make(chan struct{})
		go func() {
			defer close(bDone)
			defer func() { recover() }()
			r := s.nfs(nfsx.ProcWrite, nfsx.ArgsWrite(fh, uint64(c.B.Off), uint32(c.B.Len), c.B.Stable, mk(c.B.Len, fillB)))
			st := r.Status == nfsx.OK && r.Committed == nfsx.FileSync
			if c.Commit && r.Status == nfsx.OK {
				if cm := s.nfs(nfsx.ProcCommit, nfsx.ArgsCommit(fh, 0, 0)); cm.Status == nfsx.OK {
					st = true
				}
			}
			resB, bStable = r, st
		}()
		select {
		case <-bDone:
		case <-time.After(300 * time.Millisecond):
			bWaited = true
			release()
			select {
			case <-bDone:
			case <-time.After(40 * time.Second):
				tb.Fatalf("harness: WRITE B did not return after A was released")
			}
		}
		if resB == nil {
			stat.Discard(false)
			panic(abandon{"WRITE B abandoned"})
		}
		aLo, aHi := int64(c.A.Off), int64(c.A.Off+c.A.Len)
		bLo, bHi := int64(c.B.Off), int64(c.B.Off)+int64(resB.Count)
		examine := func(where string, aInFlight, aStable bool) bool {
			got, dsize, ok := v.PeekDurable("/s0", 0, 32768)
			if !ok {
				return !stat.Violate(tb, id, check, "promised-file-missing-after-crash", c, "%s: /s0 is not in the durable image", where)
			}
			at := func(p int64) (byte, bool) {
				if p < dsize && p < int64(len(got)) {
					return got[p], true
				}
				return 0, false
			}
			if bStable {
				for p := bLo; p < bHi; p++ {
					inA := p >= aLo && p < aHi
					b, present := at(p)
					if inA && (aInFlight || resA != nil && resA.Status == nfsx.OK) {
						// either request's byte is acceptable where they overlap (A may have been applied before or after B)
						if present && (b == fillB || b == fillA) {
							continue
						}
						if aInFlight {
							continue // a request in flight may also have left the byte short of both (size not yet extended)
						}
					}
					if !present || b != fillB {
						return !stat.Violate(tb, id, check, "stable-data-lost-on-crash", c, "%s: byte %d of /s0 was acknowledged as stable by WRITE B (committed=%d, COMMIT=%v) but the durable image holds %v (present=%v, durable size %d)", where, p, resB.Committed, c.Commit, b, present, dsize)
					}
				}
			}
			if aStable {
				for p := aLo; p < aLo+int64(resA.Count); p++ {
					b, present := at(p)
					if p >= bLo && p < bHi && resB.Status == nfsx.OK {
						if present && (b == fillA || b == fillB) {
							continue
						}
					}
					if !present || b != fillA {
						return !stat.Violate(tb, id, check, "stable-data-lost-on-crash", c, "%s: byte %d of /s0 was acknowledged as stable by WRITE A (committed=%d) but the durable image holds %v (present=%v, durable size %d)", where, p, resA.Committed, b, present, dsize)
					}
				}
			}
			// the base content outside both writes was acknowledged FILE_SYNC
			for p := int64(0); p < int64(c.Base); p++ {
				if p >= aLo && p < aHi || p >= int64(c.B.Off) && p < int64(c.B.Off+c.B.Len) {
					continue
				}
				if b, present := at(p); !present || b != fillBase {
					return !stat.Violate(tb, id, check, "stable-data-lost-on-crash", c, "%s: byte %d of the FILE_SYNC base content is %v (present=%v) in the durable image", where, p, b, present)
				}
			}
			return true
		}
		if !bWaited {
			if !examine("while WRITE A is parked at its backend call", parkedOK, false) {
				return
			}
		}
		release()
		select {
		case <-aDone:
		case <-time.After(20 * time.Second):
			tb.Fatalf("harness: WRITE A did not return after release")
		}
		aStable := resA != nil && resA.Status == nfsx.OK && resA.Committed == nfsx.FileSync
		if !examine("after both replies", false, aStable) {
			return
		}
		if resA != nil && resA.Status == nfsx.OK && resB.Status == nfsx.OK && resA.Verf != resB.Verf {
			stat.Violate(tb, id, check, "write-verifier-changes-within-instance", c, "WRITE A and WRITE B of one server instance carry verifiers %x and %x", resA.Verf, resB.Verf)
		}
	})
	release()
	if aStarted {
		<-aDone
	}
	if abandoned {
		return
	}
	ls := []string{fmt.Sprintf("a_parked_%v", parkedOK)}
	if bWaited {
		ls = append(ls, "b_waited_for_a")
	}
	stat.Case(c, parkedOK && resB != nil && resB.Status == nfsx.OK, ls...)
}

var propC22x = defProp("C22", "TestC22Overlap", genC22x, runC22x)

func TestC22Overlap(t *testing.T) { propC22x.Test(t) }
