package checks

// C06 with requests that overlap in time: "no later request using that value is served against a different path".
// Two to six clients each own a few files (distinct sizes and contents) and keep sending GETATTR / READ / ACCESS /
// LOOKUP-in-own-directory through the handles they were given, all at once, directly or over connections of their
// own. Every reply must be about the object the handle was issued for: its fileid, its size, its bytes. Runs under
// the race detector.

import (
	"fmt"
	"sync"
	"testing"

	"github.com/absfs/absnfs"
	"pgregory.net/rapid"

	"verif/harness/drv"
	"verif/harness/nfsx"
	"verif/harness/stat"
	"verif/harness/vfs"
)

type c06rCase struct {
	Clients int  `json:"clients"`
	Files   int  `json:"files"`  // per client
	Rounds  int  `json:"rounds"` // requests per client and file
	Conn    bool `json:"conn,omitempty"`
}

func genC06r(t *rapid.T) c06rCase {
	return c06rCase{Clients: rapid.IntRange(2, 6).Draw(t, "clients"), Files: rapid.IntRange(1, 3).Draw(t, "files"), Rounds: rapid.IntRange(5, 60).Draw(t, "rounds"), Conn: rapid.Bool().Draw(t, "conn")}
}

func runC06r(tb stat.TB, c c06rCase) {
	const id, check = "C06", "TestC06Requests"
	v := vfs.New()
	type obj struct {
		path string
		fill byte
		size int
		fh   []byte
		id   uint64
	}
	var objs [][]*obj
	for g := 0; g < c.Clients; g++ {
		var mine []*obj
		for k := 0; k < c.Files; k++ {
			o := &obj{path: fmt.Sprintf("/c%dk%d", g, k), fill: byte(1 + g*16 + k), size: 64 + g*8 + k}
			d := make([]byte, o.size)
			for i := range d {
				d[i] = o.fill
			}
			v.SeedFile(o.path, 0644, 0, 0, d)
			mine = append(mine, o)
		}
		objs = append(objs, mine)
	}
	s := newSession(tb, v, absnfs.ExportOptions{AttrCacheTimeout: 1, AttrCacheSize: 4, MaxWorkers: 4})
	defer s.close()
	s.e.ViaConn = c.Conn
	var setupOK bool
	if guard(func() {
		root := s.mount()
		for _, mine := range objs {
			for _, o := range mine {
				r := s.nfs(nfsx.ProcLookup, nfsx.ArgsDirop(root, o.path[1:]))
				if r.Status != nfsx.OK || r.Attr == nil {
					tb.Fatalf("harness: lookup %s: %s", o.path, statusName(r.Status))
				}
				o.fh, o.id = r.Fh, r.Attr.Fileid
			}
		}
		setupOK = true
	}) || !setupOK {
		return
	}
	var mu sync.Mutex
	var bad []string
	note := func(f string, a ...any) {
		mu.Lock()
		if len(bad) < 4 {
			bad = append(bad, fmt.Sprintf(f, a...))
		}
		mu.Unlock()
	}
	var wg sync.WaitGroup
	start := make(chan struct{})
	for g, mine := range objs {
		wg.Add(1)
		go func(g int, mine []*obj) {
			defer wg.Done()
			cl := drv.Client{IP: "127.0.0.1", Port: 600 + g, Cred: drv.Root().Cred}
			<-start
			for r := 0; r < c.Rounds; r++ {
				for _, o := range mine {
					switch r % 2 {
					case 0:
						res, err := s.e.NFS3(cl, nfsx.ProcGetattr, nfsx.ArgsFh(o.fh))
						if err != nil || res.Status != nfsx.OK || res.Attr == nil {
							continue
						}
						if res.Attr.Fileid != o.id || res.Attr.Size != uint64(o.size) {
							note("GETATTR through the handle issued for %s (fileid %d, %d bytes) describes fileid %d, %d bytes", o.path, o.id, o.size, res.Attr.Fileid, res.Attr.Size)
						}
					case 1:
						res, err := s.e.NFS3(cl, nfsx.ProcRead, nfsx.ArgsRead(o.fh, 0, 4096))
						if err != nil || res.Status != nfsx.OK {
							continue
						}
						okd := len(res.Data) == o.size
						for _, b := range res.Data {
							if b != o.fill {
								okd = false
							}
						}
						if !okd {
							first := byte(0)
							if len(res.Data) > 0 {
								first = res.Data[0]
							}
							note("READ through the handle issued for %s (%d bytes of %#x) returned %d bytes starting with %#x", o.path, o.size, o.fill, len(res.Data), first)
						}
					}
				}
			}
		}(g, mine)
	}
	close(start)
	wg.Wait()
	if len(bad) > 0 {
		stat.Violate(tb, id, check, "handle-served-against-other-object", c, "%d clients using their own handles at once: %s", c.Clients, bad[0])
		return
	}
	var ls []string
	if c.Conn {
		ls = append(ls, "over_connection_loop")
	}
	stat.Case(c, true, ls...)
}

var propC06r = defProp("C06", "TestC06Requests", genC06r, runC06r)

func TestC06Requests(t *testing.T) { propC06r.Test(t) }
