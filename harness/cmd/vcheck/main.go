// vcheck is the driver of the /verif property checks.
//
//	vcheck setup                    build everything once (warms the Go build cache)
//	vcheck run <ID> quick|thorough  decide one property; exit 0 held / 1 violation / 2 inconclusive
//	vcheck replay <path>            re-execute one saved case through the same oracle
//	vcheck list                     list the registered checks
package main

import (
	"bytes"
	"encoding/binary"
	"encoding/json"
	"fmt"
	"go/ast"
	"go/format"
	"go/parser"
	"go/token"
	"hash/fnv"
	"os"
	"os/exec"
	"path/filepath"
	"sort"
	"strconv"
	"strings"
	"sync"
	"syscall"
	"time"
)

var root = func() string {
	if v := os.Getenv("VERIF_ROOT"); v != "" {
		return v
	}
	return "/verif"
}()

// repo is the tree under test. VERIF_ALT_REPO (sensitivity experiments only:
// a scratch worktree with a seeded change) redirects the build there and the
// evidence to build/alt-evidence, so that /repo and /verif/evidence stay untouched.
var repo = "/repo"

func altRepo() bool { return repo != "/repo" }

func init() {
	if a := os.Getenv("VERIF_ALT_REPO"); a != "" {
		repo = a
	}
}

func evidenceDir() string {
	if altRepo() {
		return filepath.Join(buildDir(), "alt-evidence")
	}
	return filepath.Join(root, "evidence")
}

func harness() string  { return filepath.Join(root, "harness") }
func buildDir() string { return filepath.Join(root, "build") }

func goEnv() []string {
	env := os.Environ()
	env = append(env, "GOFLAGS=-mod=mod", "GOPROXY=off", "GOSUMDB=off", "GOTOOLCHAIN=local", "VERIF_ROOT="+root)
	return env
}

func die2(format string, a ...any) {
	fmt.Printf("INCONCLUSIVE: "+format+"\n", a...)
	os.Exit(2)
}

// ---------------------------------------------------------------- clock rewrite

// rewriteClock parses a repo source file and redirects time.Now/time.Since to
// the virtual clock hook in the shim. It refuses files using other clock APIs.
func rewriteClock(src, dst string) error {
	fset := token.NewFileSet()
	f, err := parser.ParseFile(fset, src, nil, parser.ParseComments)
	if err != nil {
		return err
	}
	var bad []string
	ast.Inspect(f, func(n ast.Node) bool {
		call, ok := n.(*ast.CallExpr)
		if !ok {
			return true
		}
		sel, ok := call.Fun.(*ast.SelectorExpr)
		if !ok {
			return true
		}
		id, ok := sel.X.(*ast.Ident)
		if !ok || id.Name != "time" {
			return true
		}
		switch sel.Sel.Name {
		case "Now":
			call.Fun = ast.NewIdent("verifNow")
		case "Since":
			// time.Since(x) -> verifNow().Sub(x)
			inner := &ast.CallExpr{Fun: ast.NewIdent("verifNow")}
			call.Fun = &ast.SelectorExpr{X: inner, Sel: ast.NewIdent("Sub")}
		case "After", "NewTimer", "Sleep", "Tick", "NewTicker", "AfterFunc", "Until":
			bad = append(bad, sel.Sel.Name)
		}
		return true
	})
	if len(bad) > 0 {
		return fmt.Errorf("%s uses clock APIs the virtual clock cannot redirect: %v", src, bad)
	}
	var buf bytes.Buffer
	if err := format.Node(&buf, fset, f); err != nil {
		return err
	}
	return os.WriteFile(dst, buf.Bytes(), 0644)
}

// ---------------------------------------------------------------- build

func writeOverlay(variant string) (string, error) {
	if err := os.MkdirAll(buildDir(), 0755); err != nil {
		return "", err
	}
	repl := map[string]string{filepath.Join(repo, "zz_verif_export.go"): filepath.Join(harness(), "shim", "export_verif.go")}
	if variant == "clock" {
		cdir := filepath.Join(buildDir(), fmt.Sprintf("clock.%d", os.Getpid()))
		os.MkdirAll(cdir, 0755)
		for _, name := range []string{"rate_limiter.go", "cache.go"} {
			dst := filepath.Join(cdir, name)
			if err := rewriteClock(filepath.Join(repo, name), dst); err != nil {
				return "", err
			}
			repl[filepath.Join(repo, name)] = dst
		}
	}
	b, _ := json.Marshal(map[string]any{"Replace": repl})
	p := filepath.Join(buildDir(), fmt.Sprintf("overlay.%s.%d.json", variant, os.Getpid()))
	return p, os.WriteFile(p, b, 0644)
}

var cleanup []string

func doCleanup() {
	for _, p := range cleanup {
		os.RemoveAll(p)
	}
}

func buildVariant(variant string) (string, error) {
	ov, err := writeOverlay(variant)
	if err != nil {
		return "", err
	}
	cleanup = append(cleanup, ov, filepath.Join(buildDir(), fmt.Sprintf("clock.%d", os.Getpid())))
	os.MkdirAll(filepath.Join(buildDir(), "bin"), 0755)
	out := filepath.Join(buildDir(), "bin", fmt.Sprintf("checks.%s.%d.test", variant, os.Getpid()))
	args := []string{"test", "-c", "-o", out, "-tags", "verif", "-vet=off", "-overlay", ov}
	if altRepo() {
		// a private go.mod whose replace directive points at the alternative tree
		mod, err := os.ReadFile(filepath.Join(harness(), "go.mod"))
		if err != nil {
			return "", err
		}
		mf := filepath.Join(buildDir(), fmt.Sprintf("alt.%d.mod", os.Getpid()))
		if err := os.WriteFile(mf, []byte(strings.Replace(string(mod), "=> /repo", "=> "+repo, 1)), 0644); err != nil {
			return "", err
		}
		sum, _ := os.ReadFile(filepath.Join(harness(), "go.sum"))
		os.WriteFile(strings.TrimSuffix(mf, ".mod")+".sum", sum, 0644)
		cleanup = append(cleanup, mf, strings.TrimSuffix(mf, ".mod")+".sum")
		args = append(args, "-modfile", mf)
	}
	if variant == "race" {
		args = append(args, "-race")
	}
	args = append(args, "./checks/")
	cmd := exec.Command("go", args...)
	cmd.Dir = harness()
	cmd.Env = goEnv()
	o, err := cmd.CombinedOutput()
	if err != nil {
		return "", fmt.Errorf("go %s: %v\n%s", strings.Join(args, " "), err, o)
	}
	cleanup = append(cleanup, out)
	return out, nil
}

// ---------------------------------------------------------------- shard stats (mirror of stat.Stats)

type violation struct {
	Property  string          `json:"property_id"`
	Check     string          `json:"check"`
	Signature string          `json:"signature"`
	Message   string          `json:"message"`
	Case      json.RawMessage `json:"case"`
}

type shardStats struct {
	Evaluations   int64                      `json:"evaluations"`
	Nontrivial    int64                      `json:"nontrivial"`
	Distinct      int64                      `json:"distinct_nontrivial"`
	Disjoint      bool                       `json:"disjoint_shards"`
	Labels        map[string]int64           `json:"labels"`
	Samples       []json.RawMessage          `json:"samples"`
	ExcludedKnown map[string]int64           `json:"excluded_known"`
	KnownSeen     map[string]string          `json:"known_seen"`
	Violations    []violation                `json:"violations"`
	Discarded     int64                      `json:"discarded"`
	Malformed     int64                      `json:"discarded_malformed"`
	Extra         map[string]json.RawMessage `json:"extra"`
	Exhaustive    bool                       `json:"exhaustive"`
	Inconclusive  []string                   `json:"inconclusive"`
}

type knownFinding struct {
	Status    string `json:"status"`
	Property  string `json:"property"`
	Signature string `json:"signature"`
	What      string `json:"what"`
	Where     string `json:"where,omitempty"`
	Commit    string `json:"commit,omitempty"`
}

func loadKnown() []knownFinding {
	b, err := os.ReadFile(filepath.Join(root, "known_findings.json"))
	if err != nil {
		return nil
	}
	var l []knownFinding
	json.Unmarshal(b, &l)
	return l
}

// ---------------------------------------------------------------- running shards

type shardResult struct {
	phase    string
	idx      int
	exit     int
	timedOut bool
	oom      bool
	logPath  string
	stats    *shardStats
	hashes   []uint64
	args     []string
	env      []string
	bin      string
	dir      string
}

func rssKB(pid int) int64 {
	b, err := os.ReadFile(fmt.Sprintf("/proc/%d/status", pid))
	if err != nil {
		return 0
	}
	for _, l := range strings.Split(string(b), "\n") {
		if strings.HasPrefix(l, "VmRSS:") {
			f := strings.Fields(l)
			if len(f) >= 2 {
				v, _ := strconv.ParseInt(f[1], 10, 64)
				return v
			}
		}
	}
	return 0
}

func runProc(bin, dir string, args, env []string, logPath string, limit time.Duration) (exit int, timedOut, oom bool) {
	lf, err := os.Create(logPath)
	if err != nil {
		return 2, false, false
	}
	defer lf.Close()
	cmd := exec.Command(bin, args...)
	cmd.Dir = dir
	cmd.Env = env
	cmd.Stdout = lf
	cmd.Stderr = lf
	cmd.SysProcAttr = &syscall.SysProcAttr{Setpgid: true}
	if err := cmd.Start(); err != nil {
		fmt.Fprintf(lf, "start: %v\n", err)
		return 2, false, false
	}
	done := make(chan error, 1)
	go func() { done <- cmd.Wait() }()
	deadline := time.After(limit)
	tick := time.NewTicker(500 * time.Millisecond)
	defer tick.Stop()
	for {
		select {
		case err := <-done:
			if err == nil {
				return 0, false, false
			}
			if ee, ok := err.(*exec.ExitError); ok {
				return ee.ExitCode(), false, false
			}
			return 2, false, false
		case <-deadline:
			syscall.Kill(-cmd.Process.Pid, syscall.SIGKILL)
			<-done
			return -1, true, false
		case <-tick.C:
			if rssKB(cmd.Process.Pid) > 8<<20 {
				syscall.Kill(-cmd.Process.Pid, syscall.SIGKILL)
				<-done
				return -1, false, true
			}
		}
	}
}

func readStats(p string) (*shardStats, []uint64) {
	b, err := os.ReadFile(p)
	if err != nil {
		return nil, nil
	}
	var s shardStats
	if json.Unmarshal(b, &s) != nil {
		return nil, nil
	}
	var hs []uint64
	if hb, err := os.ReadFile(p + ".hashes"); err == nil {
		hs = make([]uint64, len(hb)/8)
		for i := range hs {
			hs[i] = binary.LittleEndian.Uint64(hb[8*i:])
		}
	}
	return &s, hs
}

// ---------------------------------------------------------------- evidence

type evidence struct {
	Property    string         `json:"property_id"`
	Tier        string         `json:"tier"`
	Seed        int64          `json:"seed"`
	Level       string         `json:"level"`
	Coverage    map[string]any `json:"coverage"`
	Assumptions []string       `json:"assumptions"`
	WallS       float64        `json:"wall_s"`
	Violations  int            `json:"violations"`
}

func tailFile(p string, n int) string {
	b, err := os.ReadFile(p)
	if err != nil {
		return ""
	}
	lines := strings.Split(string(b), "\n")
	if len(lines) > n {
		lines = lines[len(lines)-n:]
	}
	return strings.Join(lines, "\n")
}

func fileContains(p string, subs ...string) bool {
	b, err := os.ReadFile(p)
	if err != nil {
		return false
	}
	for _, s := range subs {
		if bytes.Contains(b, []byte(s)) {
			return true
		}
	}
	return false
}

// rapidPanicInAbsnfs reports whether rapid recovered a panic whose innermost non-runtime frame is absnfs code
// (a panic raised by the code under test while the check was calling it; a panic in harness code is not).
func rapidPanicInAbsnfs(logPath string) bool {
	b, err := os.ReadFile(logPath)
	if err != nil {
		return false
	}
	i := bytes.Index(b, []byte("[rapid] panic"))
	if i < 0 {
		return false
	}
	// the traceback starts where the panic was last re-raised (deferred recover/re-panic helpers of the harness);
	// the origin is the first non-runtime frame below runtime.gopanic
	seenGopanic := false
	for _, line := range strings.Split(string(b[i:]), "\n") {
		j := strings.Index(line, " in ")
		if j < 0 {
			continue
		}
		fn := strings.TrimSpace(line[j+4:])
		if strings.HasPrefix(fn, "runtime.") || strings.HasPrefix(fn, "runtime/") {
			if strings.HasPrefix(fn, "runtime.gopanic") {
				seenGopanic = true
			}
			continue
		}
		if !seenGopanic {
			continue
		}
		return strings.HasPrefix(fn, "github.com/absfs/absnfs.")
	}
	return false
}

func sigHash(s string) string {
	h := fnv.New64a()
	h.Write([]byte(s))
	return fmt.Sprintf("%016x", h.Sum64())
}

func runCheck(id, tier string) int {
	cfg, ok := checks[id]
	if !ok {
		die2("unknown check %q", id)
	}
	if tier != "quick" && tier != "thorough" {
		die2("tier must be quick or thorough")
	}
	seed := int64(1)
	if v := os.Getenv("VERIF_SEED"); v != "" {
		if n, err := strconv.ParseInt(v, 10, 64); err == nil {
			seed = n
		}
	}
	start := time.Now()
	defer doCleanup()

	// Development knob (sensitivity experiments against VERIF_ALT_REPO only, where the evidence goes to
	// build/alt-evidence): run a single phase of the check.
	if only := os.Getenv("VERIF_ONLY_PHASE"); only != "" && altRepo() {
		var keep []phase
		for _, ph := range cfg.Phases {
			if ph.Name == only {
				keep = append(keep, ph)
			}
		}
		cfg.Phases = keep
	}

	bins := map[string]string{}
	for _, ph := range cfg.Phases {
		if ph.ThoroughOnly && tier != "thorough" {
			continue
		}
		if _, ok := bins[ph.Variant]; ok {
			continue
		}
		b, err := buildVariant(ph.Variant)
		if err != nil {
			fmt.Println(err)
			doCleanup()
			die2("build failed for variant %s (does /repo still compile with the verif shim?)", ph.Variant)
		}
		bins[ph.Variant] = b
	}

	runDir := filepath.Join(buildDir(), "run", fmt.Sprintf("%s.%d", id, os.Getpid()))
	os.RemoveAll(runDir)
	os.MkdirAll(runDir, 0755)
	logDir := filepath.Join(buildDir(), "logs")
	os.MkdirAll(logDir, 0755)

	wallLimit := 12 * time.Minute
	if tier == "thorough" {
		wallLimit = 50 * time.Minute
	}

	var results []*shardResult
	var phaseNames []string
	var phaseMu sync.Mutex
	runPhase := func(pi int, ph phase) []*shardResult {
		shards, nchecks := ph.QuickShards, ph.QuickChecks
		if tier == "thorough" {
			shards, nchecks = ph.ThoroughShards, ph.ThoroughChecks
		}
		if shards <= 0 {
			shards = 1
		}
		phaseMu.Lock()
		phaseNames = append(phaseNames, ph.Name)
		phaseMu.Unlock()
		remaining := wallLimit - time.Since(start)
		if remaining < 10*time.Second {
			doCleanup()
			die2("wall-clock budget exhausted before phase %s", ph.Name)
		}
		var wg sync.WaitGroup
		res := make([]*shardResult, shards)
		for i := 0; i < shards; i++ {
			statsPath := filepath.Join(runDir, fmt.Sprintf("stats.%d.%d.json", pi, i))
			logPath := filepath.Join(logDir, fmt.Sprintf("%s.%s.%d.log", id, ph.Name, i))
			rseed := uint64(1 + 1000*seed + int64(100*pi) + int64(i))
			args := []string{"-test.run", ph.Tests, "-test.timeout", "0", "-test.count", "1"}
			if ph.Fuzz != "" {
				secs := ph.FuzzSeconds
				fdir := filepath.Join(runDir, fmt.Sprintf("fuzz.%d", pi))
				os.MkdirAll(filepath.Join(fdir, "testdata"), 0755)
				exec.Command("cp", "-r", filepath.Join(harness(), "checks", "testdata", "fuzz"), filepath.Join(fdir, "testdata")).Run()
				args = []string{"-test.run", "^$", "-test.fuzz", ph.Fuzz, "-test.fuzztime", fmt.Sprintf("%ds", secs),
					"-test.fuzzcachedir", filepath.Join(fdir, "cache"), "-test.timeout", "0"}
			} else if nchecks > 0 {
				args = append(args, fmt.Sprintf("-rapid.checks=%d", nchecks), fmt.Sprintf("-rapid.seed=%d", rseed), "-rapid.nofailfile")
				if tier == "quick" {
					args = append(args, "-rapid.shrinktime=15s")
				}
			}
			env := append(goEnv(),
				"VERIF_STATS="+statsPath, fmt.Sprintf("VERIF_SHARD=%d", i), fmt.Sprintf("VERIF_NSHARDS=%d", shards),
				"VERIF_TIER="+tier, fmt.Sprintf("VERIF_SEED=%d", seed), "VERIF_KNOWN="+filepath.Join(root, "known_findings.json"),
				"GOMEMLIMIT=3GiB")
			dir := filepath.Join(harness(), "checks")
			if ph.Fuzz != "" {
				dir = filepath.Join(runDir, fmt.Sprintf("fuzz.%d", pi))
			}
			r := &shardResult{phase: ph.Name, idx: i, logPath: logPath, args: args, env: env, bin: bins[ph.Variant], dir: dir}
			res[i] = r
			wg.Add(1)
			go func(r *shardResult, statsPath string) {
				defer wg.Done()
				r.exit, r.timedOut, r.oom = runProc(r.bin, r.dir, r.args, r.env, r.logPath, remaining)
				r.stats, r.hashes = readStats(statsPath)
			}(r, statsPath)
		}
		wg.Wait()
		return res
	}
	// background phases (long waits, little CPU) run alongside the sequential ones
	var bgWG sync.WaitGroup
	var bgResults []*shardResult
	for pi, ph := range cfg.Phases {
		if !ph.Background || (ph.ThoroughOnly && tier != "thorough") {
			continue
		}
		bgWG.Add(1)
		go func(pi int, ph phase) {
			defer bgWG.Done()
			res := runPhase(pi, ph)
			phaseMu.Lock()
			bgResults = append(bgResults, res...)
			phaseMu.Unlock()
		}(pi, ph)
	}
	for pi, ph := range cfg.Phases {
		if ph.Background || (ph.ThoroughOnly && tier != "thorough") {
			continue
		}
		res := runPhase(pi, ph)
		results = append(results, res...)
		// stop at the first phase with a failure: later phases add nothing to the verdict
		failed := false
		for _, r := range res {
			if r.exit != 0 {
				failed = true
			}
		}
		if failed {
			break
		}
	}
	bgWG.Wait()
	results = append(results, bgResults...)

	// ------------------------------------------------------------ merge
	known := loadKnown()
	knownSet := map[string]knownFinding{}
	for _, k := range known {
		if k.Property == id && k.Status == "known" {
			knownSet[k.Signature] = k
		}
	}
	agg := shardStats{Labels: map[string]int64{}, ExcludedKnown: map[string]int64{}, KnownSeen: map[string]string{}, Extra: map[string]json.RawMessage{}}
	union := map[uint64]struct{}{}
	var disjointSum int64
	var viols []violation
	infra := []string{}
	exhaustive := true
	anyStats := false
	for _, r := range results {
		if r.timedOut {
			infra = append(infra, fmt.Sprintf("phase %s shard %d: wall-clock budget hit (log %s)", r.phase, r.idx, r.logPath))
			continue
		}
		if r.oom {
			infra = append(infra, fmt.Sprintf("phase %s shard %d: RSS above 8 GiB, killed (log %s)", r.phase, r.idx, r.logPath))
			continue
		}
		s := r.stats
		if s != nil {
			anyStats = true
			agg.Evaluations += s.Evaluations
			agg.Nontrivial += s.Nontrivial
			agg.Discarded += s.Discarded
			agg.Malformed += s.Malformed
			for k, v := range s.Labels {
				agg.Labels[k] += v
			}
			for k, v := range s.ExcludedKnown {
				agg.ExcludedKnown[k] += v
			}
			for k, v := range s.KnownSeen {
				agg.KnownSeen[k] = v
			}
			for k, v := range s.Extra {
				agg.Extra[r.phase+"."+k] = v
			}
			if len(agg.Samples) < 8 {
				agg.Samples = append(agg.Samples, s.Samples...)
			}
			agg.Inconclusive = append(agg.Inconclusive, s.Inconclusive...)
			if s.Disjoint {
				disjointSum += s.Distinct
			} else {
				exhaustive = false
				for _, h := range r.hashes {
					union[h] = struct{}{}
				}
			}
			if !s.Exhaustive {
				exhaustive = false
			}
			viols = append(viols, s.Violations...)
		}
		if r.exit != 0 && (s == nil || len(s.Violations) == 0) {
			// The process failed without an oracle verdict: crash or harness failure.
			if (fileContains(r.logPath, "panic:", "fatal error:", "WARNING: DATA RACE") && fileContains(r.logPath, "github.com/absfs/absnfs.")) || rapidPanicInAbsnfs(r.logPath) {
				sig := "process-crash"
				if rapidPanicInAbsnfs(r.logPath) {
					sig = "panic-in-absnfs"
				}
				if fileContains(r.logPath, "WARNING: DATA RACE") {
					sig = "data-race"
				}
				// recover the input with a crash-logging re-run of the same shard
				crash := filepath.Join(runDir, fmt.Sprintf("crash.%s.%d.json", r.phase, r.idx))
				env2 := append(append([]string{}, r.env...), "VERIF_CRASHLOG="+crash)
				runProc(r.bin, r.dir, r.args, env2, r.logPath+".rerun", 5*time.Minute)
				cb, _ := os.ReadFile(crash)
				if len(cb) == 0 {
					cb = []byte("null")
				}
				check := ""
				if s != nil && len(s.Violations) > 0 {
					check = s.Violations[0].Check
				}
				viols = append(viols, violation{Property: id, Check: check, Signature: sig,
					Message: "test process died while executing absnfs code:\n" + tailFile(r.logPath, 40), Case: cb})
			} else {
				infra = append(infra, fmt.Sprintf("phase %s shard %d exited %d without an oracle verdict (log %s):\n%s", r.phase, r.idx, r.exit, r.logPath, tailFile(r.logPath, 25)))
			}
		}
	}
	if len(cfg.Phases) == 0 || !anyStats {
		exhaustive = false
	}
	distinct := int64(len(union)) + disjointSum
	if len(agg.Samples) > 8 {
		agg.Samples = agg.Samples[:8]
	}

	// ------------------------------------------------------------ classify violations
	exit := 0
	seenSig := map[string]bool{}
	var lines []string
	nviol := 0
	for _, v := range viols {
		if _, isKnown := knownSet[v.Signature]; isKnown {
			agg.KnownSeen[v.Signature] = v.Message
			continue
		}
		nviol++
		if seenSig[v.Signature] {
			continue
		}
		seenSig[v.Signature] = true
		rdir := filepath.Join(buildDir(), "replays", id)
		os.MkdirAll(rdir, 0755)
		rp := filepath.Join(rdir, fmt.Sprintf("%s-%s.json", sanitize(v.Signature), sigHash(string(v.Case))))
		rb, _ := json.MarshalIndent(map[string]any{"property_id": id, "check": v.Check, "signature": v.Signature, "message": v.Message,
			"seed": seed, "tier": tier, "case": v.Case}, "", " ")
		os.WriteFile(rp, rb, 0644)
		lines = append(lines, fmt.Sprintf("VIOLATION property=%s replay=%s", id, rp))
		fmt.Printf("--- %s signature=%s\n%s\n", id, v.Signature, v.Message)
		exit = 1
	}
	sigs := make([]string, 0, len(knownSet))
	for s := range knownSet {
		sigs = append(sigs, s)
	}
	sort.Strings(sigs)
	for _, s := range sigs {
		if _, seen := agg.KnownSeen[s]; seen {
			fmt.Printf("KNOWN-FINDING: property=%s %s: %s\n", id, s, knownSet[s].What)
		} else if exit == 0 && len(infra) == 0 {
			fmt.Printf("NOTE: listed known finding %q of %s was not reproduced by this run\n", s, id)
		}
	}

	// ------------------------------------------------------------ evidence
	cov := map[string]any{
		"evaluations":         agg.Evaluations,
		"distinct_nontrivial": distinct,
		"nontrivial":          agg.Nontrivial,
		"rule":                cfg.Rule,
		"samples":             agg.Samples,
		"labels":              agg.Labels,
		"phases":              phaseNames,
		"shards":              len(results),
		"discarded":           agg.Discarded,
		"discarded_malformed": agg.Malformed,
		"excluded_known":      agg.ExcludedKnown,
		"exhaustive":          exhaustive && cfg.CanBeExhaustive,
		"technique":           cfg.Technique,
	}
	if len(agg.Extra) > 0 {
		cov["extra"] = agg.Extra
	}
	fuzz := map[string]any{}
	for _, r := range results {
		if !strings.HasPrefix(r.phase, "fuzz") {
			continue
		}
		if b, err := os.ReadFile(r.logPath); err == nil {
			var execs, interesting int64
			for _, l := range strings.Split(string(b), "\n") {
				if i := strings.Index(l, "execs: "); i >= 0 {
					fmt.Sscanf(l[i:], "execs: %d", &execs)
				}
				if i := strings.Index(l, "new interesting: "); i >= 0 {
					fmt.Sscanf(l[i:], "new interesting: %d", &interesting)
				}
			}
			fuzz[r.phase] = map[string]int64{"execs": execs, "new_interesting": interesting}
		}
	}
	if len(fuzz) > 0 {
		cov["native_fuzz"] = fuzz
	}
	if len(agg.Inconclusive) > 0 {
		cov["inconclusive_parts"] = agg.Inconclusive
	}
	if len(agg.Samples) == 0 {
		cov["samples"] = []any{}
	}
	ev := evidence{Property: id, Tier: tier, Seed: seed, Level: cfg.Level, Coverage: cov, Assumptions: cfg.Assumptions,
		WallS: time.Since(start).Seconds(), Violations: nviol}
	eb, _ := json.MarshalIndent(ev, "", " ")
	os.MkdirAll(evidenceDir(), 0755)
	os.WriteFile(filepath.Join(evidenceDir(), id+".json"), eb, 0644)

	for _, l := range lines {
		fmt.Println(l)
	}
	if exit == 1 {
		os.RemoveAll(runDir)
		return 1
	}
	if len(infra) > 0 {
		for _, m := range infra {
			fmt.Println("INCONCLUSIVE:", m)
		}
		return 2
	}
	if distinct < 2 || agg.Evaluations < 1 {
		fmt.Printf("INCONCLUSIVE: generator starved: evaluations=%d distinct_nontrivial=%d\n", agg.Evaluations, distinct)
		return 2
	}
	os.RemoveAll(runDir)
	fmt.Printf("OK property=%s tier=%s seed=%d evaluations=%d distinct_nontrivial=%d excluded_known=%v wall=%.1fs\n",
		id, tier, seed, agg.Evaluations, distinct, agg.ExcludedKnown, time.Since(start).Seconds())
	return 0
}

func sanitize(s string) string {
	var b strings.Builder
	for _, r := range s {
		if r >= 'a' && r <= 'z' || r >= 'A' && r <= 'Z' || r >= '0' && r <= '9' || r == '-' || r == '_' {
			b.WriteRune(r)
		} else {
			b.WriteRune('_')
		}
	}
	if b.Len() > 60 {
		return b.String()[:60]
	}
	return b.String()
}

func replay(path string) int {
	defer doCleanup()
	b, err := os.ReadFile(path)
	if err != nil {
		die2("%v", err)
	}
	var rf struct {
		Property string `json:"property_id"`
		Check    string `json:"check"`
	}
	if err := json.Unmarshal(b, &rf); err != nil {
		die2("%v", err)
	}
	cfg, ok := checks[rf.Property]
	if !ok {
		die2("unknown property %q in replay", rf.Property)
	}
	variant := "plain"
	for _, ph := range cfg.Phases {
		if ph.ReplayVariant {
			variant = ph.Variant
		}
	}
	if variant == "plain" && len(cfg.Phases) > 0 {
		variant = cfg.Phases[0].Variant
	}
	bin, err := buildVariant(variant)
	if err != nil {
		fmt.Println(err)
		die2("build failed")
	}
	abs, _ := filepath.Abs(path)
	statsPath := filepath.Join(buildDir(), fmt.Sprintf("replay.%d.json", os.Getpid()))
	cleanup = append(cleanup, statsPath, statsPath+".hashes")
	cmd := exec.Command(bin, "-test.run", "^TestReplayOne$", "-test.v", "-test.timeout", "10m")
	cmd.Dir = filepath.Join(harness(), "checks")
	cmd.Env = append(goEnv(), "VERIF_REPLAY="+abs, "VERIF_STATS="+statsPath, "VERIF_KNOWN="+filepath.Join(root, "known_findings.json"))
	cmd.Stdout = os.Stdout
	cmd.Stderr = os.Stderr
	err = cmd.Run()
	st, _ := readStats(statsPath)
	if st != nil && len(st.Violations) > 0 {
		fmt.Printf("VIOLATION property=%s replay=%s\n", rf.Property, abs)
		return 1
	}
	if err != nil {
		fmt.Println("INCONCLUSIVE: replay process failed without an oracle verdict")
		return 2
	}
	if st != nil && len(st.KnownSeen) > 0 {
		for s := range st.KnownSeen {
			fmt.Printf("KNOWN-FINDING: property=%s %s\n", rf.Property, s)
		}
	}
	return 0
}

func setup() int {
	defer doCleanup()
	for _, v := range []string{"plain", "clock", "race"} {
		if _, err := buildVariant(v); err != nil {
			fmt.Println(err)
			return 2
		}
		fmt.Println("built variant", v)
	}
	return 0
}

func main() {
	if len(os.Args) < 2 {
		fmt.Println("usage: vcheck setup | run <ID> quick|thorough | replay <path> | list")
		os.Exit(2)
	}
	switch os.Args[1] {
	case "setup":
		os.Exit(setup())
	case "run":
		if len(os.Args) < 4 {
			die2("usage: vcheck run <ID> quick|thorough")
		}
		os.Exit(runCheck(os.Args[2], os.Args[3]))
	case "replay":
		if len(os.Args) < 3 {
			die2("usage: vcheck replay <path>")
		}
		os.Exit(replay(os.Args[2]))
	case "manifest":
		os.Exit(writeManifest())
	case "selftest":
		os.Exit(selftest())
	case "list":
		ids := make([]string, 0, len(checks))
		for id := range checks {
			ids = append(ids, id)
		}
		sort.Strings(ids)
		for _, id := range ids {
			fmt.Println(id, checks[id].Technique)
		}
	default:
		die2("unknown command %q", os.Args[1])
	}
}

// writeManifest regenerates /verif/MANIFEST.json from the check table so that the
// registered commands can never drift from what the driver knows.
func writeManifest() int {
	ids := make([]string, 0, len(checks))
	for id := range checks {
		ids = append(ids, id)
	}
	sort.Strings(ids)
	var list []map[string]any
	for _, id := range ids {
		c := checks[id]
		text := c.LevelText
		if text == "" {
			text = "generated-input search against an explicit oracle; says the property held on every generated case, not that it holds universally"
		}
		list = append(list, map[string]any{
			"property_id":         id,
			"quick_cmd":           "./vcheck run " + id + " quick",
			"thorough_cmd":        "./vcheck run " + id + " thorough",
			"evidence_file":       "/verif/evidence/" + id + ".json",
			"replay_cmd_template": "./vcheck replay {path}",
			"engine":              "vcheck",
			"technique":           c.Technique,
			"level_claimed":       map[string]any{"category": c.Level, "text": text, "design_ref": "DESIGN.md §5 " + id},
			"level_note":          strings.Join(c.Assumptions, "; "),
		})
	}
	var na []map[string]string
	b, err := os.ReadFile(filepath.Join(root, "not_applicable.json"))
	if err == nil {
		json.Unmarshal(b, &na)
	}
	if na == nil {
		na = []map[string]string{}
	}
	claimed := map[string]bool{}
	for _, id := range ids {
		claimed[id] = true
	}
	var na2 []map[string]string
	for _, e := range na {
		if !claimed[e["property_id"]] {
			na2 = append(na2, e)
		}
	}
	if na2 == nil {
		na2 = []map[string]string{}
	}
	m := map[string]any{
		"version":   1,
		"setup_cmd": "./vcheck setup",
		"hooks": map[string]any{
			"guard":            "verif",
			"enable":           "go test -tags verif -vet=off -overlay <json mapping /repo/zz_verif_export.go to /verif/harness/shim/export_verif.go> (no hook code is committed in /repo; the clock variant additionally overlays mechanically rewritten copies of rate_limiter.go and cache.go)",
			"baseline_off_cmd": "cd /repo && go test -mod=mod -vet=off -count=1 -timeout 25m ./...",
			"source_commits":   []string{},
			"add_only":         true,
		},
		"engines": []map[string]any{{"name": "vcheck", "path": "/verif/harness", "serves_properties": ids,
			"kind_free_text": "Go driver + one Go test binary: pgregory.net/rapid properties, bounded-exhaustive enumerators and native go fuzz targets driving the real absnfs code against reference models (vfs backend, nfsx RFC codec)"}},
		"checks":         list,
		"not_applicable": na2,
		"notes":          "Generated by `./vcheck manifest` from harness/cmd/vcheck/checks.go. Exit codes: 0 held, 1 violation (VIOLATION line), 2 inconclusive (build failure, budget, worker death).",
	}
	out, _ := json.MarshalIndent(m, "", " ")
	if err := os.WriteFile(filepath.Join(root, "MANIFEST.json"), append(out, '\n'), 0644); err != nil {
		fmt.Println(err)
		return 2
	}
	fmt.Printf("MANIFEST.json written: %d checks, %d not applicable\n", len(list), len(na2))
	return 0
}

// selftest runs the generated self-tests of the trusted base (vfs vs the kernel, nfsx framing).
func selftest() int {
	defer doCleanup()
	bin, err := buildVariant("plain")
	if err != nil {
		fmt.Println(err)
		return 2
	}
	cmd := exec.Command(bin, "-test.run", "^TestSelf", "-rapid.checks=2000", "-rapid.nofailfile", "-test.timeout", "10m")
	cmd.Dir = filepath.Join(harness(), "checks")
	cmd.Env = append(goEnv(), "VERIF_DEBUG=1")
	out, err := cmd.CombinedOutput()
	if err != nil {
		fmt.Printf("%s\nINCONCLUSIVE: trusted-base self-test failed\n", out)
		return 2
	}
	fmt.Println("selftest ok: vfs agrees with the kernel, nfsx framing is its own inverse")
	return 0
}
