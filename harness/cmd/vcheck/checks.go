package main

// phase is one group of shard processes of the test binary.
type phase struct {
	Name           string
	Variant        string // plain | clock | race
	Tests          string // -test.run regexp
	QuickShards    int
	ThoroughShards int
	QuickChecks    int // -rapid.checks per shard (0: the test is not a rapid property)
	ThoroughChecks int
	ThoroughOnly   bool
	Fuzz           string // native fuzz target regexp (thorough only)
	FuzzSeconds    int
	ReplayVariant  bool
}

type checkCfg struct {
	Level           string
	LevelText       string // what assurance the check gives (MANIFEST level_claimed.text)
	DesignRef       string
	Technique       string
	Rule            string
	Assumptions     []string
	CanBeExhaustive bool
	Phases          []phase
}

var baseAssumptions = []string{
	"vfs (reference backend), nfsx (independent RFC codec) and the reference models are trusted; they are self-tested by `vcheck selftest`",
	"absnfs is built from /repo's working tree with the `verif` shim injected by -overlay; the shim only adds accessors",
}

func rp(name, tests string, qs, qc, ts, tc int) phase {
	return phase{Name: name, Variant: "plain", Tests: tests, QuickShards: qs, QuickChecks: qc, ThoroughShards: ts, ThoroughChecks: tc}
}

var checks = map[string]checkCfg{
	"C01": {Level: "exploration", Technique: "rapid stateful histories vs byte-array model + backend compare",
		Rule:        "cases are rapid-generated histories of CREATE/WRITE/READ/SETATTR(size)/GETATTR on <=3 files with adversarial offsets/counts under a cache and transfer-size configuration; non-trivial = a READ that was checked after >=2 mutations of its file of which at least one was an overlap, a hole or a shrink-then-extend; distinct = FNV-64 of the canonical case JSON, unioned over shards",
		Assumptions: baseAssumptions,
		Phases:      []phase{rp("rapid", "^TestC01$", 6, 1500, 16, 12000)}},
}
