package main

// phase is one group of shard processes of the test binary.
type phase struct {
	Name           string
	Variant        string // plain | clock | race
	Tests          string // -test.run regexp
	QuickShards    int
	ThoroughShards int
	QuickChecks    int // -rapid.checks per shard (0: the test is not a rapid property)
	ThoroughChecks int
	ThoroughOnly   bool
	Fuzz           string // native fuzz target regexp (thorough only)
	FuzzSeconds    int
	ReplayVariant  bool
	Background     bool // runs alongside the other phases (waits on timers, needs little CPU)
}

type checkCfg struct {
	Level           string
	LevelText       string // what assurance the check gives (MANIFEST level_claimed.text)
	DesignRef       string
	Technique       string
	Rule            string
	Assumptions     []string
	CanBeExhaustive bool
	Phases          []phase
}

var baseAssumptions = []string{
	"vfs (reference backend), nfsx (independent RFC codec) and the reference models are trusted; they are self-tested by `vcheck selftest`",
	"absnfs is built from /repo's working tree with the `verif` shim injected by -overlay; the shim only adds accessors",
}

func rp(name, tests string, qs, qc, ts, tc int) phase {
	return phase{Name: name, Variant: "plain", Tests: tests, QuickShards: qs, QuickChecks: qc, ThoroughShards: ts, ThoroughChecks: tc}
}

var checks = map[string]checkCfg{
	"C01": {Level: "exploration", Technique: "rapid stateful histories vs byte-array model + backend compare",
		Rule:        "cases are rapid-generated histories of CREATE/WRITE/READ/SETATTR(size)/GETATTR on <=3 files with adversarial offsets/counts under a cache and transfer-size configuration; non-trivial = a READ that was checked after >=2 mutations of its file of which at least one was an overlap, a hole or a shrink-then-extend; distinct = FNV-64 of the canonical case JSON, unioned over shards; a quarter of the cases send every request through the server's real record-marking connection loop (one connection per client address, shared by all credentials) instead of a direct HandleCall",
		Assumptions: baseAssumptions,
		Phases:      []phase{rp("rapid", "^TestC01$", 10, 2500, 16, 12000)}},
	"C03": {Level: "exploration", Technique: "bounded-exhaustive enumeration + rapid property vs pre/post backend snapshot",
		Rule:        "phase enum enumerates every combination of existing object kind {none,file with data,empty dir,non-empty dir,symlink to file,dangling symlink} x createmode x all 64 sattr3 set-flag combinations x size {0,3,>len} x EXCLUSIVE verifier scenario {same,other,not exclusive} (with and without warm caches); phase rapid draws data contents, sizes, cache settings and preceding lookups; non-trivial = the name already exists and the object carries data or children; distinct = FNV-64 of the case JSON; a quarter of the cases send every request through the server's real record-marking connection loop (one connection per client address, shared by all credentials) instead of a direct HandleCall",
		Assumptions: baseAssumptions,
		Phases: []phase{
			{Name: "enum", Variant: "plain", Tests: "^TestC03$", QuickShards: 4, ThoroughShards: 8},
			rp("rapid", "^TestC03Rapid$", 8, 3000, 16, 20000)}},
	"C04": {Level: "exploration", Technique: "rapid histories; ghost attribute table + backend lstat comparison of every fattr3/wcc_attr sighting",
		Rule:        "cases are rapid-generated histories (C02 namespace ops + WRITE/READ/ACCESS/SETATTR with arbitrary 32-bit mode words) over an empty or pre-seeded tree (dir, file, symlink, dangling symlink) under a drawn cache configuration; every attribute-carrying field of every reply is attributed to its object; non-trivial = some object was sighted through >=2 different procedures, or sighted after a successful SETATTR(mode) on a directory; distinct = FNV-64 of the case JSON; a quarter of the cases send every request through the server's real record-marking connection loop (one connection per client address, shared by all credentials) instead of a direct HandleCall",
		Assumptions: append([]string{"directory sizes are not compared (implementation-specific)", "namespace verdicts that differ from the tree model abandon the case here (they are C02's violations)"}, baseAssumptions...),
		Phases:      []phase{rp("rapid", "^TestC04$", 10, 2500, 16, 10000)}},
	"C05": {Level: "exploration", Technique: "rapid allocation histories vs path->handle liveness oracle (map level and protocol level)",
		Rule:        "phase map: rapid histories of Allocate/Release/ReleaseAll/Get on a FileHandleMap with max in {1,2,3,5,10,37} over a path pool 3x max; phase proto: MNT/LOOKUP/CREATE/MKDIR/SYMLINK/READDIRPLUS over a tree of 18+ objects with the handle limit set to {3,5,8,12,37,default} through the shim; non-trivial = an allocation performed while the table is full and the free list is non-empty; distinct = FNV-64 of the case JSON",
		Assumptions: append([]string{"a READDIRPLUS listing with more entries than the handle limit necessarily returns dead handles; such listings are generated but not judged (DESIGN.md C05)"}, baseAssumptions...),
		Phases:      []phase{rp("map", "^TestC05Map$", 6, 3000, 8, 20000), rp("proto", "^TestC05Proto$", 8, 2000, 8, 8000)}},
	"C06": {Level: "exploration", Technique: "rapid histories with a handle-hoarding client vs ghost value->path map",
		Rule:        "same generators as C05; the client re-uses every handle value it was ever given (GETATTR, LOOKUP through it), values are released directly and the export is Unexport()ed and re-mounted; non-trivial = a request used a value after the entry it named was evicted/released (proto) or an eviction happened (map); distinct = FNV-64 of the case JSON",
		Assumptions: baseAssumptions,
		Phases:      []phase{rp("map", "^TestC06Map$", 6, 3000, 8, 20000), rp("proto", "^TestC06Proto$", 8, 2000, 8, 8000)}},
	"C07": {Level: "exploration", Technique: "bounded-exhaustive adversarial names + rapid + native fuzz vs backend call recorder",
		Rule:        "phase enum: every string of length <=3 over the alphabet {. / \\ NUL a space 0x80 0xFF} plus long names (254..8193 bytes) and traversal constants, each sent as the name (or symlink target / mount path) of all 13 name-taking request kinds on a fresh server pre-seeded with hostile symlinks; phase rapid: random byte strings and '..'-laden paths after a random namespace history; thorough adds a native fuzz campaign; every backend call of every request is judged; non-trivial = the string is not a plain valid component (or a pre-seeded hostile link was read); distinct = FNV-64 of the case JSON",
		Assumptions: append([]string{"'a handle's path' is taken from the server's handle table (accumulated over the history) while absoluteness and normalisation are required of every path independently", "for MOUNT only absolute and clean is required (MNT takes a path, not a name)"}, baseAssumptions...),
		Phases: []phase{
			{Name: "enum", Variant: "plain", Tests: "^TestC07Enum$", QuickShards: 4, ThoroughShards: 8},
			rp("rapid", "^TestC07$", 8, 2500, 16, 15000),
			{Name: "fuzz", Variant: "plain", ThoroughOnly: true, Fuzz: "^FuzzC07$", FuzzSeconds: 120, ThoroughShards: 1}}},
	"C08": {Level: "exploration", Technique: "rapid histories of all procedures (well-formed/truncated/garbage) vs backend recorder + snapshot",
		Rule:        "cases are rapid-generated histories of NFSv3 procedures 0..23 and MOUNT procedures with well-formed arguments on pre-seeded objects, arguments truncated at a 4-byte boundary or followed by random bytes, under four credentials, interleaved with read-only on/off switches through UpdatePolicyOptions and UpdateExportOptions; non-trivial = while read-only is in force a well-formed mutating procedure (SETATTR..COMMIT) was issued by an accepted credential; anti-vacuity label counts mutations that succeed while read-write; phase drain parks one mutating request (8 procedures, optionally timed out at the RPC level) inside the backend, switches the export to read-only and releases the request: no modifying backend call may start after the switch returned; distinct = FNV-64 of the case JSON; a quarter of the cases send every request through the server's real record-marking connection loop (one connection per client address, shared by all credentials) instead of a direct HandleCall",
		Assumptions: baseAssumptions,
		Phases:      []phase{rp("rapid", "^TestC08$", 10, 2500, 16, 15000), rp("drain", "^TestC08Drain$", 4, 20, 8, 200)}},
	"C09": {Level: "exploration", Technique: "rapid allow-lists/addresses; three-way differential against a bit-level membership oracle + request gate",
		Rule:        "each case draws an allow-list of 0-4 entries (single IPv4/IPv6 addresses, CIDRs of every prefix length 0-32/0-128, IPv4-mapped forms, malformed entries), the Secure flag and 4-16 probes (client placed at network-1, network, last, last+1, inside, outside, mapped and malformed forms; ports 0,1,1023,1024,1025,65535; any program/procedure); every probe is one decision compared three ways and one full request through HandleCall; non-trivial = the list is non-empty and the decision involves a CIDR or an IPv4-mapped client; distinct = FNV-64 of the case JSON; label decisions counts single decisions. Phase conn: histories of 4-24 steps over up to 8 long-lived connections served by the real connection loop {open from an address, request on a connection, replace the allow-list/Secure flag through UpdatePolicyOptions or UpdateExportOptions}; every request is judged against the list in force when it is sent; non-trivial there = a request had to be denied after an update happened under an open connection",
		Assumptions: append([]string{"zoned client strings and IPv4-mapped CIDR entries shorter than /96 are generated but only checked for no-over-grant and agreement between the two filters (the statement does not define them)"}, baseAssumptions...),
		Phases:      []phase{rp("rapid", "^TestC09$", 8, 3000, 16, 30000), rp("conn", "^TestC09Conn$", 8, 500, 16, 4000)}},
	"C10": {Level: "exploration", Technique: "rapid credentials vs reference squash function (AuthResult, AuthContext after HandleCall, ACCESS group decision)",
		Rule:        "each case draws a squash mode (valid, mixed case, unrecognised), a credential flavor, uid/gid from boundary and random values, 0-16 auxiliary gids, machine name length, and an AUTH_SYS body that is whole, truncated at a byte offset or declares an over-limit gid count; optionally the credential is pre-parsed and shared with the caller; non-trivial = the reference mapping differs from identity, or the credential must be rejected; distinct = FNV-64 of the case JSON",
		Assumptions: append([]string{"machine names longer than 255 bytes are not generated (RFC 1831 bounds them, absnfs does not)", "for an unrecognised squash mode only uid/gid are judged (the statement does not define the auxiliary list)"}, baseAssumptions...),
		Phases:      []phase{rp("rapid", "^TestC10$", 8, 6000, 16, 60000)}},
	"C11": {Level: "exploration", Technique: "rapid credentials x squash x sattr3 uid/gid combinations vs backend Chown recorder and inode owner",
		Rule:        "each case draws a squash mode, an AUTH_SYS (or AUTH_NONE) credential and 1-8 requests among SETATTR (on file, directory, symlink), CREATE, MKDIR, SYMLINK with every uid/gid set-flag combination and values {0, caller, 4242}; non-trivial = a non-root effective caller asked for foreign ids, or an object was created; distinct = FNV-64 of the case JSON; half of the cases run over the real connection loop, with another user of the same client machine (uid 0, or uid 2000 when the caller is root) issuing a GETATTR on the same connection before requests",
		Assumptions: baseAssumptions,
		Phases:      []phase{rp("rapid", "^TestC11$", 8, 5000, 16, 20000)}},
	"C12": {Level: "exploration", CanBeExhaustive: false, Technique: "exhaustive enumeration of the ACCESS decision space vs a decision table + rapid boundary cases",
		Rule:        "phase enum enumerates every (mode, object type, caller relation in {owner, group, aux-group only, other, owner-and-group, root}, request mask 0..63, read-only off/on) point - quick: the 512 rwx modes (786432 points), thorough: all 4096 twelve-bit modes (6291456 points); each point is one ACCESS request after a root SETATTR installed mode and owner; phase rapid adds masks above 0x3F, arbitrary owners and auxiliary lists; every point is a distinct decision and counts as non-trivial; points are partitioned over shards by mode, so distinct counts add up; the rapid phase also draws the export's squash mode (none/root/all, mixed case) and judges the decision for the effective identity after squashing - there the object is made through the server by a second caller and judged against the owner the server reports - and a quarter of its cases run over the real connection loop",
		Assumptions: append([]string{"absnfs stores only the 0777 bits in the backend, so setuid/setgid/sticky modes are sent but cannot influence the decision", "EXECUTE follows the x bit on files and directories (the statement restricts only LOOKUP and DELETE to directories)"}, baseAssumptions...),
		Phases: []phase{
			{Name: "enum", Variant: "plain", Tests: "^TestC12$", QuickShards: 8, ThoroughShards: 16},
			rp("rapid", "^TestC12Rapid$", 8, 6000, 16, 30000)}},
	"C13": {Level: "exploration", Technique: "rapid round-trip / differential-vs-nfsx / allocation-bounded codec properties + native fuzz of DecodeRPCCall and ReadRecord",
		Rule:        "each case picks a codec (XDR string, file handle, RPC call header, AUTH_SYS body, RPC reply, record reader, record writer, hostile declared length), a length from {0..9, limit-1, limit, limit+1, random}, contents with or without NUL, an optional truncation point and a fragmentation (list of fragment sizes incl. zero-length fragments); non-trivial = length not a multiple of 4, or >=2 fragments, or a truncated / hostile-length input; distinct = FNV-64 of the case JSON; thorough adds two native fuzz campaigns",
		Assumptions: baseAssumptions,
		Phases: []phase{rp("rapid", "^TestC13$", 10, 8000, 16, 100000),
			{Name: "fuzz-call", Variant: "plain", ThoroughOnly: true, Fuzz: "^FuzzC13Call$", FuzzSeconds: 90, ThoroughShards: 1},
			{Name: "fuzz-record", Variant: "plain", ThoroughOnly: true, Fuzz: "^FuzzC13Record$", FuzzSeconds: 90, ThoroughShards: 1}}},
	"C14": {Level: "exploration", Technique: "rapid requests x server states; every reply strictly decoded by the independent RFC 1831/1813 decoder",
		Rule:        "each case fixes a server state (normal, read-only, per-operation rate limits exhausted, connection-level rate limit over a record-marking connection, policy drain established by parking a request on a backend gate while UpdatePolicyOptions waits) and issues 1-12 calls with program in {NFS, MOUNT, portmap number, 0, random}, version 0-4, procedure 0-23, arguments well-formed (live/stale/foreign handles, valid/invalid names), truncated at a 4-byte cut, random or over-long; non-trivial = some reply was not NFS3_OK/success, or the state is not normal; phase concurrent-race runs 2-6 client goroutines x 5-40 overlapping calls (READs of files with distinct sizes and contents, WRITE, GETATTR, LOOKUP, READDIR(PLUS), ACCESS, READLINK, FSINFO) in a -race binary and decodes every reply strictly; distinct = FNV-64 of the case JSON",
		Assumptions: append([]string{"MOUNT v1 result bodies are not judged (only v3 is in the statement)"}, baseAssumptions...),
		Phases: []phase{rp("rapid", "^TestC14$", 6, 1200, 16, 15000),
			{Name: "concurrent-race", Variant: "race", Tests: "^TestC14Concurrent$", QuickShards: 3, QuickChecks: 60, ThoroughShards: 8, ThoroughChecks: 800}}},
	"C15": {Level: "exploration", Technique: "rapid structured stream mutation + native fuzz against the record-marking connection loop; reply-stream invariant vs reference stream parser",
		Rule:        "each case is a byte stream for one record-marking connection: 1-8 records, each a valid call of any program/procedure (or raw garbage) with 0-3 mutations (truncation, bit flip, a 4-byte word replaced by a hostile constant, appended bytes), an arbitrary fragmentation and framing games (missing last-fragment flag, lying fragment length, stray fragment headers); an enumeration phase substitutes every hostile constant for every argument word of every NFSv3 procedure x 6 handle/name variants, one substitution per call, 24 calls per stream; a reference parser decides which records a conformant server can decode; non-trivial = the stream holds >=1 decodable call and >=1 mutated/garbage record (every fuzz input counts); distinct = FNV-64 of the case JSON; thorough adds a native fuzz campaign seeded with valid calls and hostile constants; a quarter of the streams meet a server with rate limiting on and a per-connection burst of 1-4 calls (a refusal is the one answer its call gets)",
		Assumptions: append([]string{"a stream that simply ends inside a record does not oblige the server to close the connection before its read timeout; only complete undecodable records do", "allocation bound: 16 x bytes sent + records x (6 x 64 KiB + 64 KiB) + 8 MiB (TotalAlloc of the whole process)"}, baseAssumptions...),
		Phases: []phase{rp("rapid", "^TestC15$", 8, 300, 16, 4000),
			{Name: "enum", Variant: "plain", Tests: "^TestC15Enum$", QuickShards: 8, ThoroughShards: 8},
			{Name: "stall", Variant: "plain", Tests: "^TestC15Stall$", QuickShards: 1, ThoroughShards: 1, Background: true},
			{Name: "big", Variant: "plain", Tests: "^TestC15Big$", QuickShards: 4, QuickChecks: 3, ThoroughShards: 8, ThoroughChecks: 25, Background: true},
			{Name: "fuzz", Variant: "plain", ThoroughOnly: true, Fuzz: "^FuzzC15$", FuzzSeconds: 240, ThoroughShards: 1}}},
	"C16": {Level: "exploration", Technique: "rapid schedules with harness-owned gates inside the backend + policy-version invariants; same property under the race detector",
		Rule:        "each case is a schedule of 3-14 steps over {start a request that parks on a backend gate (read or mutating), start UpdatePolicyOptions/UpdateExportOptions to the next stamped policy, prove the drain by probing until the first retry-later reply, open a gate, probe, fresh request judged under the policy in force, rate limiting switched on under an open connection}, optionally with a 40 ms request timeout so that parked requests time out; non-trivial = an update was started while >=1 request was parked in the backend, or rate limiting was enabled under an open connection; distinct = FNV-64 of the case JSON. Schedules are sampled, not enumerated; the Go scheduler's own choices are not controlled; in half of the cases the probes travel over an established record-marking connection (an unanswered probe is not a retry-later reply)",
		Assumptions: append([]string{"timing guards (8-30 s) only ever yield an inconclusive part or a deadlock report after every gate was opened"}, baseAssumptions...),
		Phases: []phase{rp("rapid", "^TestC16$", 6, 80, 16, 800),
			{Name: "race", Variant: "race", Tests: "^TestC16$", QuickShards: 2, QuickChecks: 40, ThoroughShards: 8, ThoroughChecks: 300}}},
	"C28": {Level: "exploration", CanBeExhaustive: true, Technique: "complete enumeration of start paths x options; conformant record-marking client as oracle",
		Rule:        "all combinations of start path {AbsfsNFS.Export, NewServer+Listen with record marking, StartWithPortmapper} x debug x {port 0, explicit port} x option sample {default, read-only, all caches} x backend {vfs, memfs} are started on loopback (60 configurations) and talked to by the nfsx client: NFS NULL, MNT / sent as a multi-fragment record, GETATTR of the mounted handle; every configuration is a distinct non-trivial case; portmapper starts that cannot bind port 111 are reported as inconclusive parts",
		Assumptions: append([]string{"real sockets on loopback; port 111 must be bindable for the StartWithPortmapper path"}, baseAssumptions...),
		Phases:      []phase{{Name: "enum", Variant: "plain", Tests: "^TestC28$", QuickShards: 1, ThoroughShards: 1}}},
	"C17": {Level: "exploration", Technique: "rapid client schedules against a real loopback server; counters, EOFs and goroutine stacks as oracle; also under the race detector",
		Rule:        "each case draws MaxConnections 1-6, IdleTimeout 100-300 ms, the start path (Listen or Export) and 3-10 steps over {dial k connections concurrently and NULL each, NULL on all, close k, idle for 2 x IdleTimeout, Stop twice, AbsfsNFS.Close twice, Unexport twice}; non-trivial = more dials than MaxConnections, or Stop with open connections; distinct = FNV-64 of the case JSON. Timing assertions are one-sided (at least 2 s slack). Export cases may park a LOOKUP inside the backend and release it while the following Close/Unexport/Stop runs. Phase unreg: connections admitted through the server's admission path are each unregistered by 2-4 goroutines released from a barrier (handler, reaper and Stop ending one connection at once), 3-12 rounds per case; a third of the cases use a TLS listener and TLS clients",
		Assumptions: append([]string{"real sockets on loopback and real time; a busy machine can only delay, never fail, an assertion"}, baseAssumptions...),
		Phases: []phase{rp("rapid", "^TestC17$", 8, 12, 16, 120),
			{Name: "race", Variant: "race", Tests: "^TestC17$", QuickShards: 2, QuickChecks: 8, ThoroughShards: 8, ThoroughChecks: 60},
			{Name: "unreg", Variant: "plain", Tests: "^TestC17Unreg$", QuickShards: 6, QuickChecks: 300, ThoroughShards: 16, ThoroughChecks: 4000},
			{Name: "stoprace", Variant: "plain", Tests: "^TestC17StopRace$", QuickShards: 4, QuickChecks: 12, ThoroughShards: 8, ThoroughChecks: 60}}},
	"C18": {Level: "exploration", Technique: "rapid timing sequences on a virtual clock vs exact (big.Rat) ideal token buckets; cleanup differential; handler integration",
		Rule:        "phase limiter: each case draws a RateLimiterConfig (rates/bursts in {0,1,2,5,1000}, mount per minute in {0,1,7,60}, CleanupInterval in {1 s, 60 s, 1 h}) and 5-80 events (advance the virtual clock by {0, 1 ns, 1 ms, 1/3 s, 1 s, 7 s, 90 s, 2 h}, then AllowRequest(ip, conn) or AllowOperation(ip, type)) over 4 IPs x 3 connections x 4 operation types; phase handlers drives real READ/WRITE > 64 KiB, READDIR(PLUS) and MNT requests through HandleCall under the same clock; non-trivial = the sequence contains a refusal and a later admission; distinct = FNV-64 of the case JSON; one case in 40 (C19: one in 12) starts with a crowd of 300-4200 further client addresses sending one request each",
		Assumptions: append([]string{"rate_limiter.go is compiled with time.Now/time.Since mechanically redirected to the harness clock (go/ast rewrite of the working-tree file at check time)", "decisions within 1e-6 tokens of the boundary are accepted either way (float64 implementation vs exact model)"}, baseAssumptions...),
		Phases: []phase{{Name: "limiter", Variant: "clock", Tests: "^TestC18$", QuickShards: 8, QuickChecks: 3000, ThoroughShards: 16, ThoroughChecks: 50000, ReplayVariant: true},
			{Name: "handlers", Variant: "clock", Tests: "^TestC18Handlers$", QuickShards: 2, QuickChecks: 600, ThoroughShards: 8, ThoroughChecks: 6000}}},
	"C19": {Level: "exploration", Technique: "rapid abusive-vs-compliant arrival streams on a virtual clock vs ideal buckets fed by admitted requests only",
		Rule:        "as C18 phase limiter, with one abusive client (IP 0: many arrivals with tiny gaps, far beyond its per-IP/per-connection limits) interleaved with compliant clients and a global limit above the compliant traffic; non-trivial = at least one refusal of the abusive client precedes an arrival of a compliant client; distinct = FNV-64 of the case JSON",
		Assumptions: append([]string{"virtual clock rewrite as C18", "a client is compliant while every one of its arrivals finds >= 1 token in its own ideal per-IP and per-connection buckets (arrivals, not admissions, drain them)"}, baseAssumptions...),
		Phases: []phase{{Name: "limiter", Variant: "clock", Tests: "^TestC19$", QuickShards: 8, QuickChecks: 3000, ThoroughShards: 16, ThoroughChecks: 50000, ReplayVariant: true}}},
	"C20": {Level: "exploration", Technique: "rapid action lists with gated tasks vs per-task accounting inspected after the pool stopped; also under the race detector",
		Rule:        "each case draws a pool size 1-3 and 2-14 actions over {submit a task blocking on a gate, submit a quick task (each through Submit or SubmitWait), open a gate, Resize to 1-3, Stop}; afterwards every gate is opened, pending Stop/Resize calls are awaited and the pool is stopped; non-trivial = Stop or Resize was issued while >=1 task was queued behind busy workers; distinct = FNV-64 of the case JSON. Interleavings are sampled; blocked submitters are decided by state (pool stopped, workers gone), not by a timeout verdict. Phase exec drives the pool the way requests do, through AbsfsNFS.ExecuteWithWorker: 2-14 actions over {gated task, quick task (results: a token, nil, a typed nil pointer, a zero struct, an error value), open a gate, resize through UpdateTuningOptions(MaxWorkers 0-3), Close}; every call must return once all gates are open, its task must have run exactly once and the returned value must be the task's (non-trivial there = a task with a result other than the token)",
		Assumptions: baseAssumptions,
		Phases: []phase{rp("rapid", "^TestC20$", 6, 60, 16, 600),
			{Name: "race", Variant: "race", Tests: "^TestC20$", QuickShards: 2, QuickChecks: 40, ThoroughShards: 8, ThoroughChecks: 300},
			{Name: "exec", Variant: "plain", Tests: "^TestC20Exec$", QuickShards: 4, QuickChecks: 120, ThoroughShards: 16, ThoroughChecks: 1500},
			{Name: "execrace", Variant: "race", Tests: "^TestC20Exec$", QuickShards: 1, QuickChecks: 40, ThoroughShards: 4, ThoroughChecks: 300}}},
	"C21": {Level: "exploration", Technique: "rapid operation/clock histories vs exact reference LRU (no expiry) and validity predicates (expiry); concurrent variant under the race detector",
		Rule:        "each case picks AttrCache or DirCache, capacity 1-5, a TTL, the regime (exact LRU without clock advance, or expiry with advances below/at/above the TTL) and 3-40 operations over Put/PutNegative/Get/Invalidate/InvalidateNegativeInDir/InvalidateSubtree/Resize/UpdateTTL/ConfigureNegativeCaching/Clear/advance on 8 paths chosen to stress the direct-child test, with copy-isolation mutations after Put and Get; every case ends with a sweep over all keys; non-trivial = an eviction or expiry happened and the affected key was looked up afterwards; the concurrent phase runs 4 goroutines over shared caches under -race; distinct = FNV-64 of the case JSON",
		Assumptions: append([]string{"cache.go is compiled with time.Now/time.Since mechanically redirected to the harness clock", "at the exact expiry instant hit and miss are both accepted", "a DirCache Put larger than maxDirSize is treated as not stored"}, baseAssumptions...),
		Phases: []phase{{Name: "seq", Variant: "clock", Tests: "^TestC21$", QuickShards: 8, QuickChecks: 4000, ThoroughShards: 16, ThoroughChecks: 50000, ReplayVariant: true},
			{Name: "race", Variant: "race", Tests: "^TestC21Concurrent$", QuickShards: 2, QuickChecks: 150, ThoroughShards: 8, ThoroughChecks: 1500}}},
	"C22": {Level: "fault_enumeration", Technique: "rapid write histories on a crash-simulating backend; every crash point of every history is enumerated and the durable image compared with the promised-data model",
		Rule:        "each case is a rapid-generated history of CREATE / WRITE (UNSTABLE, DATA_SYNC, FILE_SYNC) / COMMIT / SETATTR(size) / READ on two files; within a history EVERY crash point is examined (before each backend operation and after each reply; counts in labels crash_points); non-trivial = the history has a crash point after at least one acknowledged non-empty FILE_SYNC write; distinct = FNV-64 of the case JSON",
		Assumptions: append([]string{"crash model: file data is volatile until File.Sync, namespace operations and truncation are journaled (durable at once); bytes covered by the request in flight may hold the old or the new value"}, baseAssumptions...),
		Phases:      []phase{rp("rapid", "^TestC22$", 8, 1000, 16, 8000)}},
	"C23": {Level: "exploration", Technique: "rapid TransferSize configurations over a real record-marking TCP connection; FSINFO-relative acceptance oracle",
		Rule:        "each case draws TransferSize from {1,7,512,4096,65536,100000,2^20,2^22,default}, optionally a second value applied at runtime, and 3-10 count selectors over {1, pref, pref+1, max-1, max, 65537, 70000, every power of two <= max} (max itself always included); FSINFO is asked first and every WRITE/READ count is <= the advertised maximum; non-trivial = a count at or above the preferred size or equal to the maximum was exercised; distinct = FNV-64 of the case JSON",
		Assumptions: append([]string{"real sockets on loopback"}, baseAssumptions...),
		Phases:      []phase{rp("rapid", "^TestC23$", 6, 25, 16, 250)}},
	"C24": {Level: "exploration", Technique: "rapid update sequences with zero/negative/nil fields vs positivity, in-force=reported, serviceability and atomic-reject oracles",
		Rule:        "each case draws 1-6 calls among UpdateExportOptions / UpdateTuningOptions / UpdatePolicyOptions whose numeric fields come from {0,-1,1,7,4096,65536,2^20}, durations from {0,-1s,1ns,1ms,5s,1h}, Timeouts from {nil, all zero, partly filled, full, negative}, RateLimitConfig from {nil, zero struct, default}, Squash from {same, empty, other case, other value}; after every call the reported configuration, the in-force values and LOOKUP/READ/WRITE through HandleCall are checked; non-trivial = the update carried a zero/negative/nil field or was rejected; distinct = FNV-64 of the case JSON",
		Assumptions: append([]string{"keeping the previous positive value instead of the construction default is accepted"}, baseAssumptions...),
		Phases:      []phase{rp("rapid", "^TestC24$", 8, 800, 16, 5000)}},
	"C25": {Level: "exploration", Technique: "rapid offsets/sizes around the limit; size invariant + differential against an unlimited twin server",
		Rule:        "each case draws MaxFileSize M from {1,2,100,4096,65537,2^31,2^40}, whether it is set at construction or at runtime, and 2-14 WRITE / SETATTR(size) requests whose end offset is M-1, M, M+1, 2M, 2^62, M/2, 1, M+5000 or 0; every request is also sent to a twin server without limit when it stays within M; non-trivial = a request whose resulting size is within +-1 of M; phase drain: a WRITE / SETATTR(size) producing a size between the new and the old limit is parked inside the backend by a harness gate while MaxFileSize is lowered (or switched on) through UpdatePolicyOptions / UpdateExportOptions; after the update has returned no backend call may grow the file beyond the new limit; every such case is non-trivial; distinct = FNV-64 of the case JSON",
		Assumptions: baseAssumptions,
		Phases:      []phase{rp("rapid", "^TestC25$", 8, 1200, 16, 5000), rp("drain", "^TestC25Drain$", 4, 30, 8, 300)}},
	"C26": {Level: "exploration", Technique: "rapid directories x count values; cookie-following client; set equality + XDR size bound oracle",
		Rule:        "each case draws a directory of 0-80 entries with name lengths over 1..255 (many at 255), READDIR or READDIRPLUS, and count / (dircount, maxcount) from {0,1,100,103,104,127,128,129,131,132,200,300,332,400,512,1024,4096,8192,65536,2^32-1}; the client follows cookies until eof, TOOSMALL or n+3 calls; non-trivial = the listing needed >=2 pages or the limit was below one entry (TOOSMALL); distinct = FNV-64 of the case JSON",
		Assumptions: append([]string{"the size limit is compared with the encoded resok without the status word (the more lenient reading of RFC 1813); dircount is not judged", "when nothing remains to be listed and even the resok header exceeds count, OK and TOOSMALL are both accepted"}, baseAssumptions...),
		Phases:      []phase{rp("rapid", "^TestC26$", 8, 800, 16, 5000)}},
	"C27": {Level: "exploration", Technique: "rapid portmap/rpcbind call sequences from loopback and non-loopback addresses vs a registry model + strict reply decoding",
		Rule:        "each case is a sequence of 2-25 calls through Portmapper.handleCall with the remote address drawn from {127.0.0.1, 127.9.9.9, ::1, ::ffff:127.0.0.1, 10.0.0.5, 192.168.1.7, 2001:db8::1, fe80::1%eth0, ::ffff:10.0.0.5, 128.0.0.1}, protocol version 1-5, procedure NULL/SET/UNSET/GETPORT|GETADDR/DUMP/CALLIT/9, (program, version, protocol) from a pool of 12, IPv4 and IPv6 universal addresses, malformed addresses and truncated arguments; non-trivial = a SET/UNSET from a non-loopback address, or a DUMP after >=2 changes; distinct = FNV-64 of the case JSON",
		Assumptions: append([]string{"SET/UNSET calls that the server accepts although their arguments are malformed are not judged (the model is resynchronised)"}, baseAssumptions...),
		Phases:      []phase{rp("rapid", "^TestC27$", 8, 5000, 16, 20000)}},
	"C30": {Level: "exploration", Technique: "rapid TLS configurations x real TLS clients pinned to each version/certificate; end-to-end success predicates; rotation probe",
		Rule:        "each case draws MinVersion/MaxVersion from {0, TLS1.0, 1.1, 1.2, 1.3}, ClientAuth 0-4, CAFile {none, the CA, missing}, cipher suites {nil, defaults, TLS1.2-only ECDSA, legacy ids} and 2-6 clients (pinned to TLS 1.0-1.3, presenting no / CA-signed / self-signed / foreign-CA certificate); for configurations that New and Listen accept every client tries to get a NULL RPC answered over TLS; a quarter of the cases also perform the documented certificate rotation; non-trivial = an accepted configuration met a client offering < TLS1.2 or a non-CA certificate, or a rotation was performed; distinct = FNV-64 of the case JSON",
		Assumptions: append([]string{"real TLS handshakes on loopback with certificates generated at run time (ECDSA P-256)"}, baseAssumptions...),
		Phases:      []phase{rp("rapid", "^TestC30$", 8, 120, 16, 900)}},
	"C29": {Level: "exploration", Technique: "rapid concurrent histories with backend jitter under the race detector; porcupine linearizability check against a sequential tree+file model; final server-vs-backend walk and handle-table check; generated cache-fill schedules (reader parked after its k-th backend call while a mutation completes)",
		Rule:        "each case runs 2-4 client goroutines x 3-6 requests (LOOKUP, CREATE, MKDIR, REMOVE, RENAME, WRITE, READ, GETATTR, SETATTR(size), READDIR) on names private to each client inside one shared directory and through shared handles, with seed-derived Gosched/microsecond sleeps injected before backend calls, under minimal-TTL or caches-on configuration, in a -race binary; non-trivial = at least two requests overlapped in time; distinct = FNV-64 of the case JSON. Interleavings are sampled by the Go scheduler plus jitter, not enumerated",
		Assumptions: append([]string{"vfs is the thread-safe backend the property assumes", "with caches on a read-type reply may match any earlier state of the name (staleness allowed), a mutation reply may not"}, baseAssumptions...),
		Phases: []phase{{Name: "race", Variant: "race", Tests: "^TestC29$", QuickShards: 8, QuickChecks: 100, ThoroughShards: 16, ThoroughChecks: 1500, ReplayVariant: true},
			{Name: "fill", Variant: "race", Tests: "^TestC29Fill$", QuickShards: 8, QuickChecks: 600, ThoroughShards: 16, ThoroughChecks: 4000, ReplayVariant: true}}},
	"C02": {Level: "exploration", Technique: "rapid histories vs POSIX tree model + cached-vs-uncached differential",
		Rule:        "cases are rapid-generated sequential histories of LOOKUP/CREATE/MKDIR/SYMLINK/REMOVE/RMDIR/RENAME/READDIR(PLUS)/GETATTR/READLINK over names {a,b,c} to depth 3, addressed through every handle ever issued (stale ones included); each history runs under the all-off baseline and k cached configurations (quick 3, thorough 6 of 15); non-trivial = a read-type request on a name or directory affected by an earlier successful mutation, executed under a configuration with at least one cache on; distinct = FNV-64 of the case JSON; a quarter of the cases send every request through the server's real record-marking connection loop (one connection per client address, shared by all credentials) instead of a direct HandleCall",
		Assumptions: append([]string{"documented latitude L1-L7 of DESIGN.md §5 C02 (REMOVE of empty dir, UNCHECKED/EXCLUSIVE on existing objects, error code identity not compared against the model, path-bound handles)"}, baseAssumptions...),
		Phases:      []phase{rp("rapid", "^TestC02$", 10, 2000, 16, 10000)}},
}
