//go:build verif

// This file is NOT part of absnfs. It is injected into package absnfs at check
// time with `go test -tags verif -overlay ...` by /verif/vcheck and only ADDS
// exported accessors for unexported state the property checks must observe.
package absnfs

import (
	"bytes"
	"io"
	"net"
	"os"
	"time"

	"github.com/absfs/absfs"
)

// ---- virtual clock (used only by builds that also overlay the rewritten
// rate_limiter.go / cache.go; harmless otherwise) ----

var verifClock func() time.Time

func verifNow() time.Time {
	if c := verifClock; c != nil {
		return c()
	}
	return time.Now()
}

// VerifSetClock installs (or with nil removes) the virtual clock.
func VerifSetClock(f func() time.Time) { verifClock = f }

// ---- handler / server internals ----

func VerifNewProcHandler(s *Server) *NFSProcedureHandler { return &NFSProcedureHandler{server: s} }

func (s *Server) VerifServeConn(conn net.Conn, h *NFSProcedureHandler, recordMarking bool) {
	if recordMarking {
		s.handleConnectionWithRecordMarking(conn, h)
	} else {
		s.handleConnection(conn, h)
	}
}

// VerifAcceptConn mimics acceptLoop's per-connection admission (IP filter +
// registration) and then serves the connection; returns false if rejected.
func (s *Server) VerifAdmit(conn net.Conn) bool {
	clientAddr := conn.RemoteAddr().String()
	clientIP, _, err := net.SplitHostPort(clientAddr)
	if err != nil {
		clientIP = clientAddr
	}
	if !s.isIPAllowed(clientIP) {
		return false
	}
	return s.registerConnection(conn)
}

func (s *Server) VerifUnregister(conn net.Conn) { s.unregisterConnection(conn) }

func (s *Server) VerifConnCounts() (count int, tracked int) {
	s.connMutex.Lock()
	defer s.connMutex.Unlock()
	return s.connCount, len(s.activeConns)
}

func (s *Server) VerifIsIPAllowed(ip string) bool { return s.isIPAllowed(ip) }

func (s *Server) VerifWriteVerf() [8]byte { return s.writeVerf }

func (s *Server) VerifListenerAddr() net.Addr {
	if s.listener == nil {
		return nil
	}
	return s.listener.Addr()
}

func VerifAuthIsIPAllowed(ip string, list []string) bool { return isIPAllowed(ip, list) }

func (n *AbsfsNFS) VerifFileMap() *FileHandleMap   { return n.fileMap }
func (n *AbsfsNFS) VerifAttrCache() *AttrCache     { return n.attrCache }
func (n *AbsfsNFS) VerifDirCache() *DirCache       { return n.dirCache }
func (n *AbsfsNFS) VerifWorkerPool() *WorkerPool   { return n.workerPool }
func (n *AbsfsNFS) VerifRateLimiter() *RateLimiter { return n.rateLimiter }
func (n *AbsfsNFS) VerifExportServer() *Server     { return n.exportServer }

// VerifHandlePath returns the path of the node a wire handle currently maps to.
// VerifHandlePath reads the handle table itself (not through Get, which is
// code under test): the path a handle value is tracked for.
func (n *AbsfsNFS) VerifHandlePath(handle uint64) (string, bool) {
	fm := n.fileMap
	fm.RLock()
	f, ok := fm.handles[handle]
	fm.RUnlock()
	if !ok {
		return "", false
	}
	node, ok := f.(*NFSNode)
	if !ok {
		return "", false
	}
	return node.path, true
}

func (h *NFSProcedureHandler) VerifLookupNodePath(handle uint64) (string, bool) {
	return h.server.handler.VerifHandlePath(handle)
}

// ---- FileHandleMap ----

func VerifNewFileHandleMap(max int) *FileHandleMap {
	return &FileHandleMap{
		handles:     make(map[uint64]absfs.File),
		pathHandles: make(map[string]uint64),
		nextHandle:  1,
		freeHandles: NewUint64MinHeap(),
		maxHandles:  max,
	}
}

func (fm *FileHandleMap) VerifSetMax(max int) { fm.Lock(); fm.maxHandles = max; fm.Unlock() }

func (fm *FileHandleMap) VerifFreeLen() int {
	fm.RLock()
	defer fm.RUnlock()
	return fm.freeHandles.Len()
}

func (fm *FileHandleMap) VerifPathHandles() map[string]uint64 {
	fm.RLock()
	defer fm.RUnlock()
	out := make(map[string]uint64, len(fm.pathHandles))
	for k, v := range fm.pathHandles {
		out[k] = v
	}
	return out
}

func (fm *FileHandleMap) VerifHandlePaths() map[uint64]string {
	fm.RLock()
	defer fm.RUnlock()
	out := make(map[uint64]string, len(fm.handles))
	for k, v := range fm.handles {
		if n, ok := v.(*NFSNode); ok {
			out[k] = n.path
		} else {
			out[k] = ""
		}
	}
	return out
}

func VerifNewNode(fs absfs.SymlinkFileSystem, path string) *NFSNode {
	return &NFSNode{SymlinkFileSystem: fs, path: path, attrs: &NFSAttrs{}}
}

func VerifNodePath(f absfs.File) (string, bool) {
	n, ok := f.(*NFSNode)
	if !ok {
		return "", false
	}
	return n.path, true
}

// ---- codec wrappers ----

func VerifXdrDecodeString(r io.Reader) (string, error)     { return xdrDecodeString(r) }
func VerifXdrEncodeString(w io.Writer, s string) error     { return xdrEncodeString(w, s) }
func VerifXdrDecodeFileHandle(r io.Reader) (uint64, error) { return xdrDecodeFileHandle(r) }
func VerifXdrEncodeFileHandle(w io.Writer, h uint64) error { return xdrEncodeFileHandle(w, h) }
func VerifXdrDecodeUint32(r io.Reader) (uint32, error)     { return xdrDecodeUint32(r) }
func VerifXdrEncodeUint32(w io.Writer, v uint32) error     { return xdrEncodeUint32(w, v) }
func VerifXdrEncodeUint64(w io.Writer, v uint64) error     { return xdrEncodeUint64(w, v) }
func VerifValidateFilename(name string) uint32             { return validateFilename(name) }
func VerifSanitizePath(base, name string) (string, error)  { return sanitizePath(base, name) }
func VerifIsChildOf(p, dir string) bool                    { return isChildOf(p, dir) }
func VerifMapError(err error) uint32                       { return mapError(err) }
func VerifEncodeFileAttributes(a *NFSAttrs) ([]byte, error) {
	var b bytes.Buffer
	err := encodeFileAttributes(&b, a)
	return b.Bytes(), err
}

// VerifSattr3 mirrors the unexported sattr3.
type VerifSattr3 struct {
	SetMode             bool
	Mode                uint32
	SetUID              bool
	UID                 uint32
	SetGID              bool
	GID                 uint32
	SetSize             bool
	Size                uint64
	SetAtime            uint32
	AtimeSec, AtimeNsec uint32
	SetMtime            uint32
	MtimeSec, MtimeNsec uint32
}

func VerifDecodeSattr3(r io.Reader) (VerifSattr3, error) {
	s, err := decodeSattr3(r)
	return VerifSattr3{s.SetMode, s.Mode, s.SetUID, s.UID, s.SetGID, s.GID, s.SetSize, s.Size,
		s.SetAtime, s.AtimeSec, s.AtimeNsec, s.SetMtime, s.MtimeSec, s.MtimeNsec}, err
}

// ---- portmapper ----

func (pm *Portmapper) VerifHandleCall(data []byte, addr net.Addr) ([]byte, error) {
	return pm.handleCall(data, addr)
}

// ---- caches ----

func (c *AttrCache) VerifKeys() []string {
	c.mu.RLock()
	defer c.mu.RUnlock()
	out := make([]string, 0, len(c.cache))
	for k := range c.cache {
		out = append(out, k)
	}
	return out
}

// VerifLRUOrder returns the access list from most to least recently used.
func (c *AttrCache) VerifLRUOrder() []string {
	c.mu.RLock()
	defer c.mu.RUnlock()
	var out []string
	for e := c.accessList.Front(); e != nil; e = e.Next() {
		out = append(out, e.Value.(string))
	}
	return out
}

func (c *DirCache) VerifKeys() []string {
	c.mu.RLock()
	defer c.mu.RUnlock()
	out := make([]string, 0, len(c.entries))
	for k := range c.entries {
		out = append(out, k)
	}
	return out
}

// NewVerifAttrs builds an NFSAttrs value (mtime/atime are unexported fields).
func NewVerifAttrs(mode uint32, size int64, fileid uint64, uid, gid uint32) *NFSAttrs {
	return &NFSAttrs{Mode: os.FileMode(mode), Size: size, FileId: fileid, Uid: uid, Gid: gid}
}
