package vfs

import (
	"os"
	"sync"
	"time"

	"github.com/absfs/absfs"
)

// Faulty wraps an FS and lets a check make individual backend calls fail with
// a chosen error before they touch the filesystem (fault injection). The
// oracles keep reading the inner FS; only the server goes through the wrapper.
type Faulty struct {
	*FS
	mu    sync.Mutex
	n     int
	fault func(op string, paths []string, n int) error
}

var _ absfs.SymlinkFileSystem = (*Faulty)(nil)

// NewFaulty wraps inner.
func NewFaulty(inner *FS) *Faulty { return &Faulty{FS: inner} }

// Arm installs the fault function (nil disarms) and restarts the call counter.
// fn sees the operation name, its path arguments and the 1-based ordinal of
// the backend call since Arm; a non-nil result is returned to the server.
func (f *Faulty) Arm(fn func(op string, paths []string, n int) error) {
	f.mu.Lock()
	f.fault, f.n = fn, 0
	f.mu.Unlock()
}

// Count is the number of backend calls since Arm.
func (f *Faulty) Count() int { f.mu.Lock(); defer f.mu.Unlock(); return f.n }

func (f *Faulty) hit(op string, paths ...string) error {
	f.mu.Lock()
	f.n++
	n, fn := f.n, f.fault
	f.mu.Unlock()
	if fn == nil {
		return nil
	}
	return fn(op, paths, n)
}

func (f *Faulty) OpenFile(name string, flag int, perm os.FileMode) (absfs.File, error) {
	if err := f.hit("OpenFile", name); err != nil {
		return nil, err
	}
	fl, err := f.FS.OpenFile(name, flag, perm)
	if err != nil {
		return nil, err
	}
	return &faultyFile{File: fl, f: f, name: name}, nil
}
func (f *Faulty) Open(name string) (absfs.File, error) { return f.OpenFile(name, os.O_RDONLY, 0) }
func (f *Faulty) Create(name string) (absfs.File, error) {
	return f.OpenFile(name, os.O_RDWR|os.O_CREATE|os.O_TRUNC, 0666)
}
func (f *Faulty) Mkdir(name string, perm os.FileMode) error {
	if err := f.hit("Mkdir", name); err != nil {
		return err
	}
	return f.FS.Mkdir(name, perm)
}
func (f *Faulty) Remove(name string) error {
	if err := f.hit("Remove", name); err != nil {
		return err
	}
	return f.FS.Remove(name)
}
func (f *Faulty) Rename(o, n string) error {
	if err := f.hit("Rename", o, n); err != nil {
		return err
	}
	return f.FS.Rename(o, n)
}
func (f *Faulty) Stat(name string) (os.FileInfo, error) {
	if err := f.hit("Stat", name); err != nil {
		return nil, err
	}
	return f.FS.Stat(name)
}
func (f *Faulty) Lstat(name string) (os.FileInfo, error) {
	if err := f.hit("Lstat", name); err != nil {
		return nil, err
	}
	return f.FS.Lstat(name)
}
func (f *Faulty) Chmod(name string, mode os.FileMode) error {
	if err := f.hit("Chmod", name); err != nil {
		return err
	}
	return f.FS.Chmod(name, mode)
}
func (f *Faulty) Chtimes(name string, a, m time.Time) error {
	if err := f.hit("Chtimes", name); err != nil {
		return err
	}
	return f.FS.Chtimes(name, a, m)
}
func (f *Faulty) Chown(name string, uid, gid int) error {
	if err := f.hit("Chown", name); err != nil {
		return err
	}
	return f.FS.Chown(name, uid, gid)
}
func (f *Faulty) Lchown(name string, uid, gid int) error {
	if err := f.hit("Lchown", name); err != nil {
		return err
	}
	return f.FS.Lchown(name, uid, gid)
}
func (f *Faulty) Readlink(name string) (string, error) {
	if err := f.hit("Readlink", name); err != nil {
		return "", err
	}
	return f.FS.Readlink(name)
}
func (f *Faulty) Symlink(o, n string) error {
	if err := f.hit("Symlink", n); err != nil {
		return err
	}
	return f.FS.Symlink(o, n)
}
func (f *Faulty) Truncate(name string, size int64) error {
	if err := f.hit("Truncate", name); err != nil {
		return err
	}
	return f.FS.Truncate(name, size)
}

type faultyFile struct {
	absfs.File
	f    *Faulty
	name string
}

func (x *faultyFile) ReadAt(b []byte, off int64) (int, error) {
	if err := x.f.hit("File.ReadAt", x.name); err != nil {
		return 0, err
	}
	return x.File.ReadAt(b, off)
}
func (x *faultyFile) WriteAt(b []byte, off int64) (int, error) {
	if err := x.f.hit("File.WriteAt", x.name); err != nil {
		return 0, err
	}
	return x.File.WriteAt(b, off)
}
func (x *faultyFile) Sync() error {
	if err := x.f.hit("File.Sync", x.name); err != nil {
		return err
	}
	return x.File.Sync()
}
func (x *faultyFile) Stat() (os.FileInfo, error) {
	if err := x.f.hit("File.Stat", x.name); err != nil {
		return nil, err
	}
	return x.File.Stat()
}
func (x *faultyFile) Truncate(size int64) error {
	if err := x.f.hit("File.Truncate", x.name); err != nil {
		return err
	}
	return x.File.Truncate(size)
}
func (x *faultyFile) Readdir(n int) ([]os.FileInfo, error) {
	if err := x.f.hit("File.Readdir", x.name); err != nil {
		return nil, err
	}
	return x.File.Readdir(n)
}
func (x *faultyFile) Close() error {
	if err := x.f.hit("File.Close", x.name); err != nil {
		x.File.Close()
		return err
	}
	return x.File.Close()
}
