// Package vfs is the reference in-memory backend used by the property checks.
//
// It is part of the trusted base: a small, race-free, POSIX-like
// absfs.SymlinkFileSystem with
//   - sparse file data (offsets up to 2^63-1 cost nothing),
//   - a call recorder (every backend call with its raw path arguments),
//   - a Before hook (gates, jitter, live-policy sampling),
//   - a crash model (volatile vs durable image, data durable only after Sync),
//   - Snapshot() for before/after tree comparison.
package vfs

import (
	"fmt"
	"hash/fnv"
	"io"
	"io/fs"
	"os"
	"path"
	"sort"
	"strings"
	"sync"
	"syscall"
	"time"

	"github.com/absfs/absfs"
)

const pageSize = 4096

// SentinelOwner is the uid/gid a fresh inode carries until somebody chowns it.
const SentinelOwner = 0xFFFFFFFE

// Call is one recorded backend call.
type Call struct {
	Seq      int
	Op       string
	Paths    []string // raw path arguments exactly as passed by the caller
	Target   string   // symlink target (Symlink only)
	Flag     int
	Perm     os.FileMode
	Uid, Gid int
	Off      int64
	Size     int64
	N        int
	Mutating bool
	Err      string
}

func (c Call) String() string {
	return fmt.Sprintf("%s%q flag=%#x perm=%o uid=%d gid=%d off=%d size=%d n=%d err=%q", c.Op, c.Paths, c.Flag, c.Perm, c.Uid, c.Gid, c.Off, c.Size, c.N, c.Err)
}

type inode struct {
	ino   uint64
	mode  os.FileMode // type bits + permission bits
	uid   uint32
	gid   uint32
	mtime time.Time
	nlink int

	// regular file: volatile image (what reads see)
	pages map[int64][]byte
	size  int64
	// durable image (what survives Crash)
	dpages map[int64][]byte
	dsize  int64

	children map[string]*inode // directory
	target   string            // symlink
}

func (n *inode) isDir() bool     { return n.mode&os.ModeDir != 0 }
func (n *inode) isSymlink() bool { return n.mode&os.ModeSymlink != 0 }
func (n *inode) isReg() bool     { return n.mode&os.ModeType == 0 }

// FS is the reference filesystem.
type FS struct {
	mu      sync.Mutex
	root    *inode
	nextIno uint64
	tick    int64
	cwd     string

	recMu  sync.Mutex
	rec    bool
	calls  []Call
	seq    int
	before func(c *Call)
	after  func(c *Call)

	// CrashMode: file data reaches the durable image only through Sync.
	CrashMode bool
	// WallClock: timestamps come from the wall clock instead of the logical clock (for checks in which "a moment
	// ago" has to mean that to the server too). Set before use.
	WallClock bool
	// SyncCount counts File.Sync calls.
	syncs int
}

var _ absfs.SymlinkFileSystem = (*FS)(nil)

var baseTime = time.Unix(1_600_000_000, 0)

// New returns an empty filesystem with root directory mode 0755 owned by 0/0.
func New() *FS {
	f := &FS{nextIno: 2, cwd: "/"}
	f.root = &inode{ino: 1, mode: os.ModeDir | 0755, children: map[string]*inode{}, mtime: baseTime, nlink: 2}
	return f
}

// SetRecording switches the call recorder on or off.
func (f *FS) SetRecording(on bool) { f.recMu.Lock(); f.rec = on; f.recMu.Unlock() }

// SetBefore installs a hook that runs before every backend call, outside the
// filesystem lock (it may block).
func (f *FS) SetBefore(h func(c *Call)) { f.recMu.Lock(); f.before = h; f.recMu.Unlock() }

// SetAfter installs a hook that runs after every backend call has taken effect
// and before it returns to the caller, outside the filesystem lock (it may block).
func (f *FS) SetAfter(h func(c *Call)) { f.recMu.Lock(); f.after = h; f.recMu.Unlock() }

// Calls returns a copy of the recorded calls.
func (f *FS) Calls() []Call {
	f.recMu.Lock()
	defer f.recMu.Unlock()
	out := make([]Call, len(f.calls))
	copy(out, f.calls)
	return out
}

// ResetCalls clears the recorder.
func (f *FS) ResetCalls() { f.recMu.Lock(); f.calls = nil; f.recMu.Unlock() }

// NumCalls returns the number of recorded calls.
func (f *FS) NumCalls() int { f.recMu.Lock(); defer f.recMu.Unlock(); return len(f.calls) }

func (f *FS) enter(c *Call) {
	f.recMu.Lock()
	h := f.before
	f.seq++
	c.Seq = f.seq
	f.recMu.Unlock()
	if h != nil {
		h(c)
	}
}

func (f *FS) leave(c *Call, err error) {
	if err != nil {
		c.Err = err.Error()
	}
	f.recMu.Lock()
	if f.rec {
		f.calls = append(f.calls, *c)
	}
	h := f.after
	f.recMu.Unlock()
	if h != nil {
		h(c)
	}
}

func perr(op, p string, e error) error { return &os.PathError{Op: op, Path: p, Err: e} }

func (f *FS) now() time.Time {
	f.tick++
	if f.WallClock {
		return time.Now()
	}
	return baseTime.Add(time.Duration(f.tick) * time.Millisecond)
}

func split(p string) []string {
	var out []string
	for _, c := range strings.Split(p, "/") {
		if c == "" || c == "." {
			continue
		}
		out = append(out, c)
	}
	return out
}

// resolve walks p. followLast decides whether a symlink in the final position is
// followed. It returns the parent directory, the final name and the inode (nil
// if the final component does not exist but the parent does).
func (f *FS) resolve(p string, followLast bool) (parent *inode, name string, n *inode, err error) {
	if p == "" {
		return nil, "", nil, syscall.ENOENT
	}
	if !strings.HasPrefix(p, "/") {
		p = path.Join(f.cwd, p)
	}
	return f.walkFrom([]*inode{f.root}, split(p), followLast, 0)
}

// walkFrom continues a walk with an explicit ancestor chain (chain[len-1] is the
// current directory).
func (f *FS) walkFrom(chain []*inode, comps []string, followLast bool, depth int) (*inode, string, *inode, error) {
	if depth > 40 {
		return nil, "", nil, syscall.ELOOP
	}
	cur := chain[len(chain)-1]
	stack := chain[:len(chain)-1]
	if len(comps) == 0 {
		return nil, "", cur, nil
	}
	for i, c := range comps {
		last := i == len(comps)-1
		if !cur.isDir() {
			return nil, "", nil, syscall.ENOTDIR
		}
		if c == ".." {
			if len(stack) > 0 {
				cur = stack[len(stack)-1]
				stack = stack[:len(stack)-1]
			} else {
				cur = f.root
			}
			if last {
				return nil, "", cur, nil
			}
			continue
		}
		if len(c) > 255 {
			return nil, "", nil, syscall.ENAMETOOLONG
		}
		child, ok := cur.children[c]
		if !ok {
			if last {
				return cur, c, nil, nil
			}
			return nil, "", nil, syscall.ENOENT
		}
		if child.isSymlink() && (!last || followLast) {
			tcomps := split(child.target)
			rest := append(append([]string{}, tcomps...), comps[i+1:]...)
			if strings.HasPrefix(child.target, "/") {
				if len(rest) == 0 {
					return nil, "", f.root, nil
				}
				return f.walkFrom([]*inode{f.root}, rest, followLast, depth+1)
			}
			if len(rest) == 0 {
				return nil, "", cur, nil
			}
			return f.walkFrom(append(append([]*inode{}, stack...), cur), rest, followLast, depth+1)
		}
		if last {
			return cur, c, child, nil
		}
		stack = append(stack, cur)
		cur = child
	}
	return nil, "", cur, nil
}

func (f *FS) newInode(mode os.FileMode) *inode {
	n := &inode{ino: f.nextIno, mode: mode, uid: SentinelOwner, gid: SentinelOwner, mtime: f.now(), nlink: 1}
	f.nextIno++
	if mode&os.ModeDir != 0 {
		n.children = map[string]*inode{}
		n.nlink = 2
	} else if mode&os.ModeType == 0 {
		n.pages = map[int64][]byte{}
		n.dpages = map[int64][]byte{}
	}
	return n
}

// ---------------------------------------------------------------- FileSystem

func isWriteFlag(flag int) bool {
	return flag&(os.O_WRONLY|os.O_RDWR|os.O_APPEND|os.O_CREATE|os.O_TRUNC) != 0
}

func (f *FS) OpenFile(name string, flag int, perm os.FileMode) (absfs.File, error) {
	c := &Call{Op: "OpenFile", Paths: []string{name}, Flag: flag, Perm: perm, Mutating: isWriteFlag(flag)}
	f.enter(c)
	file, err := f.openFile(name, flag, perm)
	f.leave(c, err)
	if err != nil {
		return nil, err
	}
	return file, nil
}

func (f *FS) openFile(name string, flag int, perm os.FileMode) (*File, error) {
	f.mu.Lock()
	defer f.mu.Unlock()
	// POSIX: O_CREAT|O_EXCL does not follow a symlink in the last component.
	follow := !(flag&os.O_CREATE != 0 && flag&os.O_EXCL != 0)
	parent, base, n, err := f.resolve(name, follow)
	if err != nil {
		return nil, perr("open", name, err)
	}
	if n == nil {
		if flag&os.O_CREATE == 0 {
			return nil, perr("open", name, syscall.ENOENT)
		}
		if parent == nil {
			return nil, perr("open", name, syscall.ENOENT)
		}
		n = f.newInode(perm & os.ModePerm)
		parent.children[base] = n
		parent.mtime = f.now()
	} else {
		if flag&os.O_CREATE != 0 && flag&os.O_EXCL != 0 {
			return nil, perr("open", name, syscall.EEXIST)
		}
		if n.isDir() && flag&(os.O_WRONLY|os.O_RDWR|os.O_TRUNC) != 0 {
			return nil, perr("open", name, syscall.EISDIR)
		}
		if flag&os.O_TRUNC != 0 && n.isReg() {
			f.truncateLocked(n, 0)
		}
	}
	return &File{fs: f, n: n, name: name, flag: flag}, nil
}

func (f *FS) Open(name string) (absfs.File, error) { return f.OpenFile(name, os.O_RDONLY, 0) }

func (f *FS) Create(name string) (absfs.File, error) {
	return f.OpenFile(name, os.O_RDWR|os.O_CREATE|os.O_TRUNC, 0666)
}

func (f *FS) Mkdir(name string, perm os.FileMode) error {
	c := &Call{Op: "Mkdir", Paths: []string{name}, Perm: perm, Mutating: true}
	f.enter(c)
	err := f.mkdir(name, perm)
	f.leave(c, err)
	return err
}

func (f *FS) mkdir(name string, perm os.FileMode) error {
	f.mu.Lock()
	defer f.mu.Unlock()
	parent, base, n, err := f.resolve(name, false)
	if err != nil {
		return perr("mkdir", name, err)
	}
	if n != nil {
		return perr("mkdir", name, syscall.EEXIST)
	}
	if parent == nil {
		return perr("mkdir", name, syscall.EEXIST)
	}
	d := f.newInode(os.ModeDir | (perm & (os.ModePerm | os.ModeSetuid | os.ModeSetgid | os.ModeSticky)))
	parent.children[base] = d
	parent.mtime = f.now()
	return nil
}

func (f *FS) MkdirAll(name string, perm os.FileMode) error {
	c := &Call{Op: "MkdirAll", Paths: []string{name}, Perm: perm, Mutating: true}
	f.enter(c)
	var err error
	cur := "/"
	for _, comp := range split(path.Clean("/" + name)) {
		cur = path.Join(cur, comp)
		e := f.mkdir(cur, perm)
		if e != nil {
			// tolerate existing directories
			f.mu.Lock()
			_, _, n, re := f.resolve(cur, true)
			f.mu.Unlock()
			if re == nil && n != nil && n.isDir() {
				continue
			}
			err = e
			break
		}
	}
	f.leave(c, err)
	return err
}

func (f *FS) Remove(name string) error {
	c := &Call{Op: "Remove", Paths: []string{name}, Mutating: true}
	f.enter(c)
	err := f.remove(name)
	f.leave(c, err)
	return err
}

func (f *FS) remove(name string) error {
	f.mu.Lock()
	defer f.mu.Unlock()
	parent, base, n, err := f.resolve(name, false)
	if err != nil {
		return perr("remove", name, err)
	}
	if n == nil {
		return perr("remove", name, syscall.ENOENT)
	}
	if parent == nil {
		return perr("remove", name, syscall.EBUSY) // root or ".." form
	}
	if n.isDir() && len(n.children) > 0 {
		return perr("remove", name, syscall.ENOTEMPTY)
	}
	delete(parent.children, base)
	parent.mtime = f.now()
	return nil
}

func (f *FS) RemoveAll(name string) error {
	c := &Call{Op: "RemoveAll", Paths: []string{name}, Mutating: true}
	f.enter(c)
	f.mu.Lock()
	parent, base, n, err := f.resolve(name, false)
	if err == nil && n != nil && parent != nil {
		delete(parent.children, base)
		parent.mtime = f.now()
	}
	f.mu.Unlock()
	f.leave(c, nil)
	return nil
}

func (f *FS) isAncestor(a, b *inode) bool {
	// is a an ancestor of (or equal to) b?
	if a == b {
		return true
	}
	if !a.isDir() {
		return false
	}
	for _, ch := range a.children {
		if f.isAncestor(ch, b) {
			return true
		}
	}
	return false
}

func (f *FS) Rename(oldpath, newpath string) error {
	c := &Call{Op: "Rename", Paths: []string{oldpath, newpath}, Mutating: true}
	f.enter(c)
	err := f.rename(oldpath, newpath)
	f.leave(c, err)
	return err
}

func (f *FS) rename(oldpath, newpath string) error {
	f.mu.Lock()
	defer f.mu.Unlock()
	op, ob, on, err := f.resolve(oldpath, false)
	if err != nil {
		return &os.LinkError{Op: "rename", Old: oldpath, New: newpath, Err: err}
	}
	if on == nil {
		return &os.LinkError{Op: "rename", Old: oldpath, New: newpath, Err: syscall.ENOENT}
	}
	if op == nil {
		return &os.LinkError{Op: "rename", Old: oldpath, New: newpath, Err: syscall.EBUSY}
	}
	np, nb, nn, err := f.resolve(newpath, false)
	if err != nil {
		return &os.LinkError{Op: "rename", Old: oldpath, New: newpath, Err: err}
	}
	if np == nil {
		return &os.LinkError{Op: "rename", Old: oldpath, New: newpath, Err: syscall.EBUSY}
	}
	if nn == on {
		return nil
	}
	if on.isDir() && f.isAncestor(on, np) {
		return &os.LinkError{Op: "rename", Old: oldpath, New: newpath, Err: syscall.EINVAL}
	}
	if nn != nil {
		if on.isDir() {
			if !nn.isDir() {
				return &os.LinkError{Op: "rename", Old: oldpath, New: newpath, Err: syscall.ENOTDIR}
			}
			if len(nn.children) > 0 {
				return &os.LinkError{Op: "rename", Old: oldpath, New: newpath, Err: syscall.ENOTEMPTY}
			}
		} else if nn.isDir() {
			return &os.LinkError{Op: "rename", Old: oldpath, New: newpath, Err: syscall.EISDIR}
		}
	}
	delete(op.children, ob)
	np.children[nb] = on
	t := f.now()
	op.mtime, np.mtime = t, t
	return nil
}

type fileInfo struct {
	name  string
	size  int64
	mode  os.FileMode
	mtime time.Time
	sys   Sys
}

// Sys is what FileInfo.Sys() returns.
type Sys struct {
	Ino      uint64
	Uid, Gid uint32
}

func (fi *fileInfo) Name() string       { return fi.name }
func (fi *fileInfo) Size() int64        { return fi.size }
func (fi *fileInfo) Mode() os.FileMode  { return fi.mode }
func (fi *fileInfo) ModTime() time.Time { return fi.mtime }
func (fi *fileInfo) IsDir() bool        { return fi.mode&os.ModeDir != 0 }
func (fi *fileInfo) Sys() interface{}   { return &fi.sys }

// dirEntry adapts fileInfo to fs.DirEntry.
type dirEntry struct{ fi *fileInfo }

func (d dirEntry) Name() string               { return d.fi.name }
func (d dirEntry) IsDir() bool                { return d.fi.IsDir() }
func (d dirEntry) Type() fs.FileMode          { return d.fi.mode.Type() }
func (d dirEntry) Info() (fs.FileInfo, error) { return d.fi, nil }

func infoOf(name string, n *inode) *fileInfo {
	sz := n.size
	if n.isSymlink() {
		sz = int64(len(n.target))
	}
	if n.isDir() {
		sz = 4096 // constant: directory sizes are implementation-specific and not judged
	}
	return &fileInfo{name: name, size: sz, mode: n.mode, mtime: n.mtime, sys: Sys{Ino: n.ino, Uid: n.uid, Gid: n.gid}}
}

func baseName(p string) string {
	if p == "/" || p == "" {
		return "/"
	}
	return path.Base(p)
}

func (f *FS) Stat(name string) (os.FileInfo, error) {
	c := &Call{Op: "Stat", Paths: []string{name}}
	f.enter(c)
	fi, err := f.stat(name, true, "stat")
	f.leave(c, err)
	if err != nil {
		return nil, err
	}
	return fi, nil
}

func (f *FS) Lstat(name string) (os.FileInfo, error) {
	c := &Call{Op: "Lstat", Paths: []string{name}}
	f.enter(c)
	fi, err := f.stat(name, false, "lstat")
	f.leave(c, err)
	if err != nil {
		return nil, err
	}
	return fi, nil
}

func (f *FS) stat(name string, follow bool, op string) (*fileInfo, error) {
	f.mu.Lock()
	defer f.mu.Unlock()
	_, _, n, err := f.resolve(name, follow)
	if err != nil {
		return nil, perr(op, name, err)
	}
	if n == nil {
		return nil, perr(op, name, syscall.ENOENT)
	}
	return infoOf(baseName(name), n), nil
}

const permMask = os.ModePerm | os.ModeSetuid | os.ModeSetgid | os.ModeSticky

func (f *FS) Chmod(name string, mode os.FileMode) error {
	c := &Call{Op: "Chmod", Paths: []string{name}, Perm: mode, Mutating: true}
	f.enter(c)
	f.mu.Lock()
	_, _, n, err := f.resolve(name, true)
	if err == nil && n == nil {
		err = syscall.ENOENT
	}
	if err == nil {
		n.mode = n.mode&os.ModeType | mode&permMask
		n.mtime = f.now()
	} else {
		err = perr("chmod", name, err)
	}
	f.mu.Unlock()
	f.leave(c, err)
	return err
}

func (f *FS) Chtimes(name string, atime, mtime time.Time) error {
	c := &Call{Op: "Chtimes", Paths: []string{name}, Mutating: true}
	f.enter(c)
	f.mu.Lock()
	_, _, n, err := f.resolve(name, true)
	if err == nil && n == nil {
		err = syscall.ENOENT
	}
	if err == nil {
		n.mtime = mtime
	} else {
		err = perr("chtimes", name, err)
	}
	f.mu.Unlock()
	f.leave(c, err)
	return err
}

func (f *FS) chown(name string, uid, gid int, follow bool, op string) error {
	f.mu.Lock()
	defer f.mu.Unlock()
	_, _, n, err := f.resolve(name, follow)
	if err == nil && n == nil {
		err = syscall.ENOENT
	}
	if err != nil {
		return perr(op, name, err)
	}
	if uid != -1 {
		n.uid = uint32(uid)
	}
	if gid != -1 {
		n.gid = uint32(gid)
	}
	return nil
}

func (f *FS) Chown(name string, uid, gid int) error {
	c := &Call{Op: "Chown", Paths: []string{name}, Uid: uid, Gid: gid, Mutating: true}
	f.enter(c)
	err := f.chown(name, uid, gid, true, "chown")
	f.leave(c, err)
	return err
}

func (f *FS) Lchown(name string, uid, gid int) error {
	c := &Call{Op: "Lchown", Paths: []string{name}, Uid: uid, Gid: gid, Mutating: true}
	f.enter(c)
	err := f.chown(name, uid, gid, false, "lchown")
	f.leave(c, err)
	return err
}

func (f *FS) listLocked(n *inode) []*fileInfo {
	names := make([]string, 0, len(n.children))
	for k := range n.children {
		names = append(names, k)
	}
	sort.Strings(names)
	out := make([]*fileInfo, len(names))
	for i, k := range names {
		out[i] = infoOf(k, n.children[k])
	}
	return out
}

func (f *FS) ReadDir(name string) ([]fs.DirEntry, error) {
	c := &Call{Op: "ReadDir", Paths: []string{name}}
	f.enter(c)
	f.mu.Lock()
	_, _, n, err := f.resolve(name, true)
	var out []fs.DirEntry
	if err == nil && n == nil {
		err = syscall.ENOENT
	}
	if err == nil && !n.isDir() {
		err = syscall.ENOTDIR
	}
	if err == nil {
		for _, fi := range f.listLocked(n) {
			out = append(out, dirEntry{fi})
		}
	} else {
		err = perr("readdir", name, err)
	}
	f.mu.Unlock()
	f.leave(c, err)
	return out, err
}

func (f *FS) ReadFile(name string) ([]byte, error) {
	c := &Call{Op: "ReadFile", Paths: []string{name}}
	f.enter(c)
	f.mu.Lock()
	_, _, n, err := f.resolve(name, true)
	var out []byte
	if err == nil && n == nil {
		err = syscall.ENOENT
	}
	if err == nil && n.isDir() {
		err = syscall.EISDIR
	}
	if err == nil {
		if n.size > 1<<28 {
			err = syscall.EFBIG
		} else {
			out = make([]byte, n.size)
			readPages(n.pages, n.size, out, 0)
		}
	}
	if err != nil {
		err = perr("readfile", name, err)
	}
	f.mu.Unlock()
	f.leave(c, err)
	return out, err
}

func (f *FS) Sub(dir string) (fs.FS, error) { return nil, perr("sub", dir, syscall.ENOSYS) }

func (f *FS) Chdir(dir string) error {
	c := &Call{Op: "Chdir", Paths: []string{dir}}
	f.enter(c)
	f.mu.Lock()
	_, _, n, err := f.resolve(dir, true)
	if err == nil && (n == nil || !n.isDir()) {
		err = syscall.ENOTDIR
	}
	if err == nil {
		f.cwd = path.Clean("/" + dir)
	} else {
		err = perr("chdir", dir, err)
	}
	f.mu.Unlock()
	f.leave(c, err)
	return err
}

func (f *FS) Getwd() (string, error) { f.mu.Lock(); defer f.mu.Unlock(); return f.cwd, nil }
func (f *FS) TempDir() string        { return "/tmp" }

func (f *FS) Truncate(name string, size int64) error {
	c := &Call{Op: "Truncate", Paths: []string{name}, Size: size, Mutating: true}
	f.enter(c)
	f.mu.Lock()
	_, _, n, err := f.resolve(name, true)
	if err == nil && n == nil {
		err = syscall.ENOENT
	}
	if err == nil && n.isDir() {
		err = syscall.EISDIR
	}
	if err == nil && (!n.isReg() || size < 0) {
		err = syscall.EINVAL
	}
	if err == nil {
		f.truncateLocked(n, size)
	} else {
		err = perr("truncate", name, err)
	}
	f.mu.Unlock()
	f.leave(c, err)
	return err
}

func dropBeyond(pages map[int64][]byte, size int64) {
	lastPage := size / pageSize
	for pn := range pages {
		if pn > lastPage || (pn == lastPage && size%pageSize == 0) {
			delete(pages, pn)
		}
	}
	if size%pageSize != 0 {
		if pg, ok := pages[lastPage]; ok {
			for i := size % pageSize; i < pageSize; i++ {
				pg[i] = 0
			}
		}
	}
}

func (f *FS) truncateLocked(n *inode, size int64) {
	if size < n.size {
		dropBeyond(n.pages, size)
	}
	n.size = size
	// Truncate is journaled: the size change is durable at once.
	if size < n.dsize {
		dropBeyond(n.dpages, size)
	}
	n.dsize = size
	if !f.CrashMode {
		// keep images identical outside crash mode
	}
	n.mtime = f.now()
}

func (f *FS) Readlink(name string) (string, error) {
	c := &Call{Op: "Readlink", Paths: []string{name}}
	f.enter(c)
	f.mu.Lock()
	_, _, n, err := f.resolve(name, false)
	var t string
	if err == nil && n == nil {
		err = syscall.ENOENT
	}
	if err == nil && !n.isSymlink() {
		err = syscall.EINVAL
	}
	if err == nil {
		t = n.target
	} else {
		err = perr("readlink", name, err)
	}
	f.mu.Unlock()
	f.leave(c, err)
	return t, err
}

func (f *FS) Symlink(oldname, newname string) error {
	c := &Call{Op: "Symlink", Paths: []string{newname}, Target: oldname, Mutating: true}
	f.enter(c)
	f.mu.Lock()
	parent, base, n, err := f.resolve(newname, false)
	if err == nil && (n != nil || parent == nil) {
		err = syscall.EEXIST
	}
	if err == nil {
		l := f.newInode(os.ModeSymlink | 0777)
		l.target = oldname
		parent.children[base] = l
		parent.mtime = f.now()
	} else {
		err = &os.LinkError{Op: "symlink", Old: oldname, New: newname, Err: err}
	}
	f.mu.Unlock()
	f.leave(c, err)
	return err
}

// ---------------------------------------------------------------- page helpers

func readPages(pages map[int64][]byte, size int64, b []byte, off int64) int {
	if off >= size {
		return 0
	}
	n := int64(len(b))
	if off+n > size || off+n < 0 {
		n = size - off
	}
	for i := int64(0); i < n; {
		pn := (off + i) / pageSize
		po := (off + i) % pageSize
		chunk := pageSize - po
		if chunk > n-i {
			chunk = n - i
		}
		if pg, ok := pages[pn]; ok {
			copy(b[i:i+chunk], pg[po:po+chunk])
		} else {
			for j := i; j < i+chunk; j++ {
				b[j] = 0
			}
		}
		i += chunk
	}
	return int(n)
}

func writePages(pages map[int64][]byte, b []byte, off int64) {
	n := int64(len(b))
	for i := int64(0); i < n; {
		pn := (off + i) / pageSize
		po := (off + i) % pageSize
		chunk := pageSize - po
		if chunk > n-i {
			chunk = n - i
		}
		pg, ok := pages[pn]
		if !ok {
			pg = make([]byte, pageSize)
			pages[pn] = pg
		}
		copy(pg[po:po+chunk], b[i:i+chunk])
		i += chunk
	}
}

func copyPages(src map[int64][]byte) map[int64][]byte {
	out := make(map[int64][]byte, len(src))
	for k, v := range src {
		c := make([]byte, pageSize)
		copy(c, v)
		out[k] = c
	}
	return out
}

// ---------------------------------------------------------------- File

// File is an open file or directory.
type File struct {
	fs     *FS
	n      *inode
	name   string
	flag   int
	pos    int64
	closed bool
	dirPos int
}

var _ absfs.File = (*File)(nil)

func (fl *File) Name() string { return fl.name }

func (fl *File) Read(b []byte) (int, error) {
	n, err := fl.ReadAt(b, fl.pos)
	fl.pos += int64(n)
	return n, err
}

func (fl *File) ReadAt(b []byte, off int64) (int, error) {
	c := &Call{Op: "File.ReadAt", Paths: []string{fl.name}, Off: off, N: len(b)}
	fl.fs.enter(c)
	fl.fs.mu.Lock()
	var n int
	var err error
	switch {
	case fl.n.isDir():
		err = perr("read", fl.name, syscall.EISDIR)
	case off < 0:
		err = perr("read", fl.name, syscall.EINVAL)
	default:
		n = readPages(fl.n.pages, fl.n.size, b, off)
		if n < len(b) {
			err = io.EOF
		}
	}
	fl.fs.mu.Unlock()
	c.N = n
	if err == io.EOF {
		fl.fs.leave(c, nil)
	} else {
		fl.fs.leave(c, err)
	}
	return n, err
}

func (fl *File) Write(b []byte) (int, error) {
	off := fl.pos
	if fl.flag&os.O_APPEND != 0 {
		fl.fs.mu.Lock()
		off = fl.n.size
		fl.fs.mu.Unlock()
	}
	n, err := fl.WriteAt(b, off)
	fl.pos = off + int64(n)
	return n, err
}

func (fl *File) WriteAt(b []byte, off int64) (int, error) {
	c := &Call{Op: "File.WriteAt", Paths: []string{fl.name}, Off: off, N: len(b), Mutating: true}
	fl.fs.enter(c)
	fl.fs.mu.Lock()
	var err error
	n := 0
	switch {
	case fl.n.isDir():
		err = perr("write", fl.name, syscall.EISDIR)
	case fl.flag&(os.O_WRONLY|os.O_RDWR) == 0:
		err = perr("write", fl.name, syscall.EBADF)
	case off < 0:
		err = perr("write", fl.name, syscall.EINVAL)
	case off+int64(len(b)) < 0:
		err = perr("write", fl.name, syscall.EFBIG)
	default:
		writePages(fl.n.pages, b, off)
		if off+int64(len(b)) > fl.n.size && len(b) > 0 {
			fl.n.size = off + int64(len(b))
		}
		if !fl.fs.CrashMode {
			writePages(fl.n.dpages, b, off)
			fl.n.dsize = fl.n.size
		}
		fl.n.mtime = fl.fs.now()
		n = len(b)
	}
	fl.fs.mu.Unlock()
	fl.fs.leave(c, err)
	return n, err
}

func (fl *File) WriteString(s string) (int, error) { return fl.Write([]byte(s)) }

func (fl *File) Close() error {
	c := &Call{Op: "File.Close", Paths: []string{fl.name}}
	fl.fs.enter(c)
	fl.closed = true
	fl.fs.leave(c, nil)
	return nil
}

func (fl *File) Sync() error {
	c := &Call{Op: "File.Sync", Paths: []string{fl.name}}
	fl.fs.enter(c)
	fl.fs.mu.Lock()
	if fl.n.isReg() {
		fl.n.dpages = copyPages(fl.n.pages)
		fl.n.dsize = fl.n.size
	}
	fl.fs.syncs++
	fl.fs.mu.Unlock()
	fl.fs.leave(c, nil)
	return nil
}

func (fl *File) Stat() (os.FileInfo, error) {
	c := &Call{Op: "File.Stat", Paths: []string{fl.name}}
	fl.fs.enter(c)
	fl.fs.mu.Lock()
	fi := infoOf(baseName(fl.name), fl.n)
	fl.fs.mu.Unlock()
	fl.fs.leave(c, nil)
	return fi, nil
}

func (fl *File) Seek(offset int64, whence int) (int64, error) {
	fl.fs.mu.Lock()
	defer fl.fs.mu.Unlock()
	var np int64
	switch whence {
	case io.SeekStart:
		np = offset
	case io.SeekCurrent:
		np = fl.pos + offset
	case io.SeekEnd:
		np = fl.n.size + offset
	default:
		return 0, perr("seek", fl.name, syscall.EINVAL)
	}
	if np < 0 {
		return 0, perr("seek", fl.name, syscall.EINVAL)
	}
	fl.pos = np
	return np, nil
}

func (fl *File) Truncate(size int64) error {
	c := &Call{Op: "File.Truncate", Paths: []string{fl.name}, Size: size, Mutating: true}
	fl.fs.enter(c)
	fl.fs.mu.Lock()
	var err error
	if !fl.n.isReg() || size < 0 {
		err = perr("truncate", fl.name, syscall.EINVAL)
	} else {
		fl.fs.truncateLocked(fl.n, size)
	}
	fl.fs.mu.Unlock()
	fl.fs.leave(c, err)
	return err
}

func (fl *File) Readdir(count int) ([]os.FileInfo, error) {
	c := &Call{Op: "File.Readdir", Paths: []string{fl.name}, N: count}
	fl.fs.enter(c)
	fl.fs.mu.Lock()
	var out []os.FileInfo
	var err error
	if !fl.n.isDir() {
		err = perr("readdir", fl.name, syscall.ENOTDIR)
	} else {
		all := fl.fs.listLocked(fl.n)
		if fl.dirPos > len(all) {
			fl.dirPos = len(all)
		}
		rest := all[fl.dirPos:]
		if count > 0 && len(rest) > count {
			rest = rest[:count]
		}
		fl.dirPos += len(rest)
		for _, fi := range rest {
			out = append(out, fi)
		}
		if count > 0 && len(rest) == 0 {
			err = io.EOF
		}
	}
	fl.fs.mu.Unlock()
	if err == io.EOF {
		fl.fs.leave(c, nil)
	} else {
		fl.fs.leave(c, err)
	}
	return out, err
}

func (fl *File) Readdirnames(n int) ([]string, error) {
	infos, err := fl.Readdir(n)
	names := make([]string, len(infos))
	for i, fi := range infos {
		names[i] = fi.Name()
	}
	return names, err
}

func (fl *File) ReadDir(n int) ([]fs.DirEntry, error) {
	infos, err := fl.Readdir(n)
	out := make([]fs.DirEntry, len(infos))
	for i, fi := range infos {
		out[i] = dirEntry{fi.(*fileInfo)}
	}
	return out, err
}

// ---------------------------------------------------------------- inspection (not recorded)

// Entry is one object in a Snapshot.
type Entry struct {
	Type   string // "file", "dir", "link"
	Perm   uint32 // permission + setuid/setgid/sticky, unix-style 12 bits
	Uid    uint32
	Gid    uint32
	Size   int64
	Hash   uint64 // content hash of regular files (zero pages normalised away)
	Target string
	Ino    uint64
}

func unixPerm(m os.FileMode) uint32 {
	p := uint32(m & os.ModePerm)
	if m&os.ModeSetuid != 0 {
		p |= 04000
	}
	if m&os.ModeSetgid != 0 {
		p |= 02000
	}
	if m&os.ModeSticky != 0 {
		p |= 01000
	}
	return p
}

func hashPages(pages map[int64][]byte, size int64) uint64 {
	keys := make([]int64, 0, len(pages))
	for k, pg := range pages {
		zero := true
		for _, b := range pg {
			if b != 0 {
				zero = false
				break
			}
		}
		if !zero {
			keys = append(keys, k)
		}
	}
	sort.Slice(keys, func(i, j int) bool { return keys[i] < keys[j] })
	h := fnv.New64a()
	var buf [8]byte
	for _, k := range keys {
		for i := 0; i < 8; i++ {
			buf[i] = byte(uint64(k) >> (8 * i))
		}
		h.Write(buf[:])
		h.Write(pages[k])
	}
	for i := 0; i < 8; i++ {
		buf[i] = byte(uint64(size) >> (8 * i))
	}
	h.Write(buf[:])
	return h.Sum64()
}

// Snapshot returns the whole tree keyed by absolute path. Not recorded, no hook.
func (f *FS) Snapshot() map[string]Entry {
	f.mu.Lock()
	defer f.mu.Unlock()
	out := map[string]Entry{}
	var rec func(p string, n *inode)
	rec = func(p string, n *inode) {
		e := Entry{Perm: unixPerm(n.mode), Uid: n.uid, Gid: n.gid, Ino: n.ino}
		switch {
		case n.isDir():
			e.Type = "dir"
		case n.isSymlink():
			e.Type = "link"
			e.Target = n.target
			e.Size = int64(len(n.target))
		default:
			e.Type = "file"
			e.Size = n.size
			e.Hash = hashPages(n.pages, n.size)
		}
		out[p] = e
		if n.isDir() {
			for name, ch := range n.children {
				rec(path.Join(p, name), ch)
			}
		}
	}
	rec("/", f.root)
	return out
}

// DiffSnapshots describes the first difference between two snapshots ("" if equal).
// Inode numbers are compared too: replacing an object by an identical-looking new one is a change.
func DiffSnapshots(a, b map[string]Entry) string {
	keys := map[string]bool{}
	for k := range a {
		keys[k] = true
	}
	for k := range b {
		keys[k] = true
	}
	ks := make([]string, 0, len(keys))
	for k := range keys {
		ks = append(ks, k)
	}
	sort.Strings(ks)
	for _, k := range ks {
		ea, oka := a[k]
		eb, okb := b[k]
		if !oka {
			return fmt.Sprintf("%s appeared (%+v)", k, eb)
		}
		if !okb {
			return fmt.Sprintf("%s disappeared (%+v)", k, ea)
		}
		if ea != eb {
			return fmt.Sprintf("%s changed: %+v -> %+v", k, ea, eb)
		}
	}
	return ""
}

// PeekLstat is Lstat without recording or hook.
func (f *FS) PeekLstat(name string) (Entry, bool) {
	f.mu.Lock()
	defer f.mu.Unlock()
	_, _, n, err := f.resolve(name, false)
	if err != nil || n == nil {
		return Entry{}, false
	}
	e := Entry{Perm: unixPerm(n.mode), Uid: n.uid, Gid: n.gid, Ino: n.ino}
	switch {
	case n.isDir():
		e.Type = "dir"
	case n.isSymlink():
		e.Type = "link"
		e.Target = n.target
		e.Size = int64(len(n.target))
	default:
		e.Type = "file"
		e.Size = n.size
	}
	return e, true
}

// PeekRead reads from the volatile image of a regular file without recording.
func (f *FS) PeekRead(name string, off int64, cnt int) ([]byte, int64, bool) {
	f.mu.Lock()
	defer f.mu.Unlock()
	_, _, n, err := f.resolve(name, true)
	if err != nil || n == nil || !n.isReg() {
		return nil, 0, false
	}
	b := make([]byte, cnt)
	k := readPages(n.pages, n.size, b, off)
	return b[:k], n.size, true
}

// PeekDurable reads from the durable image of a regular file.
func (f *FS) PeekDurable(name string, off int64, cnt int) ([]byte, int64, bool) {
	f.mu.Lock()
	defer f.mu.Unlock()
	_, _, n, err := f.resolve(name, true)
	if err != nil || n == nil || !n.isReg() {
		return nil, 0, false
	}
	b := make([]byte, cnt)
	k := readPages(n.dpages, n.dsize, b, off)
	return b[:k], n.dsize, true
}

// NonZeroExtent reports the page numbers holding non-zero data (volatile image).
func (f *FS) NonZeroPages(name string) []int64 {
	f.mu.Lock()
	defer f.mu.Unlock()
	_, _, n, err := f.resolve(name, true)
	if err != nil || n == nil || !n.isReg() {
		return nil
	}
	var out []int64
	for k, pg := range n.pages {
		for _, b := range pg {
			if b != 0 {
				out = append(out, k)
				break
			}
		}
	}
	sort.Slice(out, func(i, j int) bool { return out[i] < out[j] })
	return out
}

// Crash discards everything not yet durable.
func (f *FS) Crash() {
	f.mu.Lock()
	defer f.mu.Unlock()
	var rec func(n *inode)
	rec = func(n *inode) {
		if n.isReg() {
			n.pages = copyPages(n.dpages)
			n.size = n.dsize
		}
		for _, ch := range n.children {
			rec(ch)
		}
	}
	rec(f.root)
}

// Syncs returns the number of File.Sync calls so far.
func (f *FS) Syncs() int { f.mu.Lock(); defer f.mu.Unlock(); return f.syncs }

// ---- direct seeding helpers (not recorded) ----

// SeedDir creates a directory (parents must exist) with the given perm, owned by uid/gid.
func (f *FS) SeedDir(p string, perm os.FileMode, uid, gid uint32) {
	f.mu.Lock()
	defer f.mu.Unlock()
	parent, base, n, err := f.resolve(p, false)
	if err != nil || n != nil || parent == nil {
		panic(fmt.Sprintf("vfs.SeedDir %q: %v", p, err))
	}
	d := f.newInode(os.ModeDir | perm&permMask)
	d.uid, d.gid = uid, gid
	parent.children[base] = d
}

// SeedFile creates a regular file with content.
func (f *FS) SeedFile(p string, perm os.FileMode, uid, gid uint32, data []byte) {
	f.mu.Lock()
	defer f.mu.Unlock()
	parent, base, n, err := f.resolve(p, false)
	if err != nil || n != nil || parent == nil {
		panic(fmt.Sprintf("vfs.SeedFile %q: %v", p, err))
	}
	fl := f.newInode(perm & permMask)
	fl.uid, fl.gid = uid, gid
	writePages(fl.pages, data, 0)
	writePages(fl.dpages, data, 0)
	fl.size, fl.dsize = int64(len(data)), int64(len(data))
	parent.children[base] = fl
}

// SeedSymlink creates a symlink with an arbitrary target.
func (f *FS) SeedSymlink(p, target string, uid, gid uint32) {
	f.mu.Lock()
	defer f.mu.Unlock()
	parent, base, n, err := f.resolve(p, false)
	if err != nil || n != nil || parent == nil {
		panic(fmt.Sprintf("vfs.SeedSymlink %q: %v", p, err))
	}
	l := f.newInode(os.ModeSymlink | 0777)
	l.uid, l.gid = uid, gid
	l.target = target
	parent.children[base] = l
}

// SetOwnerMode sets owner and permission bits directly.
// SetRawMode replaces an object's whole mode word, type bits included: a backend may report objects that are
// neither regular files, directories nor symlinks (devices, pipes, sockets, "irregular" files).
func (f *FS) SetRawMode(p string, mode os.FileMode) {
	f.mu.Lock()
	defer f.mu.Unlock()
	_, _, n, err := f.resolve(p, false)
	if err != nil || n == nil {
		panic(fmt.Sprintf("vfs.SetRawMode %q: %v", p, err))
	}
	n.mode = mode
}

func (f *FS) SetOwnerMode(p string, perm os.FileMode, uid, gid uint32) {
	f.mu.Lock()
	defer f.mu.Unlock()
	_, _, n, err := f.resolve(p, false)
	if err != nil || n == nil {
		panic(fmt.Sprintf("vfs.SetOwnerMode %q: %v", p, err))
	}
	n.mode = n.mode&os.ModeType | perm&permMask
	n.uid, n.gid = uid, gid
}
