module verif/harness

go 1.23

require (
	github.com/absfs/absfs v1.0.0
	github.com/absfs/absnfs v0.0.0
	github.com/absfs/memfs v1.1.0
	github.com/anishathalye/porcupine v1.3.0
	pgregory.net/rapid v1.3.0
)

require github.com/absfs/inode v1.1.0 // indirect

replace github.com/absfs/absnfs => /repo
