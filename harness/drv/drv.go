// Package drv drives the real absnfs code through its wire-level entry
// points: direct HandleCall, an in-process record-marking connection, or TCP.
package drv

import (
	"io"
	"bytes"
	"errors"
	"fmt"
	"net"
	"sync"
	"sync/atomic"
	"time"

	"github.com/absfs/absfs"
	"github.com/absfs/absnfs"

	"verif/harness/nfsx"
	"verif/harness/stat"
	"verif/harness/vfs"
)

// Client identifies the caller of a request.
type Client struct {
	IP   string
	Port int
	Cred nfsx.Auth
}

// Root is uid 0 / gid 0 from a privileged port on loopback.
func Root() Client {
	return Client{IP: "127.0.0.1", Port: 700, Cred: nfsx.AuthSys(1, "verif", 0, 0, nil)}
}

// User is an AUTH_SYS client with the given ids.
func User(uid, gid uint32, gids ...uint32) Client {
	return Client{IP: "127.0.0.1", Port: 700, Cred: nfsx.AuthSys(1, "verif", uid, gid, gids)}
}

// Env is one server instance around a backend.
type Env struct {
	FS   absfs.SymlinkFileSystem
	V    *vfs.FS // nil if the backend is not vfs
	NFS  *absnfs.AbsfsNFS
	Srv  *absnfs.Server
	H    *absnfs.NFSProcedureHandler
	xid  atomic.Uint32
	once sync.Once

	// ViaConn routes CallWire through the server's real record-marking connection loop instead of a direct
	// HandleCall: one in-process connection per client address (ip, port), shared by every credential used
	// from that address, exactly as one NFS client machine multiplexes its users over one TCP connection.
	ViaConn  bool
	ConnWait time.Duration // reply wait in ViaConn mode (default 20 s)
	cmu      sync.Mutex
	conns    map[string]*sharedConn

	listening bool
}

// Listen starts the server's real listener (an OS-assigned port on loopback), as a user of NewServer + SetHandler +
// Listen does; the harness' own calls keep using their transport. Close stops it.
func (e *Env) Listen() error {
	if err := e.Srv.Listen(); err != nil {
		return err
	}
	e.listening = true
	return nil
}

type sharedConn struct {
	mu sync.Mutex
	p  *PipeConn
}

// FastTimeouts keeps requests from hanging for long when a check parks them.
func FastTimeouts(d time.Duration) *absnfs.TimeoutConfig {
	return &absnfs.TimeoutConfig{ReadTimeout: d, WriteTimeout: d, LookupTimeout: d, ReaddirTimeout: d, CreateTimeout: d,
		RemoveTimeout: d, RenameTimeout: d, HandleTimeout: d, DefaultTimeout: d}
}

// New builds absnfs.New + NewServer + handler around fs.
func New(fs absfs.SymlinkFileSystem, opts absnfs.ExportOptions) (*Env, error) {
	if opts.MaxWorkers == 0 {
		opts.MaxWorkers = 1
	}
	n, err := absnfs.New(fs, opts)
	if err != nil {
		return nil, err
	}
	s, err := absnfs.NewServer(absnfs.ServerOptions{Hostname: "127.0.0.1", UseRecordMarking: true})
	if err != nil {
		n.Close()
		return nil, err
	}
	s.SetHandler(n)
	e := &Env{FS: fs, NFS: n, Srv: s, H: absnfs.VerifNewProcHandler(s)}
	if v, ok := fs.(*vfs.FS); ok {
		e.V = v
	}
	e.xid.Store(1000)
	return e, nil
}

// Close releases the server.
func (e *Env) Close() {
	e.once.Do(func() {
		e.cmu.Lock()
		cs := e.conns
		e.conns = nil
		e.cmu.Unlock()
		for _, c := range cs {
			c.p.Close()
		}
		if e.listening {
			e.Srv.Stop()
		}
		e.NFS.Close()
	})
}

// ErrConnClosed is returned in ViaConn mode when the server closed the connection instead of replying.
var ErrConnClosed = errors.New("connection closed by the server without a reply")

func (e *Env) callConn(cl Client, msg []byte) ([]byte, error) {
	key := fmt.Sprintf("%s|%d", cl.IP, cl.Port)
	e.cmu.Lock()
	if e.conns == nil {
		e.conns = map[string]*sharedConn{}
	}
	c := e.conns[key]
	if c == nil {
		c = &sharedConn{p: e.Pipe(cl.IP, cl.Port)}
		e.conns[key] = c
	}
	e.cmu.Unlock()
	c.mu.Lock()
	defer c.mu.Unlock()
	drop := func() {
		e.cmu.Lock()
		if e.conns[key] == c {
			delete(e.conns, key)
		}
		e.cmu.Unlock()
		c.p.Close()
	}
	if err := c.p.Send(msg); err != nil {
		drop()
		return nil, ErrConnClosed
	}
	wait := e.ConnWait
	if wait <= 0 {
		wait = 20 * time.Second
	}
	rep, err := c.p.Recv(wait)
	if err != nil {
		drop()
		var ne net.Error
		if errors.As(err, &ne) && ne.Timeout() {
			return nil, ErrTimeout
		}
		return nil, ErrConnClosed
	}
	return rep, nil
}

// ErrTimeout is returned when HandleCall itself reports a timeout (no reply).
var ErrTimeout = errors.New("HandleCall: operation timed out (no reply)")

// CallWire sends one call (already complete RPC message bytes) through
// DecodeRPCCall + HandleCall + EncodeRPCReply and returns the reply bytes.
func (e *Env) CallWire(cl Client, msg []byte) ([]byte, error) {
	if e.ViaConn {
		return e.callConn(cl, msg)
	}
	rd := bytes.NewReader(msg)
	call, err := absnfs.DecodeRPCCall(rd)
	if err != nil {
		return nil, fmt.Errorf("DecodeRPCCall: %w", err)
	}
	body := bytes.NewReader(msg[len(msg)-rd.Len():])
	ctx := &absnfs.AuthContext{ClientIP: cl.IP, ClientPort: cl.Port, Credential: &call.Credential}
	reply, err := e.H.HandleCall(call, body, ctx)
	if err != nil {
		return nil, ErrTimeout
	}
	var buf bytes.Buffer
	if err := absnfs.EncodeRPCReply(&buf, reply); err != nil {
		return nil, fmt.Errorf("EncodeRPCReply: %w", err)
	}
	return buf.Bytes(), nil
}

// CallWireBody is the direct variant of CallWire with the argument reader wrapped by wrap (a reader that blocks,
// say: the request is then pinned inside its handler, after admission and before it has decoded its arguments).
func (e *Env) CallWireBody(cl Client, msg []byte, wrap func(io.Reader) io.Reader) ([]byte, error) {
	rd := bytes.NewReader(msg)
	call, err := absnfs.DecodeRPCCall(rd)
	if err != nil {
		return nil, fmt.Errorf("DecodeRPCCall: %w", err)
	}
	body := wrap(bytes.NewReader(msg[len(msg)-rd.Len():]))
	ctx := &absnfs.AuthContext{ClientIP: cl.IP, ClientPort: cl.Port, Credential: &call.Credential}
	reply, err := e.H.HandleCall(call, body, ctx)
	if err != nil {
		return nil, ErrTimeout
	}
	var buf bytes.Buffer
	if err := absnfs.EncodeRPCReply(&buf, reply); err != nil {
		return nil, fmt.Errorf("EncodeRPCReply: %w", err)
	}
	return buf.Bytes(), nil
}

// CallCtx is like CallWire but also returns the AuthContext after the call.
func (e *Env) CallCtx(cl Client, msg []byte) ([]byte, *absnfs.AuthContext, error) {
	rd := bytes.NewReader(msg)
	call, err := absnfs.DecodeRPCCall(rd)
	if err != nil {
		return nil, nil, fmt.Errorf("DecodeRPCCall: %w", err)
	}
	body := bytes.NewReader(msg[len(msg)-rd.Len():])
	ctx := &absnfs.AuthContext{ClientIP: cl.IP, ClientPort: cl.Port, Credential: &call.Credential}
	reply, err := e.H.HandleCall(call, body, ctx)
	if err != nil {
		return nil, ctx, ErrTimeout
	}
	var buf bytes.Buffer
	if err := absnfs.EncodeRPCReply(&buf, reply); err != nil {
		return nil, ctx, fmt.Errorf("EncodeRPCReply: %w", err)
	}
	return buf.Bytes(), ctx, nil
}

// NextXid returns a fresh xid.
func (e *Env) NextXid() uint32 { return e.xid.Add(1) }

// Call issues (prog, vers, proc, args) and returns the parsed RPC reply.
// A reply that is not a well-formed RFC 1831 message yields MalformedError.
func (e *Env) Call(cl Client, prog, vers, proc uint32, args []byte) (*nfsx.Reply, error) {
	xid := e.NextXid()
	wire, err := e.CallWire(cl, nfsx.Call(xid, prog, vers, proc, cl.Cred, nfsx.AuthNone(), args))
	if err != nil {
		return nil, err
	}
	rp, err := nfsx.ParseReply(wire)
	if err != nil {
		return nil, &MalformedError{Proc: proc, Err: err, Wire: wire}
	}
	if rp.Xid != xid {
		return nil, &MalformedError{Proc: proc, Err: fmt.Errorf("xid %d != %d", rp.Xid, xid), Wire: wire}
	}
	return rp, nil
}

// MalformedError marks a reply the strict decoder rejects. Only C14 reports it
// as a violation; other checks discard the case.
type MalformedError struct {
	Proc uint32
	Err  error
	Wire []byte
}

func (m *MalformedError) Error() string {
	return fmt.Sprintf("malformed reply to proc %d: %v", m.Proc, m.Err)
}

// IsMalformed reports whether err is a MalformedError.
func IsMalformed(err error) bool {
	var m *MalformedError
	return errors.As(err, &m)
}

// ErrNotAccepted is returned by NFS3 when the RPC layer did not accept the call.
type ErrNotAccepted struct{ Reply *nfsx.Reply }

func (e *ErrNotAccepted) Error() string {
	return fmt.Sprintf("rpc not accepted: stat=%d accept=%d reject=%d", e.Reply.Stat, e.Reply.AcceptStat, e.Reply.RejectStat)
}

// NFS3 issues an NFSv3 procedure and strictly decodes the result.
func (e *Env) NFS3(cl Client, proc uint32, args []byte) (*nfsx.Res, error) {
	rp, err := e.Call(cl, nfsx.ProgNFS, 3, proc, args)
	if err != nil {
		return nil, err
	}
	if rp.Stat != nfsx.MsgAccepted || rp.AcceptStat != nfsx.AcceptSuccess {
		return nil, &ErrNotAccepted{rp}
	}
	res, err := nfsx.DecodeNFS3(proc, rp.Body)
	if err != nil {
		return res, &MalformedError{Proc: proc, Err: err, Wire: rp.Body}
	}
	return res, nil
}

// Mount issues MOUNT v3 MNT for path and returns the root handle.
func (e *Env) Mount(cl Client, path string) ([]byte, uint32, error) {
	rp, err := e.Call(cl, nfsx.ProgMount, 3, nfsx.MountMnt, (&nfsx.W{}).Str(path).B)
	if err != nil {
		return nil, 0, err
	}
	if rp.Stat != nfsx.MsgAccepted || rp.AcceptStat != nfsx.AcceptSuccess {
		return nil, 0, &ErrNotAccepted{rp}
	}
	res, err := nfsx.DecodeMount3(nfsx.MountMnt, rp.Body)
	if err != nil {
		return nil, 0, &MalformedError{Proc: nfsx.MountMnt, Err: err, Wire: rp.Body}
	}
	return res.Fh, res.Status, nil
}

// MustMount mounts "/" as root or fails the test.
func (e *Env) MustMount(tb stat.TB) []byte {
	fh, st, err := e.Mount(Root(), "/")
	if err != nil || st != 0 {
		tb.Fatalf("harness: MNT / failed: status=%d err=%v", st, err)
	}
	return fh
}

// ------------------------------------------------------------------ pipe connection

// PipeConn is a client end of an in-process connection served by the real
// record-marking connection loop. RemoteAddr seen by the server is chosen by
// the harness.
type PipeConn struct {
	C    net.Conn
	Done chan struct{}
}

type addrConn struct {
	net.Conn
	remote net.Addr
}

func (a *addrConn) RemoteAddr() net.Addr { return a.remote }

// Pipe opens a served in-process connection whose remote address is ip:port.
// It bypasses accept-time admission (use Admit for that).
func (e *Env) Pipe(ip string, port int) *PipeConn {
	cli, srv := net.Pipe()
	sc := &addrConn{Conn: srv, remote: &net.TCPAddr{IP: net.ParseIP(ip), Port: port}}
	done := make(chan struct{})
	go func() {
		defer close(done)
		e.Srv.VerifServeConn(sc, e.H, true)
	}()
	return &PipeConn{C: cli, Done: done}
}

// PipeAdmitted is Pipe for a connection that went through the accept loop's admission first (address
// filter, connection limit, registration for idle tracking) and is unregistered when its handler ends,
// exactly as acceptLoop does it. Returns nil if the connection is refused.
func (e *Env) PipeAdmitted(ip string, port int) *PipeConn {
	cli, srv := net.Pipe()
	sc := &addrConn{Conn: srv, remote: &net.TCPAddr{IP: net.ParseIP(ip), Port: port}}
	if !e.Srv.VerifAdmit(sc) {
		cli.Close()
		srv.Close()
		return nil
	}
	done := make(chan struct{})
	go func() {
		defer close(done)
		defer e.Srv.VerifUnregister(sc)
		e.Srv.VerifServeConn(sc, e.H, true)
	}()
	return &PipeConn{C: cli, Done: done}
}

// Send writes one record.
func (p *PipeConn) Send(rec []byte, frags ...int) error {
	p.C.SetWriteDeadline(time.Now().Add(10 * time.Second))
	_, err := p.C.Write(nfsx.Frame(rec, frags...))
	return err
}

// SendRaw writes raw bytes.
func (p *PipeConn) SendRaw(b []byte) error {
	p.C.SetWriteDeadline(time.Now().Add(10 * time.Second))
	_, err := p.C.Write(b)
	return err
}

// Recv reads one reply record.
func (p *PipeConn) Recv(d time.Duration) ([]byte, error) {
	p.C.SetReadDeadline(time.Now().Add(d))
	return nfsx.ReadRecord(p.C, 8<<20)
}

// Close closes the client end and waits for the server loop to end.
func (p *PipeConn) Close() {
	p.C.Close()
	select {
	case <-p.Done:
	case <-time.After(10 * time.Second):
	}
}

// ------------------------------------------------------------------ TCP client

// TCPClient is a record-marking RPC client over a real socket.
type TCPClient struct{ C net.Conn }

// Dial connects to addr.
func Dial(addr string, d time.Duration) (*TCPClient, error) {
	c, err := net.DialTimeout("tcp", addr, d)
	if err != nil {
		return nil, err
	}
	return &TCPClient{C: c}, nil
}

// RoundTrip sends one record and reads one reply record.
func (t *TCPClient) RoundTrip(rec []byte, d time.Duration, frags ...int) ([]byte, error) {
	t.C.SetDeadline(time.Now().Add(d))
	if _, err := t.C.Write(nfsx.Frame(rec, frags...)); err != nil {
		return nil, err
	}
	return nfsx.ReadRecord(t.C, 8<<20)
}

// RoundTripSplit is RoundTrip with the framed record handed to the socket in two pieces, split bytes first and the
// rest a few milliseconds later (TCP gives no guarantee that a record marker arrives in one segment).
func (t *TCPClient) RoundTripSplit(rec []byte, d time.Duration, split int, frags ...int) ([]byte, error) {
	t.C.SetDeadline(time.Now().Add(d))
	framed := nfsx.Frame(rec, frags...)
	if split <= 0 || split >= len(framed) {
		split = len(framed)
	}
	if tc, ok := t.C.(*net.TCPConn); ok {
		tc.SetNoDelay(true)
	}
	if _, err := t.C.Write(framed[:split]); err != nil {
		return nil, err
	}
	if split < len(framed) {
		time.Sleep(3 * time.Millisecond)
		if _, err := t.C.Write(framed[split:]); err != nil {
			return nil, err
		}
	}
	return nfsx.ReadRecord(t.C, 8<<20)
}

func (t *TCPClient) Close() { t.C.Close() }
