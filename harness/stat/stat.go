// Package stat collects what a check process actually executed (cases,
// non-trivial cases, labels, samples, violations) and writes it to the file
// named by $VERIF_STATS when the test binary exits. The driver merges the
// files of all shards into /verif/evidence/<id>.json.
package stat

import (
	"encoding/binary"
	"encoding/json"
	"fmt"
	"hash/fnv"
	"os"
	"sort"
	"sync"
)

// TB is the subset of testing.TB / *rapid.T the checks need.
type TB interface {
	Fatalf(format string, args ...any)
	Logf(format string, args ...any)
}

// Violation is one property violation found by an oracle.
type Violation struct {
	Property  string          `json:"property_id"`
	Check     string          `json:"check"`
	Signature string          `json:"signature"`
	Message   string          `json:"message"`
	Case      json.RawMessage `json:"case"`
	Seed      int64           `json:"seed"`
}

// KnownFinding is one entry of /verif/known_findings.json.
type KnownFinding struct {
	Status    string `json:"status"` // "known" or "fixed"
	Property  string `json:"property"`
	Signature string `json:"signature"`
	What      string `json:"what"`
	Where     string `json:"where,omitempty"`
	Commit    string `json:"commit,omitempty"`
}

type sample struct {
	hash uint64
	val  json.RawMessage
}

// Stats is the per-process result file.
type Stats struct {
	Property      string                     `json:"property_id"`
	Evaluations   int64                      `json:"evaluations"`
	Nontrivial    int64                      `json:"nontrivial"`
	Distinct      int64                      `json:"distinct_nontrivial"`
	Disjoint      bool                       `json:"disjoint_shards"`
	Hashes        []uint64                   `json:"hashes,omitempty"`
	Labels        map[string]int64           `json:"labels"`
	Samples       []json.RawMessage          `json:"samples"`
	ExcludedKnown map[string]int64           `json:"excluded_known"`
	KnownSeen     map[string]string          `json:"known_seen"`
	Violations    []Violation                `json:"violations"`
	Discarded     int64                      `json:"discarded"`
	Malformed     int64                      `json:"discarded_malformed"`
	Extra         map[string]json.RawMessage `json:"extra,omitempty"`
	Exhaustive    bool                       `json:"exhaustive"`
	Inconclusive  []string                   `json:"inconclusive,omitempty"`
}

var (
	mu        sync.Mutex
	cur       = newStats()
	hashes    = map[uint64]struct{}{}
	firstS    []sample
	minS      []sample
	lastViol  = map[string]*Violation{}
	known     map[string]KnownFinding // key property|signature
	knownOnce sync.Once
	crashLog  = os.Getenv("VERIF_CRASHLOG")
	paused    bool
)

func newStats() *Stats {
	return &Stats{Labels: map[string]int64{}, ExcludedKnown: map[string]int64{}, KnownSeen: map[string]string{}, Extra: map[string]json.RawMessage{}}
}

func loadKnown() {
	known = map[string]KnownFinding{}
	p := os.Getenv("VERIF_KNOWN")
	if p == "" {
		p = "/verif/known_findings.json"
	}
	b, err := os.ReadFile(p)
	if err != nil {
		return
	}
	var list []KnownFinding
	if json.Unmarshal(b, &list) != nil {
		return
	}
	for _, k := range list {
		if k.Status == "known" {
			known[k.Property+"|"+k.Signature] = k
		}
	}
}

// IsKnown reports whether (property, signature) is listed as a known finding.
func IsKnown(property, signature string) bool {
	knownOnce.Do(loadKnown)
	_, ok := known[property+"|"+signature]
	return ok
}

// SetProperty names the property this process works on.
func SetProperty(id string) { mu.Lock(); cur.Property = id; mu.Unlock() }

// HashOf returns the FNV-64a hash of the canonical JSON of v.
func HashOf(v any) (uint64, json.RawMessage) {
	b, err := json.Marshal(v)
	if err != nil {
		b = []byte(fmt.Sprintf("%q", fmt.Sprint(v)))
	}
	h := fnv.New64a()
	h.Write(b)
	return h.Sum64(), b
}

// Begin notes the case about to run (written to disk only in crash-log mode so
// that the driver can recover the input of a run that killed the process).
func Begin(c any) {
	if crashLog == "" {
		return
	}
	_, b := HashOf(c)
	os.WriteFile(crashLog, b, 0644)
}

// Case records one executed (not discarded) case.
func Case(c any, nontrivial bool, labels ...string) {
	h, raw := HashOf(c)
	CaseKey(h, nontrivial, func() any { return raw }, labels...)
}

// CaseKey is Case for checks that compute a cheap key themselves; sampleFn is
// only invoked for the few cases that become samples.
func CaseKey(h uint64, nontrivial bool, sampleFn func() any, labels ...string) {
	mu.Lock()
	defer mu.Unlock()
	if paused {
		return
	}
	cur.Evaluations++
	for _, l := range labels {
		cur.Labels[l]++
	}
	if !nontrivial {
		return
	}
	cur.Nontrivial++
	if _, seen := hashes[h]; seen {
		return
	}
	hashes[h] = struct{}{}
	need := len(firstS) < 3 || len(minS) < 3 || h < minS[len(minS)-1].hash
	if !need {
		return
	}
	var raw json.RawMessage
	switch v := sampleFn().(type) {
	case json.RawMessage:
		raw = v
	default:
		_, raw = HashOf(v)
	}
	if len(raw) > 1500 {
		raw, _ = json.Marshal(string(raw[:1500]) + "…(truncated)")
	}
	s := sample{h, raw}
	if len(firstS) < 3 {
		firstS = append(firstS, s)
		return
	}
	minS = append(minS, s)
	sort.Slice(minS, func(i, j int) bool { return minS[i].hash < minS[j].hash })
	if len(minS) > 3 {
		minS = minS[:3]
	}
}

// Label increments a label counter without counting a case.
func Label(l string, n int64) { mu.Lock(); cur.Labels[l] += n; mu.Unlock() }

// Discard counts a discarded case.
func Discard(malformed bool) {
	mu.Lock()
	cur.Discarded++
	if malformed {
		cur.Malformed++
	}
	mu.Unlock()
}

// Extra stores an additional evidence value.
func Extra(key string, v any) {
	b, _ := json.Marshal(v)
	mu.Lock()
	cur.Extra[key] = b
	mu.Unlock()
}

// SetDisjoint declares that shards enumerate disjoint cases (no hash union needed).
func SetDisjoint(exhaustive bool) {
	mu.Lock()
	cur.Disjoint = true
	cur.Exhaustive = exhaustive
	mu.Unlock()
}

// Inconclusive records that part of the check could not be decided (exit 2 material only if nothing else ran).
func Inconclusive(what string) {
	mu.Lock()
	cur.Inconclusive = append(cur.Inconclusive, what)
	mu.Unlock()
}

// KnownObserved records that a listed known finding was reproduced.
func KnownObserved(property, signature, what string) {
	mu.Lock()
	if paused {
		mu.Unlock()
		return
	}
	cur.KnownSeen[signature] = what
	cur.ExcludedKnown[signature]++
	mu.Unlock()
}

// Violate reports a violation. If (property, signature) is a listed known
// finding it is counted and Violate returns true (the caller must abandon the
// case because its model may have diverged). Otherwise the violation is
// remembered as the latest one of this check and tb.Fatalf is called.
func Violate(tb TB, property, check, signature string, c any, format string, args ...any) bool {
	msg := fmt.Sprintf(format, args...)
	if IsKnown(property, signature) {
		KnownObserved(property, signature, msg)
		return true
	}
	_, raw := HashOf(c)
	mu.Lock()
	lastViol[check] = &Violation{Property: property, Check: check, Signature: signature, Message: msg, Case: raw}
	mu.Unlock()
	tb.Fatalf("VIOLATION-CANDIDATE property=%s signature=%s: %s", property, signature, msg)
	return false
}

// LastViolation returns a copy of the remembered violation of a check (nil if none).
func LastViolation(check string) *Violation {
	mu.Lock()
	defer mu.Unlock()
	if v, ok := lastViol[check]; ok {
		c := *v
		return &c
	}
	return nil
}

// SetViolation replaces the remembered violation of a check.
func SetViolation(check string, v *Violation) { mu.Lock(); lastViol[check] = v; mu.Unlock() }

// Checks with a remembered violation.
func ViolatedChecks() []string {
	mu.Lock()
	defer mu.Unlock()
	var out []string
	for k := range lastViol {
		out = append(out, k)
	}
	sort.Strings(out)
	return out
}

// Pause suspends case counting (used while a failure is being minimised).
func Pause(p bool) { mu.Lock(); paused = p; mu.Unlock() }

// ClearViolation forgets the remembered violation of a check (used when a
// rapid run ends green after flaky failures).
func ClearViolation(check string) { mu.Lock(); delete(lastViol, check); mu.Unlock() }

// Flush writes the stats file. Called from TestMain.
func Flush() {
	p := os.Getenv("VERIF_STATS")
	if p == "" {
		return
	}
	mu.Lock()
	defer mu.Unlock()
	cur.Distinct = int64(len(hashes))
	if !cur.Disjoint {
		cur.Hashes = make([]uint64, 0, len(hashes))
		for h := range hashes {
			cur.Hashes = append(cur.Hashes, h)
		}
		sort.Slice(cur.Hashes, func(i, j int) bool { return cur.Hashes[i] < cur.Hashes[j] })
	}
	cur.Samples = nil
	for _, s := range firstS {
		cur.Samples = append(cur.Samples, s.val)
	}
	for _, s := range minS {
		cur.Samples = append(cur.Samples, s.val)
	}
	cur.Violations = nil
	names := make([]string, 0, len(lastViol))
	for k := range lastViol {
		names = append(names, k)
	}
	sort.Strings(names)
	for _, k := range names {
		cur.Violations = append(cur.Violations, *lastViol[k])
	}
	// hashes can be large: write them as a side-car binary file
	if len(cur.Hashes) > 0 {
		buf := make([]byte, 8*len(cur.Hashes))
		for i, h := range cur.Hashes {
			binary.LittleEndian.PutUint64(buf[8*i:], h)
		}
		os.WriteFile(p+".hashes", buf, 0644)
		cur.Hashes = nil
	}
	b, _ := json.MarshalIndent(cur, "", " ")
	os.WriteFile(p, b, 0644)
}
