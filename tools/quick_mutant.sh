#!/bin/sh
# usage: quick_mutant.sh <srcdir with patch.diff> <check id> [tier]
# Like try_mutant.sh but without the confirmation steps (demo, pinned suite): only runs the check against a
# scratch worktree with the patch applied. For iterating on a check after try_mutant.sh confirmed the mutant.
SRC=$1; ID=$2; TIER=${3:-quick}
export GOFLAGS=-mod=mod GOPROXY=off GOSUMDB=off GOTOOLCHAIN=local
W=/root/scratch/qmut.$$
mkdir -p /root/scratch
git -C /repo worktree add -q --detach "$W" HEAD || exit 2
( cd "$W" && git apply "$SRC/patch.diff" ) || { echo "PATCH DOES NOT APPLY"; git -C /repo worktree remove --force "$W"; exit 2; }
cd /verif && VERIF_ALT_REPO="$W" ./vcheck run "$ID" "$TIER" 2>&1 | grep -a -E "^(VIOLATION|OK|INCONCLUSIVE|KNOWN|--- )" | cut -c1-260
git -C /repo worktree remove --force "$W"
