#!/bin/sh
# Runs absnfs' pinned test suite (guard OFF) on a scratch copy of /repo's working tree
# and compares the passing tests with /root/.vp/BASELINE.json when it is available.
set -e
export GOFLAGS=-mod=mod GOPROXY=off GOSUMDB=off GOTOOLCHAIN=local
S=/root/scratch/suite.$$
mkdir -p /root/scratch
rsync -a --exclude .git "${1:-/repo}/" "$S/"
cd "$S"
go test -json -vet=off -count=1 -timeout 25m ./... > "$S.json" 2>"$S.err" || true
python3 - "$S.json" <<'PY'
import json,sys
passed=set(); failed=set()
for l in open(sys.argv[1]):
    try: e=json.loads(l)
    except Exception: continue
    if e.get('Test') and e.get('Action') in('pass','fail'):
        k=e['Package']+'::'+e['Test']
        (passed if e['Action']=='pass' else failed).add(k)
print('passed',len(passed),'failed',len(failed))
for f in sorted(failed): print('FAIL',f)
try:
    base=set(json.load(open('/root/.vp/BASELINE.json'))['stable_pass'])
    miss=sorted(base-passed)
    print('baseline',len(base),'missing_from_pass',len(miss))
    for m in miss[:40]: print('MISSING',m)
    sys.exit(1 if miss or failed else 0)
except FileNotFoundError:
    sys.exit(1 if failed else 0)
PY
rc=$?
rm -rf "$S" "$S.json" "$S.err"
exit $rc
