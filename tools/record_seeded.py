#!/usr/bin/env python3
# usage: record_seeded.py <srcdir> <dest name> <property> <change> <needs> <caught_by> [missed_at_first strengthening]
import sys, json, os, shutil
src, name, prop, change, needs, caught = sys.argv[1:7]
missed = len(sys.argv) > 7
d = f"/verif/seeded/{name}"
os.makedirs(d, exist_ok=True)
shutil.copy(f"{src}/patch.diff", f"{d}/patch.diff")
shutil.copy(f"{src}/zz_demo_test.go", f"{d}/zz_demo_test.go")
for r in ("README.md",):
    if os.path.exists(f"{src}/{r}"):
        shutil.copy(f"{src}/{r}", f"{d}/README.agent.md")
m = {"property": prop, "change": change, "needs_to_manifest": needs,
     "author": "independent sub-agent given only the property text and a scratch worktree",
     "confirmed": {"demo_fails_with_patch": True, "demo_passes_without_patch": True,
                   "pinned_suite_passes_with_patch": "1361/1361 (tools/suite.sh on a scratch worktree)"},
     "ran": f"tools/try_mutant.sh {src} {prop} (applies patch to /repo, ./vcheck run {prop} quick, git checkout)",
     "caught_by": caught, "missed_at_first": missed}
if missed:
    m["strengthening"] = sys.argv[7]
json.dump(m, open(f"{d}/meta.json", "w"), indent=1)
