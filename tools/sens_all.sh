#!/bin/sh
# usage: sens_all.sh <glob-prefix> [jobs] -- runs tools/sens.sh for every sensitivity/<prefix>*.diff, <jobs> at a time;
# results are appended to sensitivity/RESULTS.txt (one line per mutant and check).
P=$1; J=${2:-4}
ls /verif/sensitivity/${P}*.diff | sed 's#.*/##; s#\.diff$##' | xargs -P "$J" -I{} sh -c '/verif/tools/sens.sh {} > /root/scratch/sensout.{} 2>&1; cat /root/scratch/sensout.{} >> /verif/sensitivity/RESULTS.txt; rm -f /root/scratch/sensout.{}'
