#!/bin/sh
# usage: try_mutant.sh <srcdir with patch.diff + zz_demo_test.go> <check id> [tier]
# Works entirely in a scratch worktree (never touches /repo or /verif/evidence):
# 1. confirms: demo passes without the patch, fails with it, pinned suite passes with the patch
# 2. runs the check against the patched worktree (VERIF_ALT_REPO)
SRC=$1; ID=$2; TIER=${3:-quick}
export GOFLAGS=-mod=mod GOPROXY=off GOSUMDB=off GOTOOLCHAIN=local
W=/root/scratch/mut.$$
mkdir -p /root/scratch
git -C /repo worktree add -q --detach "$W" HEAD || exit 2
cp "$SRC/zz_demo_test.go" "$W/zz_demo_test.go"
T=$(grep -o 'func TestDemo[A-Za-z0-9_]*' "$SRC/zz_demo_test.go" | head -1 | sed 's/func //')
( cd "$W" && go test -vet=off -count=1 -run "^$T\$" . > "$W.without.log" 2>&1 ); R0=$?
( cd "$W" && git apply "$SRC/patch.diff" ) || { echo "PATCH DOES NOT APPLY"; git -C /repo worktree remove --force "$W"; exit 2; }
( cd "$W" && go test -vet=off -count=1 -run "^$T\$" . > "$W.with.log" 2>&1 ); R1=$?
rm "$W/zz_demo_test.go"
SUITE=$(/verif/tools/suite.sh "$W" 2>&1 | tr '\n' ' ')
echo "demo($T) without patch: exit $R0 (want 0); with patch: exit $R1 (want !=0); suite with patch: $SUITE"
rm -f "$W.without.log" "$W.with.log"
cd /verif && VERIF_ALT_REPO="$W" ./vcheck run "$ID" "$TIER" 2>&1 | grep -a -E "^(VIOLATION|OK|INCONCLUSIVE|KNOWN|--- )" | cut -c1-260
git -C /repo worktree remove --force "$W"
