#!/usr/bin/env python3
"""Validate MANIFEST.json and every evidence file against the schemas in /root/.vp."""
import json, sys, glob, os
try:
    import jsonschema
except ImportError:
    sys.path.insert(0, '/opt/veriftools/pyvenv/lib/python3.11/site-packages')
    import jsonschema
vp = '/root/.vp'
ok = True
def check(path, schema):
    global ok
    try:
        jsonschema.validate(json.load(open(path)), json.load(open(schema)))
        print('valid  ', path)
    except Exception as e:
        ok = False
        print('INVALID', path, str(e).splitlines()[0])
if os.path.exists('/verif/MANIFEST.json'):
    check('/verif/MANIFEST.json', vp + '/MANIFEST.schema.json')
for f in sorted(glob.glob('/verif/evidence/*.json')):
    check(f, vp + '/EVIDENCE.schema.json')
sys.exit(0 if ok else 1)
