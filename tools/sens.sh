#!/bin/sh
# usage: sens.sh <name> [tier]   -- runs the checks named in sensitivity/<name>.meta against a scratch
# worktree carrying sensitivity/<name>.diff (VERIF_ALT_REPO); prints one line per check. With SUITE=1 also
# runs the pinned suite on the changed tree. Never touches /repo's working tree or /verif/evidence.
N=$1; TIER=${2:-quick}
export GOFLAGS=-mod=mod GOPROXY=off GOSUMDB=off GOTOOLCHAIN=local
W=/root/scratch/sens.$N.$$
git -C /repo worktree add -q --detach "$W" HEAD || exit 2
( cd "$W" && git apply /verif/sensitivity/$N.diff ) || { echo "$N PATCH-DOES-NOT-APPLY"; git -C /repo worktree remove --force "$W"; exit 2; }
S=""
if [ -n "$SUITE" ]; then S="suite: $(/verif/tools/suite.sh "$W" 2>&1 | head -1)"; fi
for ID in $(head -1 /verif/sensitivity/$N.meta | tr ',' ' '); do
  out=$(cd /verif && VERIF_ALT_REPO="$W" ./vcheck run "$ID" "$TIER" 2>&1); rc=$?
  sig=$(echo "$out" | grep -a -E "^VIOLATION" | head -1 | cut -c1-60)
  msg=$(echo "$out" | grep -a -E "signature|^--- " | head -2 | tr '\n' ' ' | cut -c1-200)
  echo "$N $ID rc=$rc $S $sig $msg"
done
git -C /repo worktree remove --force "$W"
