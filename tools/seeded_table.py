#!/usr/bin/env python3
# Rewrites the block between <!-- SEEDED-TABLE-BEGIN --> and <!-- SEEDED-TABLE-END --> in DESIGN.md from seeded/*/meta.json
# and sensitivity/RESULTS.txt.
import json, glob, os, re
rows = []
for d in sorted(glob.glob('/verif/seeded/*')):
    m = json.load(open(d + '/meta.json'))
    caught = m['caught_by'].replace('|', '/')
    if m.get('obsolete'):
        caught += ' - OBSOLETE: ' + m['obsolete'].replace('|', '/')
    rows.append('| %s | %s | %s | %s | %s |' % (os.path.basename(d), m['change'].replace('|', '/'), m['needs_to_manifest'].replace('|', '/'),
                                            caught, ('yes: ' + m.get('strengthening', '')) if m.get('missed_at_first') else 'no'))
out = ['| id | change (author: independent sub-agent) | needs | caught by | missed at first -> strengthening |', '|---|---|---|---|---|'] + rows
hand = []
res = '/verif/sensitivity/RESULTS.txt'
if os.path.exists(res):
    seen = {}
    for l in open(res):
        p = l.split()
        if len(p) >= 3 and p[2].startswith('rc='):
            sig = ''
            mm = re.search(r'signature=(\S+)', l)
            if mm:
                sig = mm.group(1)
            seen[(p[0], p[1])] = (p[2], sig)
    names = sorted(set(k[0] for k in seen))
    hand = ['', 'Hand-made changes (`/verif/sensitivity/<name>.diff`, made with `tools/mkmut.py`, run with `tools/sens.sh`):', '',
            '| name | check: result |', '|---|---|']
    for n in names:
        if not os.path.exists('/verif/sensitivity/%s.diff' % n):
            continue
        cells = []
        for (nn, chk), (rc, sig) in sorted(seen.items()):
            if nn == n:
                cells.append('%s: %s' % (chk, ('caught (' + sig + ')') if rc == 'rc=1' else ('MISSED' if rc == 'rc=0' else rc)))
        hand.append('| %s | %s |' % (n, '; '.join(cells)))
s = open('/verif/DESIGN.md').read()
block = '<!-- SEEDED-TABLE-BEGIN -->\n' + '\n'.join(out + hand) + '\n<!-- SEEDED-TABLE-END -->'
if '<!-- SEEDED-TABLE-BEGIN -->' in s:
    s = re.sub(r'<!-- SEEDED-TABLE-BEGIN -->.*<!-- SEEDED-TABLE-END -->', lambda _: block, s, flags=re.S)
else:
    s += '\n' + block + '\n'
open('/verif/DESIGN.md', 'w').write(s)
print(len(rows), 'seeded,', max(0, len(hand) - 5), 'hand-made')
