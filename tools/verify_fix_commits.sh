#!/bin/sh
# Runs the pinned suite on every commit of /repo after the pinned snapshot (each must pass unedited).
BASE=41edc99
for c in $(git -C /repo log --reverse --format=%h $BASE..HEAD); do
  d=/root/scratch/fixwt.$c
  git -C /repo worktree add -q "$d" "$c" || exit 2
  r=$(/verif/tools/suite.sh "$d" 2>&1 | tr '\n' ' ')
  echo "$c $(git -C /repo log --format=%s -1 $c | cut -c1-70) :: $r"
  git -C /repo worktree remove --force "$d"
done
