#!/usr/bin/env python3
"""mkmut.py <name> <checks> <file> <old> <new> [<file> <old> <new> ...]
Creates /verif/sensitivity/<name>.diff: a hand-made, still-compiling change to absnfs
(sensitivity experiments; never applied to /repo itself). <checks> is a comma list of the
checks expected to catch it; stored in the first line of <name>.meta."""
import sys, subprocess, os
name, checks = sys.argv[1], sys.argv[2]
triples = sys.argv[3:]
W = '/root/scratch/mkmut.%d' % os.getpid()
env = dict(os.environ, GOFLAGS='-mod=mod', GOPROXY='off', GOSUMDB='off', GOTOOLCHAIN='local')
subprocess.check_call(['git', '-C', '/repo', 'worktree', 'add', '-q', '--detach', W, 'HEAD'])
try:
    for i in range(0, len(triples), 3):
        f, old, new = triples[i:i+3]
        p = os.path.join(W, f)
        s = open(p).read()
        if s.count(old) != 1:
            sys.exit('%s: pattern occurs %d times in %s: %r' % (name, s.count(old), f, old))
        open(p, 'w').write(s.replace(old, new))
    r = subprocess.run(['go', 'build', './...'], cwd=W, env=env, capture_output=True, text=True)
    if r.returncode != 0:
        sys.exit('%s: does not compile:\n%s' % (name, r.stderr))
    d = subprocess.check_output(['git', '-C', W, 'diff']).decode()
    open('/verif/sensitivity/%s.diff' % name, 'w').write(d)
    open('/verif/sensitivity/%s.meta' % name, 'w').write(checks + '\n')
    print('ok', name, len(d.splitlines()), 'lines')
finally:
    subprocess.call(['git', '-C', '/repo', 'worktree', 'remove', '--force', W])
